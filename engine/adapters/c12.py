"""C12 -- every random draw satisfies all constraints its sampling set declares.

spec level : SamplerContracts.tla (Accepts / Required / Implied / Contract, numeric membership in micro-units, laws),
             SquarePipeline.tla + MC_SquarePipeline.tla (implementation-shaped model of the SquareMatrices draw loop,
             checked against the contracts, liveness of the redraw loop).
spec->code : MC_SamplerContracts enumerates the option grid of every sampler class with the contract of each
             configuration; every configuration is built with the real constructor (accept / refuse compared), drawn
             from many times, every draw abstracted to features + micro-unit brackets and compared with the contract.
code->spec : configurations outside the grid (random intervals, dimensions up to 9, long member lists, 5-axis
             tensors, 6-argument random functions) are built and drawn from; every observation becomes an ndjson
             record judged by SamplerContractsTrace (TLC evaluates Accepts / Missing / EndpointsSeen per record).
             A sample of the replay draws goes through the same trace spec, so the Python mirror of the numeric
             membership test (derive()) is cross-checked against the TLA+ definition on every run.
drift      : intermediate matrices of SquareMatrices draws (after apply_symmetry, after normalize) and the number of
             redraws are validated against SquarePipeline!StageFeatures / MayRetry.
"""
import json
import math
import numbers
import os
import random
import zlib
from fractions import Fraction

from engine import dump, traces

MICRO = 10 ** 6
CLAMP = 2100000000
TOL = 1e-9
PI12 = math.pi / 12

SCALARS = ('RealInterval', 'IntegerRange', 'ComplexRectangle', 'ComplexSector')
PLAIN_ARRAYS = ('RealVectors', 'ComplexVectors', 'RealMatrices', 'ComplexMatrices', 'RealTensors', 'ComplexTensors')
KNOWN_CLASS = 'randomfunction-amplitude-input-dim'


# ---------------------------------------------------------------- tables of listed values / functions
def _square(x):
    return x * x


def _step(x):
    return 0 if x < 0 else 1


def _cube(x):
    return x * x * x


def tables():
    import numpy as np
    from mitxgraders.helpers.calc import MathArray
    values = {
        'one': 1, 'three': 3, 'mhalf5': -2.5, 'cplx': 1 + 2j,
        'eye2': MathArray([[1, 0], [0, 1]]), 'mat2': MathArray([[1, 2], [3, 4]]), 'vec3': MathArray([1, 2, 3]),
        'zero': 0, 'neg7': -7, 'big': 12345.678, 'vec2': MathArray([0.5, -1]), 'mat3': MathArray(np.arange(9.).reshape(3, 3)),
        'imag': -3j, 'tens': MathArray(np.ones((2, 2, 2))),
    }
    funcs = {'sin': np.sin, 'cos': np.cos, 'tan': np.tan, 'square': _square, 'step': _step, 'cube': _cube,
             'exp': np.exp, 'abs': abs}
    return values, funcs


def value_id(v, values):
    import numpy as np
    from mitxgraders.helpers.calc import MathArray
    for k, w in values.items():
        if isinstance(w, MathArray):
            if isinstance(v, MathArray) and v.shape == w.shape and np.array_equal(v, w):
                return k
        elif not isinstance(v, np.ndarray) and isinstance(v, numbers.Number) and type(v) is type(w) and v == w:
            return k
    return 'unknown'


# ---------------------------------------------------------------- abstract configuration -> real sampling set
def half(h):
    return h // 2 if h % 2 == 0 else h / 2.0


def variant(cfg, k):
    """deterministic choice among k equivalent ways of writing the same configuration"""
    return zlib.crc32(json.dumps(cfg, sort_keys=True).encode()) % k


def pair(p, cfg, as_dict_ok=True):
    a, b = half(p[0]), half(p[1])
    if as_dict_ok and variant(cfg, 3) == 1:
        return {'start': a, 'stop': b}
    return [a, b]


def scalar_kwargs(s):
    cls = s['cls']
    if cls == 'RealInterval':
        return {'start': half(s['start']), 'stop': half(s['stop'])}
    if cls == 'IntegerRange':
        return {'start': s['start'], 'stop': s['stop']}
    if cls == 'ComplexRectangle':
        return {'re': pair(s['re'], s), 'im': pair(s['im'], s)}
    if cls == 'ComplexSector':
        return {'modulus': pair(s['modulus'], s), 'argument': [s['argument'][0] * PI12, s['argument'][1] * PI12]}
    raise ValueError(cls)


def make(cls, kw, cfg):
    import mitxgraders
    import mitxgraders.matrixsampling as ms
    import mitxgraders.sampling as sp
    klass = getattr(ms, cls, None) or getattr(sp, cls)
    if cls in ('RealInterval', 'IntegerRange') and variant(cfg, 2) == 1:
        return klass([kw['start'], kw['stop']])
    if variant(cfg, 4) == 3:
        return klass(kw)                # configuration dictionary instead of keyword arguments
    return klass(**kw)


def kwargs_of(cfg, values=None, funcs=None):
    cls = cfg['cls']
    if cls in SCALARS:
        return scalar_kwargs(cfg)
    if cls in PLAIN_ARRAYS:
        shape = list(cfg['shape'])
        v = variant(cfg, 3)
        if len(shape) == 1 and v == 0:
            shape = shape[0]
        elif v == 1:
            shape = tuple(shape)
        kw = {'shape': shape, 'norm': pair(cfg['norm'], cfg)}
        if cls.endswith('Matrices') and (cfg['triangular'] != 'none' or v == 2):
            kw['triangular'] = None if cfg['triangular'] == 'none' else cfg['triangular']
        return kw
    if cls == 'SquareMatrices':
        return {'dimension': cfg['dimension'], 'symmetry': None if cfg['symmetry'] == 'none' else cfg['symmetry'],
                'traceless': cfg['traceless'], 'determinant': {'none': None, 'zero': 0, 'one': 1}[cfg['determinant']],
                'complex': cfg['complex'], 'norm': pair(cfg['norm'], cfg)}
    if cls == 'IdentityMatrixMultiples':
        s = cfg['sampler']
        if s['cls'] == 'RealInterval' and variant(cfg, 2) == 0:
            sampler = [half(s['start']), half(s['stop'])]           # a plain list is coerced to a RealInterval
        else:
            sampler = make(s['cls'], scalar_kwargs(s), s)
        return {'dimension': cfg['dimension'], 'sampler': sampler}
    if cls == 'RandomFunction':
        return {'input_dim': cfg['inputDim'], 'output_dim': cfg['outputDim'], 'num_terms': cfg['numTerms'],
                'center': half(cfg['center']), 'amplitude': half(cfg['amplitude']), 'complex': cfg['complex']}
    raise ValueError(cls)


def build(cfg, values, funcs):
    """-> (sampler or None, accepted, exception class name or None)"""
    import mitxgraders.sampling as sp
    cls = cfg['cls']
    try:
        if cls == 'DiscreteSet':
            mem = tuple(values[m] for m in cfg['members'])
            return sp.DiscreteSet(mem[0] if len(mem) == 1 and variant(cfg, 2) == 0 else mem), True, None
        if cls == 'SpecificFunctions':
            mem = [funcs[m] for m in cfg['members']]
            return sp.SpecificFunctions(mem[0] if len(mem) == 1 and variant(cfg, 2) == 0 else mem), True, None
        return make(cls, kwargs_of(cfg), cfg), True, None
    except Exception as e:      # noqa -- any refusal; the class is reported
        return None, False, type(e).__name__


def describe(cfg):
    cls = cfg['cls']
    if cls in ('DiscreteSet', 'SpecificFunctions'):
        return '%s(%s)' % (cls, ', '.join(cfg['members']))
    kw = kwargs_of(cfg)
    if cls == 'IdentityMatrixMultiples':
        kw['sampler'] = describe(cfg['sampler'])
    if cls == 'ComplexSector':
        kw['argument'] = '[%d*pi/12, %d*pi/12]' % tuple(cfg['argument'])
    return '%s(%s)' % (cls, ', '.join('%s=%s' % (k, kw[k]) for k in sorted(kw)))


# ---------------------------------------------------------------- drawn value -> observation (the abstraction function)
def clamp(x):
    return max(-CLAMP, min(CLAMP, x))


def bracket(x, eps=0.0):
    """integer micro-unit bracket <<lo, hi>> containing x (exactly when eps = 0)"""
    if x != x or x in (float('inf'), float('-inf')):
        return [CLAMP, CLAMP]
    if eps:
        return [clamp(math.floor((x - eps) * MICRO)), clamp(math.ceil((x + eps) * MICRO))]
    f = Fraction(float(x)) * MICRO
    return [clamp(math.floor(f)), clamp(math.ceil(f))]


def scalar_coords(z):
    """<<re, im, modulus, argument>>: re/im exact, modulus and argument (unit pi/12) to 1e-9"""
    z = complex(z)
    r = abs(z)
    arg = math.atan2(z.imag, z.real) / PI12
    return [bracket(z.real), bracket(z.imag), bracket(r, TOL * max(1.0, r)), bracket(arg, 24 * TOL)]


def observe_scalar(v):
    import numpy as np
    feats = set()
    if isinstance(v, numbers.Number) and not isinstance(v, np.ndarray):
        feats.add('number')
    try:
        z = complex(v)
    except Exception:       # noqa
        return {'features': sorted(feats), 'coords': [[CLAMP, CLAMP]] * 4, 'shape': [], 'vid': 'none'}
    if z.imag == 0:
        feats.add('real')
        if z.real == z.real and abs(z.real) != float('inf') and float(z.real).is_integer():
            feats.add('int')
    return {'features': sorted(feats), 'coords': scalar_coords(z), 'shape': [], 'vid': 'none',
            'detail': {'value': repr(v)}}


def matrix_features(a, nrm):
    """features of a 2-axis numpy array, tolerance 1e-9 relative to its norm"""
    import numpy as np
    feats = set()
    tol = TOL * nrm
    r, c = a.shape
    if np.all(np.abs(np.tril(a, -1)) <= tol):
        feats.add('upper')
    if np.all(np.abs(np.triu(a, 1)) <= tol):
        feats.add('lower')
    detail = {}
    if r == c:
        n = r
        if 'upper' in feats and 'lower' in feats:
            feats.add('diagonal')
            if np.all(np.abs(np.diag(a) - a[0, 0]) <= tol):
                feats.add('identmult')
        at = a.T
        if np.all(np.abs(a - at) <= tol):
            feats.add('symmetric')
        if np.all(np.abs(a + at) <= tol):
            feats.add('antisymmetric')
        ah = np.conj(at)
        if np.all(np.abs(a - ah) <= tol):
            feats.add('hermitian')
        if np.all(np.abs(a + ah) <= tol):
            feats.add('antihermitian')
        tr = np.trace(a)
        if abs(tr) <= tol:
            feats.add('traceless')
        det = np.linalg.det(a)
        if abs(det) <= TOL * nrm ** n:
            feats.add('det0')
        err = abs(det - 1)
        if err <= TOL:
            feats.add('det1')
        elif err < 0.5:
            # the rescaled determinant cannot be more accurate than eps * condition number
            cond = np.linalg.cond(a)
            if err <= 1e-14 * cond:
                feats.add('det1')
        detail = {'det': repr(complex(det)), 'trace': repr(complex(tr))}
    return feats, detail


def observe_array(m, scalar_of_identity=False):
    import numpy as np
    from mitxgraders.helpers.calc import MathArray
    feats = set()
    if isinstance(m, MathArray):
        feats.add('matharray')
    a = np.asarray(m)
    if a.dtype == object or a.ndim == 0:
        return {'features': sorted(feats), 'coords': [[CLAMP, CLAMP]], 'shape': [int(x) for x in a.shape], 'vid': 'none'}
    nrm = float(np.linalg.norm(a.ravel()))
    if not np.iscomplexobj(a) or not np.any(a.imag != 0):
        feats.add('real')
    elif np.any(np.abs(a.imag) > TOL * nrm):
        feats.add('complex')
    detail = {'norm': nrm}
    if a.ndim == 2:
        f2, d2 = matrix_features(a, nrm)
        feats |= f2
        detail.update(d2)
    if scalar_of_identity:
        z = complex(a[0, 0])
        if z.imag == 0 and float(z.real).is_integer():
            feats.add('int')
        coords = scalar_coords(z)
    else:
        coords = [bracket(nrm, TOL * max(1.0, nrm))]
    return {'features': sorted(feats), 'coords': coords, 'shape': [int(x) for x in a.shape], 'vid': 'none',
            'detail': detail}


def observe_function(f, cfg, sampler, points, rng):
    """one drawn random function evaluated at `points` argument tuples"""
    import numpy as np
    from mitxgraders.helpers.calc import MathArray
    feats = set()
    k, od = cfg['inputDim'], cfg['outputDim']
    center = cfg['center'] / 2.0
    if callable(f):
        feats.add('callable')
    arity = getattr(f, 'nin', None) == k
    outdim = True
    dev = 0.0
    worst = None
    first = []
    try:
        for p in points:
            y = f(*p)
            if len(first) < 8:
                first.append((p, y))
            if od == 1:
                if isinstance(y, np.ndarray) or not isinstance(y, numbers.Number):
                    outdim = False
            elif not (isinstance(y, MathArray) and y.shape == (od,)):
                outdim = False
            d = float(np.max(np.abs(np.asarray(y) - center)))
            if not d <= dev:
                dev, worst = d, p
    except Exception as e:      # noqa
        arity = False
        dev = float('inf')
        worst = 'raised %s' % type(e).__name__
    for wrong in (k - 1, k + 1):
        try:
            f(*([0.5] * wrong))
            arity = False           # a wrong number of arguments was swallowed
        except Exception:           # noqa
            pass
    # "a fixed function once drawn": other draws and reseeding in between must not change it
    fixed = True
    try:
        other = sampler.gen_sample()
        other(*points[0])
        np.random.seed(rng.randrange(2 ** 31))
        for p, y in first:
            y2 = f(*p)
            if not np.array_equal(np.asarray(y), np.asarray(y2)):
                fixed = False
    except Exception:           # noqa
        fixed = False
    if arity:
        feats.add('arity')
    if outdim and first:
        feats.add('outdim')
    if fixed and first:
        feats.add('fixed')
    amp = cfg['amplitude'] / 2.0
    return {'features': sorted(feats), 'coords': [bracket(dev, TOL * max(1.0, amp))], 'shape': [], 'vid': 'none',
            'detail': {'max_abs_f_minus_center': dev, 'at': repr(worst), 'amplitude': amp, 'center': center}}


def observe_draw(cfg, sampler, values, funcs, npoints, rng):
    cls = cfg['cls']
    try:
        v = sampler.gen_sample()
    except Exception as e:      # noqa
        return {'features': ['raised-' + type(e).__name__], 'coords': [[CLAMP, CLAMP]] * 4, 'shape': [], 'vid': 'none',
                'detail': {'raised': repr(e)[:200]}}
    if cls in SCALARS:
        return observe_scalar(v)
    if cls == 'DiscreteSet':
        return {'features': [], 'coords': [], 'shape': [], 'vid': value_id(v, values)}
    if cls == 'SpecificFunctions':
        vid = 'unknown'
        for k, w in funcs.items():
            if v is w:
                vid = k
        return {'features': ['callable'] if callable(v) else [], 'coords': [], 'shape': [], 'vid': vid}
    if cls == 'RandomFunction':
        k = cfg['inputDim']
        pts = []
        for i in range(npoints):
            scale = 10.0 if i % 10 else (1000.0 if i % 20 else 0.0)
            pts.append(tuple(rng.uniform(-scale, scale) for _ in range(k)))
        return observe_function(v, cfg, sampler, pts, rng)
    return observe_array(v, scalar_of_identity=(cls == 'IdentityMatrixMultiples'))


# ---------------------------------------------------------------- Python mirror of SamplerContracts!Derived
def in_iv(b, iv):
    return b[1] >= iv['lo'] and b[0] <= iv['hi']


def derive(cfg, k, o):
    """derived features of observation o under contract k (k = out of the TLC state)"""
    d = set()
    feats = set(o['features'])
    sc = k['scalar']
    b = k['bounds']
    c = o['coords']
    if sc != 'none' and len(c) == 4:
        if sc == 'RealInterval':
            ok = 'real' in feats and in_iv(c[0], b[0])
        elif sc == 'IntegerRange':
            ok = 'real' in feats and 'int' in feats and in_iv(c[0], b[0])
        elif sc == 'ComplexRectangle':
            ok = in_iv(c[0], b[0]) and in_iv(c[1], b[1])
        else:
            turn = 24 * MICRO
            ok = in_iv(c[2], b[0]) and (c[2][0] <= 0 or any(
                in_iv([c[3][0] + w * turn, c[3][1] + w * turn], b[1]) for w in range(-4, 5)))
        if ok:
            d.add('inset')
    nv = k['norm']
    if nv['lo'] <= nv['hi'] and len(c) >= 1 and in_iv(c[0], nv):
        d.add('normrange')
    if cfg['cls'] in PLAIN_ARRAYS + ('SquareMatrices', 'IdentityMatrixMultiples') and list(o['shape']) == list(k['shape']):
        d.add('shape')
    if o['vid'] in k['members']:
        d.add('member')
    if cfg['cls'] == 'RandomFunction' and len(c) >= 1 and c[0][0] <= k['ampl']:
        d.add('bounded')
    return d


def finding_class(cfg, missing, o, impl_bound=None):
    cls = cfg['cls']
    missing = sorted(missing)
    if cls == 'RandomFunction' and missing == ['bounded'] and cfg['inputDim'] >= 2:
        if impl_bound is None:
            impl_bound = cfg['amplitude'] * cfg['inputDim'] * (MICRO // 2)
        if o['coords'][0][0] <= impl_bound:
            return KNOWN_CLASS
    return '%s-lacks-%s' % (cls.lower(), '+'.join(missing))


def record(rid, ev, cfg, **kw):
    r = {'id': rid, 'ev': ev, 'cfg': cfg, 'accepted': True, 'features': [], 'coords': [], 'shape': [], 'vid': 'none',
         'seen': [], 'n': 0, 'stage': 'none', 'retries': 0}
    r.update(kw)
    return r


def obs_fields(o):
    return {'features': o['features'], 'coords': o['coords'], 'shape': o['shape'], 'vid': o['vid']}


def cfg_seed(seed, cfg):
    return (zlib.crc32(json.dumps(cfg, sort_keys=True).encode()) ^ (seed * 2654435761)) % (2 ** 32)


def draws_for(cfg, extra):
    cls = cfg['cls']
    if cls in SCALARS or cls in ('DiscreteSet', 'SpecificFunctions'):
        return extra['n_scalar']
    if cls == 'RandomFunction':
        return extra['n_func']
    return extra['n_array']


def step_records(cfg, sampler, n, base_id):
    """drift monitor: features of the intermediate matrix after apply_symmetry (last attempt) and of the result"""
    import numpy as np
    recs = []
    calls = []
    orig = sampler.apply_symmetry

    def wrapper(array):
        out = orig(array)
        calls.append(np.array(out))
        return out
    try:
        sampler.apply_symmetry = wrapper
        for i in range(n):
            del calls[:]
            final = sampler.generate_sample()
            if not calls:
                return []
            mid = observe_array(calls[-1])
            fin = observe_array(final)
            recs.append(record('%s.s%d' % (base_id, i), 'step', cfg, stage='symmetry', features=mid['features'],
                               retries=len(calls) - 1))
            recs.append(record('%s.f%d' % (base_id, i), 'step', cfg, stage='final', features=fin['features'],
                               retries=len(calls) - 1))
    except Exception:       # noqa -- not observable: the monitor never fails a check
        return []
    finally:
        try:
            del sampler.apply_symmetry
        except Exception:   # noqa
            pass
    return recs


def examine(cfg, contract, extra, rid):
    """build + draw one configuration.  contract = TLC's out (replay direction) or None (trace direction: every
    observation is returned as a record and judged by the trace spec)."""
    import numpy as np
    from mitxgraders.sampling import set_seed
    values, funcs = extra['_tables']
    res = {'n': 0, 'fails': [], 'records': [], 'drift': [], 'key': None, 'sample': None}
    seed = cfg_seed(extra['seed'], cfg)
    set_seed(seed)
    rng = random.Random(seed)
    sampler, accepted, exc = build(cfg, values, funcs)
    crec = record('%s.c' % rid, 'construct', cfg, accepted=accepted)
    if contract is not None:
        crec['_expect'] = [] if accepted == contract['accepts'] else ['must-accept' if contract['accepts'] else 'must-refuse']
    res['records'].append(crec)
    res['key'] = (cfg['cls'], accepted)
    if accepted and exc is None and contract is not None and not contract['accepts']:
        res['fails'].append({'cfg': cfg, 'missing': ['must-refuse'], 'obs': None, 'n': 1})
        return res
    if not accepted:
        if exc not in ('ConfigError', 'Error', 'Invalid', 'MultipleInvalid'):
            res['drift'].append('%s refused with %s instead of ConfigError' % (describe_safe(cfg), exc))
        if contract is not None and contract['accepts']:
            res['fails'].append({'cfg': cfg, 'missing': ['must-accept'], 'obs': None, 'n': 1, 'exc': exc})
        return res
    n = draws_for(cfg, extra) if contract is not None else extra['n_trace']
    if cfg['cls'] == 'IntegerRange':
        n = max(n, 400)
    seen = set()
    failed = {}
    for i in range(n):
        o = observe_draw(cfg, sampler, values, funcs, extra['n_points'], rng)
        res['n'] += 1
        if cfg['cls'] == 'IntegerRange' and 'int' in o['features'] and abs(o['coords'][0][0]) < CLAMP:
            seen.add(o['coords'][0][0] // MICRO)
        if contract is None:
            if cfg['cls'] not in ('IntegerRange',) or i < extra['n_trace']:
                r = record('%s.d%d' % (rid, i), 'draw', cfg, **obs_fields(o))
                r['_detail'] = o.get('detail')
                res['records'].append(r)
        else:
            missing = set(contract['implied']) - (set(o['features']) | derive(cfg, contract, o))
            if i < extra['n_cross']:
                r = record('%s.d%d' % (rid, i), 'draw', cfg, **obs_fields(o))
                r['_expect'] = sorted(missing)
                res['records'].append(r)
            if missing:
                key = tuple(sorted(missing))
                if key not in failed:
                    failed[key] = {'cfg': cfg, 'missing': sorted(missing), 'obs': o, 'n': 0,
                                   'impl_bound': contract['implBound']}
                failed[key]['n'] += 1
            elif res['sample'] is None:
                res['sample'] = {'cfg': describe_safe(cfg), 'required': sorted(contract['required']),
                                 'implied': sorted(contract['implied']),
                                 'observed_features': sorted(set(o['features']) | derive(cfg, contract, o)),
                                 'coords_micro_units': o['coords']}
    res['fails'].extend(failed.values())
    if cfg['cls'] == 'IntegerRange':
        lo, hi = sorted((cfg['start'], cfg['stop']))
        srec = record('%s.sum' % rid, 'summary', cfg, seen=sorted(seen), n=n)
        if contract is None:
            res['records'].append(srec)
        else:
            ok = all(lo <= v <= hi for v in seen) and (not (n >= 400 and hi - lo + 1 <= 6) or {lo, hi} <= seen)
            srec['_expect'] = [] if ok else ['endpoints']
            res['records'].append(srec)
            if not ok:
                res['fails'].append({'cfg': cfg, 'missing': ['endpoints'], 'obs': {'features': [], 'coords': [], 'shape': [],
                                     'vid': 'none', 'detail': {'seen': sorted(seen), 'draws': n}}, 'n': 1})
    if cfg['cls'] == 'SquareMatrices' and extra['n_steps']:
        res['records'].extend(step_records(cfg, sampler, extra['n_steps'], rid))
    return res


def describe_safe(cfg):
    try:
        return describe(cfg)
    except Exception:       # noqa
        return json.dumps(cfg, sort_keys=True)


def examine_chunk(items, extra):
    """worker: items = [(rid, cfg, contract-or-None)]"""
    from engine import repo
    repo.activate()
    extra = dict(extra)
    extra['_tables'] = tables()
    out = []
    for rid, cfg, contract in items:
        out.append(examine(cfg, contract, extra, rid))
    return out


# ---------------------------------------------------------------- random configurations outside the enumerated grid
def rand_pair(rng, lo, hi):
    r = rng.random()
    a, b = rng.randint(lo, hi), rng.randint(lo, hi)
    if r < 0.15:
        b = a
    return [a, b]


def rand_scalar(rng):
    k = rng.choice(SCALARS)
    if k == 'RealInterval':
        p = rand_pair(rng, -2000, 2000)
        return {'cls': k, 'start': p[0], 'stop': p[1]}
    if k == 'IntegerRange':
        a = rng.randint(-2000, 2000)
        w = rng.choice([0, 1, 2, 5, 5, 9, 100, 1500])
        b = max(-2000, min(2000, a + rng.choice([-1, 1]) * w))
        return {'cls': k, 'start': a, 'stop': b}
    if k == 'ComplexRectangle':
        return {'cls': k, 're': rand_pair(rng, -1500, 1500), 'im': rand_pair(rng, -1500, 1500)}
    return {'cls': k, 'modulus': rand_pair(rng, 0, 1500), 'argument': rand_pair(rng, -60, 60)}


def rand_norm(rng):
    p = rand_pair(rng, 0, 60)
    if p[0] == 0 and p[1] == 0:
        p[1] = 3
    return p


def rand_cfg(rng):
    r = rng.random()
    if r < 0.16:
        return rand_scalar(rng)
    if r < 0.22:
        ids = ['one', 'three', 'mhalf5', 'cplx', 'eye2', 'mat2', 'vec3', 'zero', 'neg7', 'big', 'vec2', 'mat3', 'imag', 'tens']
        return {'cls': 'DiscreteSet', 'members': [rng.choice(ids) for _ in range(rng.randint(1, 8))]}
    if r < 0.27:
        ids = ['sin', 'cos', 'tan', 'square', 'step', 'cube', 'exp', 'abs']
        return {'cls': 'SpecificFunctions', 'members': [rng.choice(ids) for _ in range(rng.randint(1, 6))]}
    if r < 0.34:
        return {'cls': rng.choice(['RealVectors', 'ComplexVectors']), 'shape': [rng.randint(1, 12)], 'norm': rand_norm(rng),
                'triangular': 'none'}
    if r < 0.44:
        return {'cls': rng.choice(['RealMatrices', 'ComplexMatrices']), 'shape': [rng.randint(1, 8), rng.randint(1, 8)],
                'norm': rand_norm(rng), 'triangular': rng.choice(['none', 'upper', 'lower'])}
    if r < 0.50:
        return {'cls': rng.choice(['RealTensors', 'ComplexTensors']),
                'shape': [rng.randint(1, 4) for _ in range(rng.randint(3, 5))], 'norm': rand_norm(rng), 'triangular': 'none'}
    if r < 0.78:
        return {'cls': 'SquareMatrices', 'dimension': rng.randint(2, 9),
                'symmetry': rng.choice(['none', 'diagonal', 'symmetric', 'antisymmetric', 'hermitian', 'antihermitian']),
                'traceless': rng.random() < .5, 'determinant': rng.choice(['none', 'zero', 'one']),
                'complex': rng.random() < .5, 'norm': rand_norm(rng)}
    if r < 0.86:
        return {'cls': 'IdentityMatrixMultiples', 'dimension': rng.randint(2, 9), 'sampler': rand_scalar(rng)}
    return {'cls': 'RandomFunction', 'inputDim': rng.choice([1, 1, 1, 2, 3, 4, 5, 6]), 'outputDim': rng.randint(1, 4),
            'numTerms': rng.randint(1, 10), 'center': rng.randint(-40, 40), 'amplitude': rng.randint(1, 40),
            'complex': rng.random() < .5}


# ---------------------------------------------------------------- reporting
class Collector(object):
    """one violation per (class of sampler, missing features, finding class): the smallest failing configuration
    is the concrete case, the rest is counted"""

    def __init__(self):
        self.groups = {}

    def add(self, cfg, missing, obs, n, source, impl_bound=None, exc=None):
        if obs and obs.get('coords') and not sorted(missing)[0].startswith('must-'):
            fc = finding_class(cfg, missing, obs, impl_bound)
        else:
            fc = '%s-%s' % (cfg['cls'].lower(), '+'.join(sorted(missing)))
        key = (cfg['cls'], tuple(sorted(missing)), fc)
        size = len(json.dumps(cfg, sort_keys=True))
        g = self.groups.setdefault(key, {'configs': 0, 'draws': 0, 'best': None, 'size': None, 'sources': set()})
        g['configs'] += 1
        g['draws'] += n
        g['sources'].add(source)
        rank = (size + 2 * json.dumps(cfg).count('true'), json.dumps(cfg, sort_keys=True))
        if g['best'] is None or rank < g['size']:
            g['best'] = (cfg, obs, exc)
            g['size'] = rank

    def report(self, ctx):
        for (cls, missing, fc), g in sorted(self.groups.items()):
            cfg, obs, exc = g['best']
            sig = {'class': fc, 'cls': cls, 'cfg': cfg, 'missing': list(missing), 'python': describe_safe(cfg)}
            detail = {'failing_configurations': g['configs'], 'failing_draws': g['draws'], 'sources': sorted(g['sources']),
                      'observation': obs, 'exception': exc}
            if missing == ('must-accept',):
                what = 'constructor refused (%s) %s, which the specification says exists and is supported' % (exc, sig['python'])
            elif missing == ('must-refuse',):
                what = 'constructor accepted %s, which the specification says does not exist / is not supported' % sig['python']
            elif missing == ('endpoints',):
                what = '%s: an endpoint was never drawn or a value fell outside: %s' % (sig['python'], (obs or {}).get('detail'))
            else:
                what = 'a draw of %s lacks %s (%d configurations, %d draws; measured %s) [%s]' % (
                    sig['python'], '+'.join(missing), g['configs'], g['draws'],
                    json.dumps((obs or {}).get('detail'), default=str)[:300], fc)
            ctx.violation(sig, what, detail)


def load_cases(path):
    cases = []
    for st in dump.iter_states(path):
        c = st['c']
        if c['kind'] != 'cfg':
            continue
        cases.append((c['cfg'], st['out']))
    cases.sort(key=lambda x: json.dumps(x[0], sort_keys=True))
    return cases


def interleave(items, rng):
    items = list(items)
    rng.shuffle(items)       # heavy configurations (big matrices, random functions) spread over the chunks
    return items


def run(ctx):
    from engine.main import Machinery
    quick = ctx.quick
    extra = {'seed': ctx.seed, 'n_scalar': 400 if quick else 4000, 'n_array': 100 if quick else 800,
             'n_func': 5 if quick else 15, 'n_points': 40 if quick else 400, 'n_cross': 2, 'n_steps': 2 if quick else 6,
             'n_trace': 5 if quick else 8}
    coll = Collector()

    # ---- spec level: the draw pipeline of SquareMatrices against the contracts (safety + liveness)
    ctx.tlc('sampling/MC_SquarePipeline.tla', 'sampling/MC_SquarePipeline.cfg', timeout=1800)

    # ---- spec -> code
    d = os.path.join(ctx.scratch, 'cases')
    ctx.tlc('sampling/MC_SamplerContracts.tla', 'sampling/MC_SamplerContracts_%s.cfg' % ctx.tier, dump=d, timeout=3000)
    cases = load_cases(d + '.dump')
    os.remove(d + '.dump')
    n_square = sum(1 for c, k in cases if c['cls'] == 'SquareMatrices' and c['dimension'] <= 5
                   and c['norm'] == [2, 10] and k['accepts'])
    if n_square != 214:
        raise Machinery('expected 214 accepted SquareMatrices combinations in the dump, found %d' % n_square)
    items = interleave([('g%d' % i, c, k) for i, (c, k) in enumerate(cases)], random.Random(ctx.seed))
    results = [r for chunk in dump.pmap('engine.adapters.c12', 'examine_chunk', items, extra) for r in chunk]
    cross, steps = [], []
    classes = {}
    for (rid, cfg, k), r in zip(items, results):
        ctx.traces_validated += 1
        ctx.count(r['n'] + 1, key=('replay', cfg['cls'], r['key'][1], tuple(sorted(k['implied']))))
        classes[cfg['cls']] = classes.get(cfg['cls'], 0) + r['n']
        if r['sample']:
            ctx.sample(r['sample'], limit=4)
        for dr in r['drift']:
            ctx.note_drift(dr)
        for f in r['fails']:
            if cfg['cls'] in PLAIN_ARRAYS and f['missing'][0] in ('must-accept', 'must-refuse'):
                ctx.note_drift('%s: constructor %s, shape rule of the model says otherwise' % (describe_safe(cfg), f['missing'][0]))
                continue
            coll.add(f['cfg'], f['missing'], f['obs'], f['n'], 'replay', f.get('impl_bound'), f.get('exc'))
        for rec in r['records']:
            (steps if rec['ev'] == 'step' else cross).append(rec)

    # cross-check: the same observations judged by the TLA+ definitions must get the verdict the Python mirror gave
    cross = [x for x in cross if x['ev'] != 'construct' or x['cfg']['cls'] == 'SquareMatrices']
    expect = {x['id']: x.pop('_expect', None) for x in cross}
    rej = traces.validate(ctx, 'sampling/SamplerContractsTrace.tla', 'sampling/SamplerContractsTrace.cfg', cross, name='cross')
    for x in cross:
        e = expect[x['id']]
        if e is None:
            continue
        got = sorted(rej.get(x['id'], []))
        if got != e:
            raise Machinery('Python mirror and SamplerContracts disagree on record %s: mirror %s, TLA+ %s\n%s'
                            % (x['id'], e, got, json.dumps(x)[:600]))

    # ---- drift monitor: intermediate matrices against SquarePipeline
    if steps:
        rej = traces.validate(ctx, 'sampling/SamplerContractsTrace.tla', 'sampling/SamplerContractsTrace.cfg', steps, name='steps')
        seen = set()
        for x in steps:
            if x['id'] in rej:
                msg = 'SquareMatrices stage %s of %s: model expects %s (redraws %d)' % (
                    x['stage'], describe_safe(x['cfg']), sorted(rej[x['id']]), x['retries'])
                if (x['stage'], json.dumps(x['cfg'], sort_keys=True)) not in seen:
                    seen.add((x['stage'], json.dumps(x['cfg'], sort_keys=True)))
                    ctx.note_drift(msg)
    else:
        ctx.note_drift('SquareMatrices.apply_symmetry not observable: pipeline model not compared with the code')

    # ---- code -> spec: random configurations outside the grid
    n_cfg = 500 if quick else 7000
    rcfgs = [rand_cfg(ctx.rng) for _ in range(n_cfg)]
    items = [('t%d' % i, c, None) for i, c in enumerate(rcfgs)]
    results = [r for chunk in dump.pmap('engine.adapters.c12', 'examine_chunk', items, extra) for r in chunk]
    recs = [rec for r in results for rec in r['records'] if rec['ev'] != 'step']
    details = {rec['id']: rec.pop('_detail', None) for rec in recs}
    rej = traces.validate(ctx, 'sampling/SamplerContractsTrace.tla', 'sampling/SamplerContractsTrace.cfg', recs, name='trace',
                          timeout=3000)
    byid = {rec['id']: rec for rec in recs}
    for r in results:
        ctx.evaluations += r['n'] + 1
    for rec in recs:
        ctx.nontrivial.add(('trace', rec['cfg']['cls'], rec['ev'], rec['accepted']))
    for rec in recs[:2]:
        ctx.sample({'trace_record': rec}, limit=6)
    for rid, clause in rej.items():
        rec = byid[rid]
        cfg = rec['cfg']
        missing = sorted(clause)
        if cfg['cls'] in PLAIN_ARRAYS and missing[0] in ('must-accept', 'must-refuse'):
            ctx.note_drift('%s: constructor %s, shape rule of the model says otherwise' % (describe_safe(cfg), missing[0]))
            continue
        obs = None
        if rec['ev'] == 'draw':
            obs = dict(obs_fields(rec), detail=details.get(rid))
        elif rec['ev'] == 'summary':
            obs = {'features': [], 'coords': [], 'shape': [], 'vid': 'none', 'detail': {'seen': rec['seen'], 'draws': rec['n']}}
        coll.add(cfg, missing, obs, 1, 'trace')
    coll.report(ctx)

    ctx.extra['draws_per_class'] = classes
    ctx.extra['bounds'] = {
        'tier': ctx.tier, 'enumerated_configurations': len(cases), 'square_combinations_accepted_dim2to5': n_square,
        'draws_per_configuration': {'scalar_and_listed': extra['n_scalar'], 'array': extra['n_array'],
                                    'random_functions': extra['n_func'], 'points_per_function': extra['n_points']},
        'random_configurations': n_cfg, 'random_max_dimension': 9, 'random_trace_records': len(recs),
        'cross_checked_records': len(cross), 'pipeline_step_records': len(steps)}
    ctx.assumptions += [
        'numeric -> boolean abstraction with tolerance 1e-9 relative to the matrix norm (|det| <= 1e-9 norm^n, '
        '|det-1| <= 1e-9 or <= 1e-14 * condition number); interval end points of the generated cases are dyadic, so '
        'real intervals and rectangles are compared exactly',
        'negative norm ranges, negative moduli and the norm range [0,0] are left out (the statement does not say what '
        'the declared set is)',
        'OrthogonalMatrices / UnitaryMatrices need scipy, which is absent: not covered',
        'integer end points are required to be drawn only for ranges of at most 6 values with >= 400 draws',
        'numpy.random / random are trusted to be continuous (a complex sampler yields a non-zero imaginary part)']


def replay(ctx, rec):
    """re-run the configuration of a recorded violation through the trace specification"""
    from engine import repo
    repo.activate()
    sig = rec['signature']
    cfg = sig['cfg']
    extra = {'seed': rec.get('seed', 0), 'n_scalar': 400, 'n_array': 200, 'n_func': 20, 'n_points': 200, 'n_cross': 0,
             'n_steps': 0, 'n_trace': 200, '_tables': tables()}
    r = examine(cfg, None, extra, 'r')
    recs = [x for x in r['records'] if x['ev'] != 'step']
    for x in recs:
        x.pop('_detail', None)
    rej = traces.validate(ctx, 'sampling/SamplerContractsTrace.tla', 'sampling/SamplerContractsTrace.cfg', recs, name='replay')
    print('configuration:', sig.get('python'))
    print('records: %d, rejected: %d %s' % (len(recs), len(rej), sorted(set(tuple(sorted(v)) for v in rej.values()))))
    return not rej
