"""C15 -- built-in functions and constants agree with their mathematical definitions.

spec -> code: TLC enumerates the five parts of MC_BuiltinFuncs (signatures, unary domains / exact values, several
              arguments, matrix functions, identities instantiated over grids).  Every state carries the term spelling
              (rendered by the spec, checked there against ExprGrammar) and the outcome BuiltinFuncs allows; the term
              is evaluated by the real `evaluator` with the real function table of FormulaGrader / MatrixGrader.
code -> spec: a seeded random driver produces larger cases (fractions with bigger numerators / denominators, vectors
              and matrices up to 4 x 4, other spellings of the same numbers, identities at random points); the
              observations are reduced to discrete facts and validated by BuiltinFuncsTrace (TLC evaluates
              BuiltinFuncs!Outcome / Instance on every record).
Transcendental values themselves are never predicted: both sides of an identity are computed by the implementation.
"""
import math
import os
import warnings
from fractions import Fraction

from engine import dump, traces

SPEC = 'arrays/MC_BuiltinFuncs.tla'
PARTS = ['sig', 'unary', 'multi', 'matrix', 'ident']
TOL = 1e-9
MAXDEN = 10 ** 6
_TABLES = {}


# ---------------------------------------------------------------------------------------------- running the code
SCOPES = ('formula', 'matrix', 'override')
PERMS = [('formula', 'matrix', 'override'), ('matrix', 'override', 'formula'), ('override', 'formula', 'matrix'),
         ('override', 'matrix', 'formula'), ('matrix', 'formula', 'override'), ('formula', 'override', 'matrix')]


def tables(markers=None):
    """the three scopes the specification distinguishes: the default function tables of FormulaGrader and of
    MatrixGrader, and an author's scope in which every default name is overridden by a user function that returns its
    own marker (BuiltinFuncs!Marker), whatever it is given"""
    if not _TABLES:
        from mitxgraders import FormulaGrader, MatrixGrader
        _TABLES['formula'] = FormulaGrader.default_functions
        _TABLES['matrix'] = MatrixGrader.default_functions
    if markers is not None and 'override' not in _TABLES:
        def make(m):
            def user_function(*args):
                return m
            user_function.validated = True          # does its own validation: any arguments are fine
            return user_function
        _TABLES['override'] = {name: make(float(markers.get(name, 9))) for name in _TABLES['matrix']}
    return _TABLES


def history_for(k, orders):
    """which order of scopes case number k is evaluated in: the six permutations in turn, every fourth case one of the
    histories with repetitions enumerated by part 'order' followed by whatever scopes it leaves out"""
    if orders and k % 4 == 3:
        h = list(orders[(k // 4) % len(orders)])
        return h + [sc for sc in PERMS[k % 6] if sc not in h]
    return list(PERMS[k % 6])


def text_of(toks):
    """token spellings (from the spec) -> formula text; TAB-separated (spaces would be deleted before lexing)"""
    return '\t'.join({'LB': '[', 'RB': ']'}.get(t, t) for t in toks)


def _numeric_warning(w):
    try:
        from numpy.exceptions import ComplexWarning
    except Exception:  # noqa
        from numpy import ComplexWarning
    return any(issubclass(x.category, (RuntimeWarning, ComplexWarning)) for x in w)


def evaluate(text, tb, allow_inf=False):
    """-> raw observation {'k': 'val', 'value': v, 'warn': bool} | {'k': 'err', 'cls', 'sf', 'msg', 'warn'}"""
    from mitxgraders.helpers.calc.expressions import evaluator
    from mitxgraders.exceptions import StudentFacingError
    with warnings.catch_warnings(record=True) as w:
        warnings.simplefilter('always')
        try:
            v = evaluator(text, functions=tables()[tb], allow_inf=allow_inf)[0]
        except Exception as e:  # noqa
            return {'k': 'err', 'cls': type(e).__name__, 'sf': isinstance(e, StudentFacingError),
                    'msg': str(e)[:160], 'warn': _numeric_warning(w)}
    return {'k': 'val', 'value': v, 'warn': _numeric_warning(w)}


# ---------------------------------------------------------------------------------------------- evaluation contexts
CONTEXTS = ('eval', 'eval_inf', 'fg', 'ng', 'fg_inf', 'ng_inf', 'mg', 'mg_supp', 'mg_nomis', 'interval', 'sumlimit')
ONE_ARG_ONLY = ('interval', 'sumlimit')
_CTX = {}


def context_graders():
    """the roads a student's text travels to the function tables (BuiltinFuncs!Contexts)"""
    if not _CTX:
        from mitxgraders import FormulaGrader, NumericalGrader, MatrixGrader, IntervalGrader, SumGrader
        _CTX.update(
            fg=FormulaGrader(answers='1'), ng=NumericalGrader(answers='1'),
            fg_inf=FormulaGrader(answers='1', allow_inf=True), ng_inf=NumericalGrader(answers='1', allow_inf=True),
            mg=MatrixGrader(answers='1'), mg_supp=MatrixGrader(answers='1', suppress_matrix_messages=True),
            mg_nomis=MatrixGrader(answers='1', answer_shape_mismatch={'is_raised': False}),
            interval=IntervalGrader(answers='[1, 2]'),
            sumlimit=SumGrader(answers={'lower': '1', 'upper': '4', 'summand': 'n', 'summation_variable': 'n'},
                               input_positions={'lower': 1, 'upper': 2}))
    return _CTX


def observe_ctx(x, text, k=0):
    """-> ('err' | 'val' | 'inf' | 'graded' | 'bad', what was seen)"""
    from mitxgraders.exceptions import StudentFacingError
    if x in ('eval', 'eval_inf'):
        raw = evaluate(text, 'formula', allow_inf=(x == 'eval_inf'))
        kind, z = side(raw)
        if kind == 'bad' and raw['k'] == 'val' and not raw['warn']:
            try:
                v = complex(raw['value'])
                if not (math.isnan(v.real) or math.isnan(v.imag)):
                    kind = 'inf'
            except Exception:  # noqa
                pass
        return kind, show(raw)
    g = context_graders()[x]
    if x == 'interval':
        inp = '[%s, 50]' % text if k % 2 else '[-50, %s]' % text
    elif x == 'sumlimit':
        inp = [text, '4'] if k % 2 else ['1', text]
    else:
        inp = text
    with warnings.catch_warnings(record=True) as w:
        warnings.simplefilter('always')
        try:
            r = g(None, inp)
        except StudentFacingError as e:
            return ('bad' if _numeric_warning(w) else 'err'), '%s(%s)' % (type(e).__name__, str(e)[:70])
        except Exception as e:  # noqa
            return 'bad', '%s(%s)' % (type(e).__name__, str(e)[:70])
    if _numeric_warning(w) or not (isinstance(r, dict) and 'ok' in r):
        return 'bad', repr(r)[:100]
    return 'graded', repr(r)[:100]


def accepts_ctx(v, obs):
    return obs == 'err' if v == 'err' else (obs in ('val', 'graded') if v == 'val' else obs != 'bad')


def replay_ctx(states, extra):
    """every call of part "ctx" is sent down every road, the roads in a different order each time"""
    from engine import repo
    repo.activate()
    n, keys, bad, sample = 0, set(), [], None
    k = 0
    for st in states:
        c = st['c']
        if c['kind'] != 'ctx':
            continue
        k += 1
        text = text_of(st['out']['toks'])
        roads = list(CONTEXTS[k % len(CONTEXTS):] + CONTEXTS[:k % len(CONTEXTS)])
        for x in roads:
            if x in ONE_ARG_ONLY and not st['out']['onearg']:
                continue
            n += 1
            v = st['out']['v'][x]
            obs, seen = observe_ctx(x, text, k)
            keys.add(('ctx', x, c['f'], v, obs))
            if sample is None and v == 'err' and x == 'interval':
                sample = {'context': x, 'expr': text, 'verdict': v, 'observed': seen}
            if not accepts_ctx(v, obs):
                if len(bad) < 300:
                    bad.append({'kind': 'ctx', 'table': x, 'f': c['f'], 'expr': text, 'allowed': 'context verdict: ' + v,
                                'observed': seen, 'class': 'context:%s' % x})
                else:
                    bad.append(None)
    return {'n': n, 'keys': sorted(keys), 'bad': bad, 'sample': sample}


CTX_REAL_VALUED = ['sin', 'cos', 'exp', 'sinh', 'cosh', 'tanh', 'sech', 'arctan', 'arcsinh', 'abs', 'floor', 'ceil',
                   'cot', 'csc', 'coth', 'csch', 'arccot', 'arccsch', 'tan', 'sec']


def rand_ctx(rng):
    """a call of a scalar built-in on numbers (poles and special points over-represented) and the road it is sent down"""
    x = rng.choice(CONTEXTS)
    special = [(Fraction(0), Fraction(0)), (Fraction(1), Fraction(0)), (Fraction(-1), Fraction(0)),
               (Fraction(0), Fraction(1)), (Fraction(0), Fraction(-1)), (Fraction(1, 2), Fraction(0)), (Fraction(-2), Fraction(0)),
               (Fraction(1000), Fraction(0)), (Fraction(0), Fraction(711))]
    if x in ONE_ARG_ONLY:
        f = rng.choice(CTX_REAL_VALUED)
        args = [rng.choice(special[:3] + special[5:8]) if rng.random() < 0.6 else (rq(rng, 20), Fraction(0))]
    else:
        f = rng.choice(FORMULA_NAMES[:36] + ['sinc'])
        n = 2 if f in ('arctan2', 'kronecker', 'min', 'max') else 1
        if rng.random() < 0.1:
            n = max(1, n + rng.choice([-1, 1]))
        if n > 1:
            args = [rng.choice(special[:7]) if rng.random() < 0.5 else rgauss(rng, 20) for _ in range(n)]
        else:
            args = [rng.choice(special) if rng.random() < 0.6 else rgauss(rng, 20)]
    text = '%s(%s)' % (f, ', '.join(gauss_text(z, rng) for z in args))
    return {'ev': 'ctx', 'x': x, 'f': f, 'text': text, 'args': [{'sh': [], 'e': [gj(z)]} for z in args]}


def observe_ctx_chunk(cases, extra):
    from engine import repo
    repo.activate()
    out = []
    for k, c in enumerate(cases):
        c = dict(c)
        c['obs'], c['shown'] = observe_ctx(c['x'], c['text'], k)
        out.append(c)
    return out


def ratio(x):
    """float -> [n, d] of the fraction with denominator <= MAXDEN nearest to x, if x is within 1e-9 of it"""
    if not math.isfinite(x):
        return None
    fr = Fraction(x).limit_denominator(MAXDEN)
    if abs(x - float(fr)) <= TOL * max(1.0, abs(x)) and abs(fr.numerator) < 2 ** 31:
        return [fr.numerator, fr.denominator]
    return None


EMPTY_OBS = {'k': 'err', 'sf': False, 'warn': False, 'sh': [], 'fin': False, 'real': False, 'sgn': 0, 'q': [], 'sq': [],
             'mu': 0, 'nano': 0}


def reduce_call(raw):
    """raw observation -> the discrete facts of BuiltinFuncs!Accepts (every field always present)"""
    import numpy as np
    o = dict(EMPTY_OBS)
    o['warn'] = bool(raw['warn'])
    if raw['k'] == 'err':
        o['sf'] = bool(raw['sf'])
        o['cls'] = raw['cls']
        return o
    v = raw['value']
    try:
        arr = np.asarray(v)
        if arr.dtype.kind not in 'iufcb':
            raise TypeError(arr.dtype)
        flat = [complex(x) for x in arr.astype(complex).ravel()]
    except Exception:  # noqa
        o['k'] = 'bad'
        return o
    o['k'] = 'val'
    o['sh'] = [int(d) for d in arr.shape]
    o['fin'] = all(math.isfinite(z.real) and math.isfinite(z.imag) for z in flat)
    if not o['fin']:
        return o
    q = []
    for z in flat:
        a, b = ratio(z.real), ratio(z.imag)
        if a is None or b is None:
            q = []
            break
        q.append([a, b])
    o['q'] = q
    if arr.shape == ():
        z = flat[0]
        scale = max(1.0, abs(z))
        o['real'] = abs(z.imag) <= TOL * scale
        o['sgn'] = 1 if z.real > TOL else (-1 if z.real < -TOL else 0)
        if o['real']:
            s = ratio(z.real * z.real)
            o['sq'] = [s] if s is not None else []
            m = z.real / math.pi * 1e6
            o['mu'] = int(round(m)) if abs(m) < 2e9 else 0
            n = z.real * 1e8
            o['nano'] = int(round(n)) if abs(n) < 2e9 else 0
    return o


def side(raw):
    """one side of an identity: 'val' (finite scalar, no warning) | 'err' (student-facing, no warning) | 'bad'"""
    import numpy as np
    if raw['warn']:
        return 'bad', None
    if raw['k'] == 'err':
        return ('err' if raw['sf'] else 'bad'), None
    v = raw['value']
    try:
        if np.shape(v) != ():
            return 'bad', None
        z = complex(v)
    except Exception:  # noqa
        return 'bad', None
    if not (math.isfinite(z.real) and math.isfinite(z.imag)):
        return 'bad', None
    return 'val', z


def reduce_ident(rawl, rawr, rel):
    kl, zl = side(rawl)
    o = {'l': kl, 'r': 'val', 'close': False, 'rege0': False, 'imin': False, 'err': 0.0, 'lq': [], 'rq': []}

    def exact(z):
        a, b = ratio(z.real), ratio(z.imag)
        return [[a, b]] if a is not None and b is not None else []
    if kl == 'val':
        o['lq'] = exact(zl)
    if rel == 'eq':
        kr, zr = side(rawr)
        o['r'] = kr
        if kr == 'val':
            o['rq'] = exact(zr)
        if kl == 'val' and kr == 'val':
            o['err'] = abs(zl - zr) / max(1.0, abs(zl), abs(zr))
            o['close'] = o['err'] <= TOL
    elif kl == 'val':
        o['rege0'] = zl.real >= -TOL
        o['imin'] = -math.pi + TOL < zl.imag <= math.pi + TOL
    return o


# ---------------------------------------------------------------------------------------------- the judge (replay)
def fr(q):
    return Fraction(q[0], q[1])


def micro_in(mu, lo, hi):
    return fr(lo) * 10 ** 6 <= mu + 1 and mu - 1 <= fr(hi) * 10 ** 6


def sign_fits(want, sgn):
    return {'pos': sgn >= 0, 'neg': sgn <= 0, 'zero': sgn == 0}.get(want, True)


def allowed(e):
    if e['k'] == 'err':
        return 'err'
    return 'valOrErr' if e['k'] in ('offreal', 'underflow', 'silent', 'silentsqrt', 'numberlike') else 'val'


def value_fits(e, o, raw=None):
    k = e['k']
    if k in ('exact', 'silent'):
        return o['sh'] == list(e['v']['sh']) and o['q'] == [[list(g[0]), list(g[1])] for g in e['v']['e']]
    if k == 'numberlike':
        return True
    if k in ('sqrtof', 'silentsqrt'):
        return o['sh'] == [] and o['real'] and o['sgn'] >= 0 and o['sq'] == [list(e['q'])]
    if k == 'angle':
        return o['sh'] == [] and o['real'] and micro_in(o['mu'], e['lo'], e['hi'])
    if k == 'defined':
        if o['sh'] != []:
            return False
        if e['real']:
            return (o['real'] and sign_fits(e['sign'], o['sgn'])
                    and (not e['ranges'] or any(micro_in(o['mu'], iv[0], iv[1]) for iv in e['ranges'])))
        return True
    if k == 'offreal':
        return o['sh'] == []
    if k == 'underflow':
        return o['sh'] == [] and o['sgn'] == 0
    if k == 'between':           # constants e, pi: exact comparison of the float with the rational enclosure
        v = raw['value'] if raw else None
        return (isinstance(v, float) and fr(e['lo']) < Fraction(v) < fr(e['hi']) and o['nano'] == e['nano'])
    return False


def accepts(e, o, raw=None):
    good_err = o['k'] == 'err' and o['sf'] and not o['warn']
    good_val = o['k'] == 'val' and o['fin'] and not o['warn']
    a = allowed(e)
    if a == 'err':
        return good_err
    if a == 'val':
        return good_val and value_fits(e, o, raw)
    return good_err or (good_val and value_fits(e, o, raw))


def side_fits(s, o):
    return o == 'err' if s == 'err' else (o == 'val' if s == 'val' else o in ('val', 'err'))


def accepts_ident(inst, o):
    if not side_fits(inst['sl'], o['l']):
        return False
    if inst['rel'] == 'eq' and not side_fits(inst['sr'], o['r']):
        return False
    if inst['holds']:
        if inst['rel'] == 'eq' and o['l'] == 'val' and o['r'] == 'val' and not o['close']:
            return False
        if inst['rel'] == 'rege0' and o['l'] == 'val' and not o['rege0']:
            return False
        if inst['rel'] == 'imrange' and o['l'] == 'val' and not o['imin']:
            return False
    else:                        # an author's scope: no relation is claimed, each side has its own exact value
        for sd, x, q in (('l', inst['lx'], o['lq']), ('r', inst['rx'], o['rq'])):
            if x['ex'] and o[sd] == 'val' and q != [[list(x['v'][0]), list(x['v'][1])]]:
                return False
    return True


def show(raw):
    if raw['k'] == 'err':
        return '%s(%s)%s' % (raw['cls'], raw['msg'][:60], ' +warning' if raw['warn'] else '')
    return '%r%s' % (raw['value'], ' +warning' if raw['warn'] else '')


def describe(e):
    k = e['k']
    if k == 'err':
        return 'a student-facing error (%s)' % e['why']
    if k in ('exact', 'silent'):
        es = ['%s%s' % (fr(g[0]), ('%+si' % fr(g[1])) if g[1][0] else '') for g in e['v']['e']]
        return ('the value %s of shape %s' % (es, list(e['v']['sh']))) + (' or an error' if k == 'silent' else '')
    if k in ('sqrtof', 'silentsqrt'):
        return 'the non-negative root of %s%s' % (fr(e['q']), ' or an error' if k == 'silentsqrt' else '')
    if k == 'numberlike':
        return 'a one-entry array where a number is expected: a finite value or an error'
    if k == 'angle':
        return 'an angle in [%s, %s] pi' % (fr(e['lo']), fr(e['hi']))
    if k == 'defined':
        return 'a finite %s value (sign %s, ranges %s pi)' % ('real' if e['real'] else 'scalar', e['sign'],
                                                               [[str(fr(a)), str(fr(b))] for a, b in e['ranges']])
    if k == 'between':
        return 'a float strictly between %s and %s' % (fr(e['lo']), fr(e['hi']))
    return {'offreal': 'the complex continuation or an error', 'underflow': '0 or an error'}.get(k, k)


def call_class(c, e, o, per=None, tb=None, raw=None):
    """stable class of a violation"""
    f = c.get('f') or c.get('name')
    if per and tb:
        for other in SCOPES:
            if other != tb and per[other] != per[tb] and accepts(per[other], o, raw):
                return 'scope-leak'             # the observation is what ANOTHER scope would have to give
    if f == 'arctan2' and any(c.get('nz', [])):
        return 'arctan2-negative-zero'
    if o['k'] == 'val' and allowed(e) == 'err':
        return 'no-error:%s:%s' % (e['why'], f)
    if o['k'] == 'err' and not o['sf']:
        return 'not-student-facing:%s' % f
    if o['warn']:
        return 'warning:%s' % f
    if o['k'] == 'err':
        return 'unexpected-error:%s' % f
    if o['k'] == 'val' and not o['fin']:
        return 'nan-or-inf:%s' % f
    return 'wrong-value:%s' % f


# ---------------------------------------------------------------------------------------------- spec -> code workers
def replay_calls(states, extra):
    """every case is a text; it is evaluated under all three scopes (order: history_for) in this process and each
    evaluation is judged against the outcome the specification allows for THAT scope"""
    from engine import repo
    repo.activate()
    tables(extra['markers'])
    orders = extra.get('orders') or []
    n, keys, bad, sample = 0, set(), [], None
    drift = set()
    k = extra.get('offset', 0)
    for st in states:
        c = st['c']
        if c['kind'] in ('seed', 'seedconst', 'tmpl', 'seedorder', 'markers'):
            continue
        text = text_of(st['out']['toks'])
        f = c.get('f') or c.get('name')
        if c['kind'] == 'order':
            f = 'history'
            hist = list(c['h'])
            per_step = list(st['out']['run'])
            per = None
        else:
            k += 1
            hist = history_for(k, orders)
            per = st['out']['o']
            per_step = [per[tb] for tb in hist]
        for step, (tb, e) in enumerate(zip(hist, per_step)):
            n += 1
            raw = evaluate(text, tb)
            o = reduce_call(raw)
            keys.add((c['kind'], tb, f, e['k'], o['k']))
            if sample is None and c['kind'] not in ('const', 'order') and tb == 'formula':
                sample = {'table': tb, 'expr': text, 'allowed': describe(e), 'observed': show(raw), 'history': hist}
            if not accepts(e, o, raw):
                if len(bad) < 300:
                    cls = call_class(c, e, o, per, tb, raw) if per else 'scope-leak'
                    bad.append({'kind': c['kind'], 'table': tb, 'f': f, 'expr': text, 'history': hist[:step + 1],
                                'nz': c.get('nz', []), 'allowed': e, 'observed': show(raw), 'class': cls})
                else:
                    bad.append(None)
            elif e['k'] == 'err' and o['k'] == 'err':
                want = {'argcount': 'ArgumentError', 'argshape': 'ArgumentShapeError',
                        'undefined': 'UndefinedFunction'}.get(e['why'])
                if want and o.get('cls') != want and not (c.get('f') == 'abs' and e['why'] == 'argshape'):
                    drift.add('%s(...) with %s raised %s, the model of the implementation says %s'
                              % (c.get('f'), e['why'], o.get('cls'), want))
    return {'n': n, 'keys': sorted(keys), 'bad': bad, 'sample': sample, 'drift': sorted(drift)}


def replay_idents(states, extra):
    """identity instances, both sides under all three scopes; the four constants travel in the same dump and are judged
    like calls"""
    from engine import repo
    repo.activate()
    tables(extra['markers'])
    orders = extra.get('orders') or []
    n, keys, bad, sample = 0, set(), [], None
    worst = {}
    consts = []
    k = extra.get('offset', 0)
    for st in states:
        c = st['c']
        if c['kind'] == 'const':
            consts.append(st)
        if c['kind'] != 'ident':
            continue
        k += 1
        out = st['out']
        lt = text_of(out['ltoks'])
        rt = text_of(out['rtoks']) if out['rel'] == 'eq' else ''
        hist = history_for(k, orders)
        for step, tb in enumerate(hist):
            n += 1
            inst = dict(out['per'][tb], rel=out['rel'])
            # the two sides in either order: a remembered value of one side must not reach the other either
            if (k + step) % 2:
                rawr = evaluate(rt, tb) if out['rel'] == 'eq' else None
                rawl = evaluate(lt, tb)
            else:
                rawl = evaluate(lt, tb)
                rawr = evaluate(rt, tb) if out['rel'] == 'eq' else None
            o = reduce_ident(rawl, rawr, out['rel'])
            keys.add((c['id'], tb, inst['sl'], inst['sr'], o['l'], o['r']))
            if tb != 'override' and o['l'] == 'val' and o['r'] == 'val' and out['rel'] == 'eq':
                worst[c['id']] = max(worst.get(c['id'], 0.0), o['err'])
            if sample is None and out['rel'] == 'eq' and tb == 'formula':
                sample = {'identity': c['id'], 'table': tb, 'lhs': lt, 'rhs': rt, 'relation': out['rel'],
                          'observed': [show(rawl), show(rawr)], 'history': hist}
            if not accepts_ident(inst, o):
                if len(bad) < 300:
                    leak = any(other != tb and out['per'][other] != out['per'][tb]
                               and accepts_ident(dict(out['per'][other], rel=out['rel']), o) for other in SCOPES)
                    bad.append({'kind': 'ident', 'table': tb, 'identity': c['id'], 'lhs': lt, 'rhs': rt, 'rel': out['rel'],
                                'inst': inst, 'history': hist[:step + 1],
                                'observed': [show(rawl), show(rawr) if rawr else None],
                                'class': 'scope-leak' if leak else 'identity:%s' % c['id']})
                else:
                    bad.append(None)
    rc = replay_calls(consts, extra)
    return {'n': n + rc['n'], 'keys': sorted(keys), 'bad': bad + rc['bad'], 'sample': sample, 'worst': worst,
            'const_keys': rc['keys']}


def read_orders(states, extra):
    return [list(st['c']['h']) for st in states if st['c']['kind'] == 'order']


def read_templates(states, extra):
    return [st['out'] for st in states if st['c']['kind'] in ('tmpl', 'markers')]


# ---------------------------------------------------------------------------------------------- random driver (code -> spec)
DENS = [1, 1, 1, 2, 2, 3, 4, 5, 8, 10]


def rq(rng, big=40):
    d = rng.choice(DENS)
    f = Fraction(rng.randint(-big, big), d)
    return f


def rgauss(rng, big=40, p_real=0.4, p_imag=0.1):
    r = rng.random()
    if r < 0.06:
        return rng.choice([(Fraction(0), Fraction(0)), (Fraction(1), Fraction(0)), (Fraction(-1), Fraction(0)),
                           (Fraction(0), Fraction(1)), (Fraction(0), Fraction(-1))])
    if r < p_real:
        return (rq(rng, big), Fraction(0))
    if r < p_real + p_imag:
        return (Fraction(0), rq(rng, big))
    return (rq(rng, big), rq(rng, big))


def gj(z):
    return [[z[0].numerator, z[0].denominator], [z[1].numerator, z[1].denominator]]


def frac_text(f, rng):
    """one of several spellings of the same rational (all evaluate to the same double)"""
    n, d = f.numerator, f.denominator
    neg = n < 0
    n = abs(n)
    forms = []
    if d == 1:
        forms = [str(n), '%d.0' % n, '%d.' % n]
        if n and n % 1000 == 0:
            forms.append('%de3' % (n // 1000))
    else:
        forms = ['%d/%d' % (n, d)]
        if 10 ** 6 % d == 0:                      # finite decimal expansion
            forms.append(('%.6f' % (n / d)).rstrip('0'))
    s = rng.choice(forms)
    return ('-' + s) if neg else s


def gauss_text(z, rng):
    re, im = z
    iname = rng.choice(['i', 'j'])
    if im == 0:
        return frac_text(re, rng)
    if abs(im) == 1 and rng.random() < 0.5:
        ims = ('-' if im < 0 else '') + iname
    else:
        ims = rng.choice(['%s*%s', '%s* %s']) % (frac_text(im, rng), iname)
    if re == 0:
        return ims
    sep = rng.choice(['+', ' + ', '+ '])
    return '%s%s%s' % (frac_text(re, rng), sep, ims if not ims.startswith('-') else '(%s)' % ims)


def array_text(a, rng):
    sh, e = a['sh'], a['e']
    if sh == []:
        return gauss_text(e[0], rng)
    if len(sh) == 1:
        return '[' + rng.choice([', ', ',']).join(gauss_text(z, rng) for z in e) + ']'
    m = len(e) // sh[0]
    return '[' + ', '.join(array_text({'sh': sh[1:], 'e': e[i * m:(i + 1) * m]}, rng) for i in range(sh[0])) + ']'


def rarray(rng, shape_kind):
    """random array of the given kind with entries that keep TLC's 32-bit arithmetic safe"""
    if shape_kind == 'scalar':
        r = rng.random()
        if r < 0.08:
            m = rng.choice([1000, 10 ** 6, Fraction(1, 1000), Fraction(1, 10 ** 6), 709, 711, 5000])
            s = rng.choice([1, -1])
            return {'sh': [], 'e': [rng.choice([(Fraction(m) * s, Fraction(0)), (Fraction(0), Fraction(m) * s)])]}
        return {'sh': [], 'e': [rgauss(rng)]}
    frac = rng.random() < 0.25

    def ent():
        if frac:
            return (Fraction(rng.randint(-6, 6), rng.choice([1, 2, 3, 4])),
                    Fraction(rng.randint(-4, 4), rng.choice([1, 2])) if rng.random() < 0.3 else Fraction(0))
        return (Fraction(rng.randint(-9, 9)), Fraction(rng.randint(-9, 9)) if rng.random() < 0.3 else Fraction(0))
    if shape_kind == 'vec':
        n = rng.choice([2, 3, 3, 3, 4, 5])
        return {'sh': [n], 'e': [ent() for _ in range(n)]}
    if shape_kind == 'vec3':
        return {'sh': [3], 'e': [ent() for _ in range(3)]}
    if shape_kind == 'square':
        n = rng.choice([2, 2, 3, 3, 4])
        if n == 4:
            frac = False
        return {'sh': [n, n], 'e': [ent() for _ in range(n * n)]}
    if shape_kind == 'tensor':
        frac = False
        sh = list(rng.choice([(2, 2, 2), (2, 2, 2), (2, 2, 3), (3, 2, 2), (3, 3, 3), (3, 3, 2), (1, 1, 1), (2, 3, 2)]))
        return {'sh': sh, 'e': [ent() for _ in range(sh[0] * sh[1] * sh[2])]}
    m, n = rng.choice([(2, 3), (3, 2), (2, 4), (4, 2), (3, 4), (1, 3), (3, 1)])
    return {'sh': [m, n], 'e': [ent() for _ in range(m * n)]}


FORMULA_NAMES = ['sin', 'cos', 'tan', 'sec', 'csc', 'cot', 'sqrt', 'log10', 'log2', 'ln', 'exp', 'arccos', 'arcsin',
                 'arctan', 'arcsec', 'arccsc', 'arccot', 'abs', 'sinh', 'cosh', 'tanh', 'sech', 'csch', 'coth',
                 'arcsinh', 'arccosh', 'arctanh', 'arcsech', 'arccsch', 'arccoth', 'floor', 'ceil',
                 'arctan2', 'kronecker', 'min', 'max', 're', 'im', 'conj']
MATRIX_NAMES = ['trans', 'ctrans', 'adj', 'norm', 'det', 'trace', 'cross', 'abs']
NATURAL = {'arctan2': ['scalar', 'scalar'], 'kronecker': ['scalar', 'scalar'], 'cross': ['vec3', 'vec3'],
           'det': ['square'], 'trace': ['square'], 'trans': ['any'], 'ctrans': ['any'], 'adj': ['any'], 'norm': ['any'],
           're': ['anys'], 'im': ['anys'], 'conj': ['anys']}


def rand_call(rng, i):
    tb = 'matrix'                                 # (every text meets all three scopes; names of both tables)
    names = FORMULA_NAMES + MATRIX_NAMES * 2
    f = rng.choice(names)
    if rng.random() < 0.02:
        f = rng.choice(['sinc', 'Cos', 'arcsine', 'transpose'])
    if f in ('min', 'max'):
        kinds = ['scalar'] * rng.choice([2, 2, 3, 4, 5])
    elif f == 'abs' and tb == 'matrix':
        kinds = [rng.choice(['scalar', 'vec'])]
    else:
        kinds = list(NATURAL.get(f, ['scalar']))
    if f in ('det', 'trace', 'cross', 'abs') and rng.random() < 0.2:
        kinds[0] = 'tensor'                       # three axes: never a square matrix / 3-vector / vector
    r = rng.random()
    if r < 0.12:                                  # wrong count
        kinds = kinds[:-1] if (len(kinds) > 1 and rng.random() < 0.5) else kinds + [kinds[-1]]
        if not kinds:
            kinds = ['scalar', 'scalar']
    elif r < 0.3:                                 # some argument of another shape
        j = rng.randrange(len(kinds))
        kinds[j] = rng.choice(['scalar', 'vec', 'vec3', 'square', 'rect', 'tensor', 'tensor'])
    args = []
    for k in kinds:
        if k == 'any':
            k = rng.choice(['vec', 'square', 'rect', 'square', 'scalar', 'tensor'])
        elif k == 'anys':
            k = rng.choice(['scalar', 'scalar', 'vec', 'square'])
        a = rarray(rng, k)
        if a['sh'] == [] and len(kinds) > 1:      # several scalars are compared with each other: keep the cross
            a = {'sh': [], 'e': [rgauss(rng)]}    # products of numerators and denominators inside 32 bits
        if f in ('floor', 'ceil', 'min', 'max', 'arctan2') and a['sh'] == [] and rng.random() < 0.85:
            a['e'][0] = (a['e'][0][0], Fraction(0))
        if f == 'kronecker' and args and rng.random() < 0.4:
            a = {'sh': list(args[0]['sh']), 'e': list(args[0]['e'])}
        args.append(a)
    if f == 'kronecker' and len(args) == 2 and rng.random() < 0.35:
        # exact equality: distinct numbers that are relatively / absolutely close, and equal controls of that size
        kind = rng.randrange(4)
        if kind == 0:
            x = Fraction(rng.choice([1, -1]) * rng.randint(10 ** 5, 10 ** 9))
            y = x + rng.choice([1, -1, 2])
        elif kind == 1:
            x = Fraction(rng.randint(0, 9), 10 ** 9)
            y = Fraction(rng.randint(0, 9), 10 ** 9)
        elif kind == 2:
            m = rng.randint(1, 200)
            x = Fraction(m)
            y = Fraction(m * (10 ** 7 + rng.choice([1, -1, 3])), 10 ** 7)
        else:
            x = Fraction(rng.randint(1, 2000), rng.choice([1, 1000, 10 ** 6]))
            y = x + Fraction(1, 10 ** 6) * rng.choice([1, -1])
        if rng.random() < 0.3:
            y = x
        if rng.random() < 0.5:
            x, y = y, x
        args = [{'sh': [], 'e': [(x, Fraction(0))]}, {'sh': [], 'e': [(y, Fraction(0))]}]
    text = '%s(%s)' % (f, rng.choice([', ', ',']).join(array_text(a, rng) for a in args))
    return {'ev': 'call', 'id': i, 'tb': tb, 'f': f, 'text': text,
            'args': [{'sh': a['sh'], 'e': [gj(z) for z in a['e']]} for a in args]}


def py_guard(g, z, w):
    x, y = z
    real = y == 0
    mod = lambda q: abs(q) <= 3
    if g == 'any':
        return True
    if g == 'mod':
        return mod(z[0]) and mod(z[1]) and mod(w[0]) and mod(w[1])
    if g == 'strip':
        return mod(z[0]) and mod(z[1])
    if g == 'mod_nt':
        return mod(z[0]) and mod(z[1]) and (z == (0, 0) or abs(z[0]) >= Fraction(1, 100) or abs(z[1]) >= Fraction(1, 100))
    if g == 'int6':
        return real and x.denominator == 1 and abs(x) <= 6
    if g == 'real_mod':
        return real and mod(x)
    if g == 'real_nonneg_mod':
        return real and mod(x) and x >= 0
    if g == 'abs_le_3_2':
        return real and abs(x) <= Fraction(3, 2)
    if g == 'real_0_3':
        return real and 0 <= x <= 3
    if g == 'real_0_3_2':
        return real and 0 <= x <= Fraction(3, 2)
    if g == 'real_pos_3_2':
        return real and 0 < x <= Fraction(3, 2)
    if g == 'realpos2':
        return real and w[1] == 0 and x > 0 and w[0] > 0 and mod(x) and mod(w[0])
    if g == 'real2':
        return real and w[1] == 0 and mod(x) and mod(w[0])
    if g == 'real2_xnz':
        return real and w[1] == 0 and mod(x) and mod(w[0]) and x != 0
    raise KeyError(g)


def rand_point(rng, g):
    def small():
        return Fraction(rng.randint(-30, 30), rng.choice([1, 2, 3, 4, 5, 8, 10]))
    for _ in range(200):
        if g == 'int6':
            z, w = (Fraction(rng.randint(-6, 6)), Fraction(0)), (Fraction(0), Fraction(0))
        elif g in ('mod', 'strip', 'mod_nt'):
            z = (small(), small() if rng.random() < 0.7 else Fraction(0))
            w = (small(), small() if rng.random() < 0.7 else Fraction(0))
        elif g == 'any':
            z, w = rarray(rng, 'scalar')['e'][0], (Fraction(0), Fraction(0))
            if rng.random() < 0.3:              # near the branch cuts and poles
                eps = Fraction(rng.choice([1, -1]), rng.choice([100, 1000, 10000]))
                base = Fraction(rng.choice([-3, -2, -1, 1, 2, 3]), rng.choice([1, 2]))
                z = rng.choice([(base, eps), (eps, base), (base + eps, Fraction(0)), (Fraction(0), base + eps)])
        else:
            z, w = (small(), Fraction(0)), (small(), Fraction(0))
        if py_guard(g, z, w):
            return z, w
    return None


def join_tokens(parts, rng):
    """tokens -> text; a separator is only needed where two word-like tokens meet (never the case in rendered terms,
    but kept safe): TAB there, nothing / space elsewhere"""
    sep = rng.choice(['', ' ', '\t'])
    out = []
    for j, p in enumerate(parts):
        if j and (parts[j - 1][-1].isalnum() or parts[j - 1][-1] == '.') and (p[0].isalnum() or p[0] == '.'):
            out.append('\t')
        elif j:
            out.append(sep)
        out.append(p)
    return ''.join(out)


def rand_ident(rng, i, templates):
    for _ in range(50):
        t = rng.choice(templates)
        if t['nv'] == 0 and rng.random() < 0.8:
            continue
        pt = rand_point(rng, t['g'])
        if pt is None:
            continue
        z, w = pt
        tb = 'formula'

        def build(toks):
            parts = []
            for tok in toks:
                if tok == 'Z':
                    parts.append('(' + gauss_text(z, rng) + ')')
                elif tok == 'W':
                    parts.append('(' + gauss_text(w, rng) + ')')
                else:
                    parts.append(tok)
            return join_tokens(parts, rng)
        return {'ev': 'ident', 'id': i, 'tb': tb, 'name': t['id'], 'z': gj(z), 'w': gj(w), 'rel': t['rel'],
                'ltext': build(t['ltoks']), 'rtext': build(t['rtoks']) if t['rel'] == 'eq' else ''}
    raise RuntimeError('no identity could be instantiated')


def observe_chunk(cases, extra):
    """each generated text is evaluated under all three scopes, in the order drawn for it; one record per scope"""
    from engine import repo
    repo.activate()
    tables(extra['markers'])
    recs = []
    for c in cases:
        for tb, rid in zip(c['order'], c['ids']):
            r = {k: v for k, v in c.items() if k not in ('order', 'ids')}
            r['id'], r['tb'], r['history'] = rid, tb, c['order'][:c['order'].index(tb) + 1]
            if c['ev'] in ('call', 'const'):
                raw = evaluate(c['text'] if c['ev'] == 'call' else c['name'], tb)
                r['obs'] = reduce_call(raw)
                r['shown'] = show(raw)
            else:
                rawl = evaluate(c['ltext'], tb)
                rawr = evaluate(c['rtext'], tb) if c['rel'] == 'eq' else None
                r['obs'] = reduce_ident(rawl, rawr, c['rel'])
                r['shown'] = [show(rawl), show(rawr) if rawr else None]
            recs.append(r)
    return recs


def class_tree():
    from mitxgraders import exceptions as X1
    from mitxgraders.helpers.calc import exceptions as X2
    tree = {}
    for mod in (X1, X2):
        for name in dir(mod):
            cls = getattr(mod, name)
            if isinstance(cls, type) and issubclass(cls, Exception) and cls.__module__.startswith('mitxgraders'):
                tree[name] = [b.__name__ for b in cls.__bases__]
    return tree


# ---------------------------------------------------------------------------------------------- run
def _violate(ctx, b):
    hist = ' after '.join(reversed(b.get('history') or [b['table']]))
    if b['kind'] == 'ident':
        inst = b.get('inst') or {}
        sig = {'kind': 'ident', 'table': b['table'], 'identity': b['identity'], 'lhs': b['lhs'], 'rhs': b['rhs'],
               'rel': b['rel'], 'inst': inst, 'history': b.get('history'), 'observed': b['observed'], 'class': b['class']}
        ctx.violation(sig, 'identity %s (scope %s): %s %s %s  with statuses %s/%s%s; code gave %s'
                      % (b['identity'], hist, b['lhs'].replace('\t', ''), b['rel'], b['rhs'].replace('\t', ''),
                         inst.get('sl'), inst.get('sr'), '' if inst.get('holds', True) else ' (values of the overriding functions)',
                         b['observed']))
    else:
        sig = {'kind': b['kind'], 'table': b['table'], 'f': b['f'], 'expr': b['expr'], 'allowed': b['allowed'],
               'history': b.get('history'), 'observed': b['observed'], 'class': b['class']}
        ctx.violation(sig, '%s in scope %s: spec allows %s; code gave %s'
                      % (b['expr'].replace('\t', ''), hist,
                         describe(b['allowed']) if isinstance(b['allowed'], dict) else b['allowed'], b['observed']))


def run(ctx):
    from engine import repo
    repo.activate()
    from engine.main import Machinery
    reached = set()
    worst = {}
    # ---- identity templates and the markers of the overriding scope; the histories of part "order"
    d = os.path.join(ctx.scratch, 'tmpl')
    ctx.tlc(SPEC, 'arrays/MC_BuiltinFuncs_tmpl.cfg', dump=d, timeout=600)
    tm = [t for chunk in dump.parallel(d + '.dump', 'engine.adapters.c15', 'read_templates', procs=1,
                                       chunks_per_proc=1) for t in chunk]
    os.remove(d + '.dump')
    templates = sorted((t for t in tm if 'id' in t), key=lambda t: t['id'])
    markers = [t['markers'] for t in tm if 'markers' in t]
    if len(templates) < 100 or len(markers) != 1 or len(set(markers[0].values())) != len(markers[0]):
        raise Machinery('identity templates / markers could not be read (%d, %d)' % (len(templates), len(markers)))
    markers = markers[0]
    r = ctx.tlc(SPEC, 'arrays/MC_BuiltinFuncs_order_flaw.cfg', must_hold=False, timeout=600)
    if 'LawOrderFlaw' not in r.violated:
        raise Machinery('vacuity guard: a memo keyed by the text alone does not violate history independence in the model')
    ctx.extra['model_variants_violating'] = {'memo keyed by text only': 'LawMemoRefines'}
    d = os.path.join(ctx.scratch, 'cases_order')
    ctx.tlc(SPEC, 'arrays/MC_BuiltinFuncs_order_%s.cfg' % ctx.tier, dump=d, timeout=600)
    orders = sorted(set(tuple(h) for chunk in dump.parallel(d + '.dump', 'engine.adapters.c15', 'read_orders', procs=1,
                                                          chunks_per_proc=1) for h in chunk))
    orders = [list(h) for h in orders if len(h) >= 2 and len(set(h)) >= 2]
    if len(orders) < 20:
        raise Machinery('histories could not be read (%d)' % len(orders))
    extra = {'markers': markers, 'orders': orders}
    for part in ['order'] + PARTS:
        if part != 'order':
            d = os.path.join(ctx.scratch, 'cases_' + part)
            ctx.tlc(SPEC, 'arrays/MC_BuiltinFuncs_%s_%s.cfg' % (part, ctx.tier), dump=d, timeout=3000)
        fn = 'replay_idents' if part == 'ident' else 'replay_calls'
        res = dump.parallel(d + '.dump', 'engine.adapters.c15', fn, extra=extra)
        os.remove(d + '.dump')
        for r in res:
            ctx.traces_validated += r['n']
            ctx.evaluations += r['n']
            for k in r['keys']:
                ctx.nontrivial.add(tuple(k))
                reached.add(str(k[3]) if part != 'ident' else 'ident:%s/%s' % (k[2], k[3]))
            for k in r.get('const_keys', []):
                ctx.nontrivial.add(tuple(k))
            if r['sample']:
                ctx.sample(r['sample'], limit=8)
            for b in r['bad']:
                if b is not None:
                    _violate(ctx, b)
            for dmsg in r.get('drift', []):
                ctx.note_drift(dmsg)
            for k, v in r.get('worst', {}).items():
                worst[k] = max(worst.get(k, 0.0), v)

    # ---- the context dimension: the same out-of-domain / pole / wrong-arity calls down every road
    d = os.path.join(ctx.scratch, 'cases_ctx')
    ctx.tlc(SPEC, 'arrays/MC_BuiltinFuncs_ctx_%s.cfg' % ctx.tier, dump=d, timeout=600)
    res = dump.parallel(d + '.dump', 'engine.adapters.c15', 'replay_ctx', extra=extra, procs=4, chunks_per_proc=1)
    os.remove(d + '.dump')
    for r in res:
        ctx.traces_validated += r['n']
        ctx.evaluations += r['n']
        for k in r['keys']:
            ctx.nontrivial.add(tuple(k))
        if r['sample']:
            ctx.sample(r['sample'], limit=9)
        for b in r['bad']:
            if b is not None:
                _violate(ctx, b)

    # ---- code -> spec
    n_calls, n_idents = (850, 850) if ctx.quick else (4000, 4000)
    rng = ctx.rng
    cases = [{'ev': 'const', 'name': nm} for nm in ('i', 'j', 'e', 'pi')]
    for i in range(n_calls):
        cases.append(rand_call(rng, 0))
    for i in range(n_idents):
        cases.append(rand_ident(rng, 0, templates))
    nid = 0
    for c in cases:                                  # three records per text, one per scope, in a drawn order
        c.pop('id', None)
        c.pop('tb', None)
        c['order'] = list(rng.choice(PERMS))
        c['ids'] = [nid + 1, nid + 2, nid + 3]
        nid += 3
    recs = [r for chunk in dump.pmap('engine.adapters.c15', 'observe_chunk', cases, extra=extra) for r in chunk]
    ctx_cases = [rand_ctx(rng) for _ in range(400 if ctx.quick else 3000)]
    for c in ctx_cases:
        nid += 1
        c['id'] = nid
    ctx_recs = [r for chunk in dump.pmap('engine.adapters.c15', 'observe_ctx_chunk', ctx_cases, extra=extra) for r in chunk]
    for r in ctx_recs:
        r['tb'], r['history'] = r['x'], [r['x']]
    recs += ctx_recs
    meta = {'ev': 'meta', 'id': 0, 'seed': ctx.seed, 'tier': ctx.tier, 'tree': class_tree()}
    drop = ('text', 'ltext', 'rtext', 'shown', 'rel', 'history')
    slim = [meta] + [{k: v for k, v in r.items() if k not in drop} for r in recs]
    for r in slim[1:]:
        if r['ev'] == 'ctx':
            r.pop('tb')
        else:
            r['obs'] = {k: v for k, v in r['obs'].items() if k not in ('cls', 'err')}
    # the trace specification judges every record on its own, so the trace is validated in slices by several TLC
    # processes side by side (one worker each); the meta record travels with the first slice
    from concurrent.futures import ThreadPoolExecutor
    nsl = 8
    slices = [slim[j::nsl] for j in range(nsl)]          # interleaved: calls and identities in every slice
    with ThreadPoolExecutor(len(slices)) as pool:
        parts = list(pool.map(lambda js: traces.validate(ctx, 'arrays/BuiltinFuncsTrace.tla', 'arrays/BuiltinFuncsTrace.cfg',
                                                         js[1], name='trace%d' % js[0], timeout=3000),
                              enumerate(slices)))
    rej = {}
    for part_rej in parts:
        rej.update(part_rej)
    ctx.evaluations += len(recs)
    byid = {r['id']: r for r in recs}
    for r in recs[12:15] + recs[-3:]:
        ctx.sample({'trace_record': {k: v for k, v in r.items() if k != 'obs'}}, limit=14)
    for r in recs:
        ctx.nontrivial.add(('trace', r['ev'], r['tb'], r.get('f') or r.get('name'),
                            r['obs'] if r['ev'] == 'ctx' else (r['obs'].get('k') or r['obs'].get('l'))))
    for i, clause in rej.items():
        if i == 0:
            ctx.note_drift('the exception class tree differs from the one recorded in BuiltinFuncsTrace!ErrParents')
            continue
        if clause.startswith('context:'):
            r = byid[i]
            _violate(ctx, {'kind': 'trace-ctx', 'table': r['x'], 'f': r['f'], 'expr': r['text'],
                           'allowed': 'context verdict: ' + clause.split(':')[1], 'observed': r['shown'],
                           'class': 'context:%s' % r['x']})
            continue
        if clause == 'guard':
            raise Machinery('the random driver generated a point outside the guard of its identity: %r' % byid[i])
        r = byid[i]
        if r['ev'] == 'ident':
            sl, _, rest = clause.partition('/')
            sr, _, rel = rest.partition(':')
            _violate(ctx, {'kind': 'ident', 'table': r['tb'], 'identity': r['name'], 'lhs': r['ltext'], 'rhs': r['rtext'],
                           'rel': rel, 'inst': {'sl': sl, 'sr': sr, 'holds': r['tb'] != 'override'}, 'history': r['history'],
                           'observed': r['shown'], 'class': 'identity:%s' % r['name']})
        else:
            f = r.get('f') or r['name']
            o = r['obs']
            a, _, k = clause.partition(':')
            fake = {'k': 'err', 'why': 'required'} if a == 'err' else {'k': k}
            cls = call_class({'f': f}, fake, o) if clause != 'const' else 'constant:%s' % f
            _violate(ctx, {'kind': 'trace-' + r['ev'], 'table': r['tb'], 'f': f, 'expr': r.get('text', f),
                           'allowed': clause, 'history': r['history'], 'observed': r['shown'], 'class': cls})
    ctx.extra['outcome_classes_reached'] = sorted(reached)[:200]
    ctx.extra['worst_relative_error_per_identity'] = {k: float('%.3g' % v) for k, v in sorted(worst.items())}
    ctx.extra['bounds'] = {'tier': ctx.tier, 'grid_axis_values': 7 if ctx.quick else 15,
                           'grid_extremes': '1e-6 .. 1e6 on both axes, 709/711 at the overflow edge, 1e-3 off cuts and poles',
                           'matrix_sizes': 'vectors 2-3, matrices 2x2, 2x3, 3x2, 3x3 (TLC); up to 4x4 / length 5 (random)',
                           'identities': len(templates), 'tolerance': TOL,
                           'scopes': list(SCOPES), 'contexts': list(CONTEXTS), 'histories_per_text': 'the 6 orders of the 3 scopes in turn, every '
                           '4th text one of the %d TLC-enumerated histories with repetitions' % len(orders),
                           'random_call_texts': n_calls, 'random_identity_texts': n_idents}
    ctx.assumptions += [
        'accuracy of numpy primitives (sin, exp, arctan, ...) is trusted: identities relate library functions to each other',
        'factorial / fact excluded (scipy absent)',
        'complex-typed numbers with zero imaginary part (2.5+0*i) passed to floor/ceil/min/max/arctan2 are not generated '
        '(the statement does not say whether they count as real)',
        'arguments between the last representable and first unrepresentable value (709.8 < |x| < 711 for exp, sinh, '
        'cosh, ...) are not generated',
        '0-d numpy arrays are read as numbers (trans(5) returns one)',
        'rank-3 tensors as arguments are not generated',
        'history independence is exercised per worker process (each holds its own parser cache): a text meets the three '
        'scopes within one process, in the enumerated orders',
    ]


def replay(ctx, rec):
    """re-run the failing text under the recorded history of scopes (the last one is the judged one)"""
    from engine import repo, tlc as T, dump as D
    repo.activate()
    sig = rec['signature']
    d = os.path.join(ctx.scratch, 'tmpl')
    ctx.tlc(SPEC, 'arrays/MC_BuiltinFuncs_tmpl.cfg', dump=d, timeout=600)
    tm = [t for chunk in D.parallel(d + '.dump', 'engine.adapters.c15', 'read_templates', procs=1, chunks_per_proc=1)
          for t in chunk]
    tables([t['markers'] for t in tm if 'markers' in t][0])
    print('signature:', {k: v for k, v in sig.items() if k not in ('allowed', 'inst')})
    if sig['kind'] in ('ctx', 'trace-ctx'):
        obs, seen = observe_ctx(sig['table'], sig['expr'], 0)
        obs2, seen2 = observe_ctx(sig['table'], sig['expr'], 1)
        print('observed now:', seen, '/', seen2)
        v = sig['allowed'].split(': ')[1]
        return accepts_ctx(v, obs) and accepts_ctx(v, obs2)
    hist = sig.get('history') or [sig['table']]
    if sig['kind'] == 'ident':
        for tb in hist:
            rawl = evaluate(sig['lhs'], tb)
            rawr = evaluate(sig['rhs'], tb) if sig['rel'] == 'eq' else None
        o = reduce_ident(rawl, rawr, sig['rel'])
        print('observed now:', show(rawl), show(rawr) if rawr else None, o)
        inst = dict(sig['inst'], rel=sig['rel'])
        inst.setdefault('lx', {'ex': False})
        inst.setdefault('rx', {'ex': False})
        return accepts_ident(inst, o)
    for tb in hist:
        raw = evaluate(sig['expr'], tb)
    o = reduce_call(raw)
    print('observed now:', show(raw))
    if isinstance(sig['allowed'], dict):
        print('allowed:', describe(sig['allowed']))
        return accepts(sig['allowed'], o, raw)
    a = sig['allowed'].split(':')[0]
    return (o['k'] == 'err' and o['sf']) if a == 'err' else (o['k'] == 'val' if a == 'val' else True)
