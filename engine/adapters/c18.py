"""C18 -- StringGrader matches exactly the inputs equal after the configured cleaning.

spec -> code: TLC enumerates every case of MC_StringClean (three parts), the dump is replayed into StringGrader.
code -> spec: random long strings / configurations / patterns are run through StringGrader, recorded as ndjson and
              validated by StringCleanTrace (TLC evaluates StringClean!Outcome on every record).
"""
import os
import re

from engine import dump, traces

SYM = {'a': 'a', 'A': 'A', 'b': 'b', 'B': 'B', '1': '1', 'SP': ' ', 'TAB': '\t', 'CR': '\r', 'LF': '\n',
       'EAC': 'é', 'EACU': 'É'}
ANS_MARK = 'ANSWER-MESSAGE-7f3'
INVALID_MARK = 'INVALID-FORMAT-MESSAGE-91c'

PATTERNS = {
    'catdog': {'k': 'alt', 'a': {'k': 'lit', 's': ['a', 'b']}, 'b': {'k': 'lit', 's': ['b', 'a']}},
    'prefix': {'k': 'lit', 's': ['a']},
    'optional': {'k': 'cat', 'a': {'k': 'lit', 's': ['a']}, 'b': {'k': 'opt', 'a': {'k': 'lit', 's': ['b']}}},
    'twoany': {'k': 'cat', 'a': {'k': 'any1'}, 'b': {'k': 'any1'}},
    'alt3': {'k': 'alt', 'a': {'k': 'alt', 'a': {'k': 'lit', 's': ['a']}, 'b': {'k': 'lit', 's': ['b', 'SP', 'a']}},
             'b': {'k': 'lit', 's': ['1']}},
    'altfirst': {'k': 'alt', 'a': {'k': 'lit', 's': ['a', 'b']}, 'b': {'k': 'lit', 's': ['a']}},
}


# white-space characters that are neither space, tab nor line break (the symbol NB of StringClean.tla)
NB_CHARS = ['\xa0', '\x0c', '\u2003', '\x0b', '\x85', '\x1c', '\u3000']


def nb_of(case):
    """the real character that stands for NB in this case (the same one in the expected and the submitted text)"""
    return NB_CHARS[(7 * len(case['expect']) + len(case['input'])) % len(NB_CHARS)]


def text(syms, nb='\xa0'):
    return ''.join(nb if s == 'NB' else SYM[s] for s in syms)


def render(p, top=True):
    """pattern tree -> Python regular expression text; a top-level alternation is written without a group, the way
    an author writes 'cat|dog'"""
    k = p['k']
    if k == 'lit':
        return ''.join(re.escape(SYM[s]) if SYM[s] != ' ' else ' ' for s in p['s'])
    if k == 'any1':
        return '.'
    if k == 'alt':
        body = render(p['a'], top) + '|' + render(p['b'], top)
        return body if top else '(?:' + body + ')'
    if k == 'opt':
        return '(?:' + render(p['a'], False) + ')?'
    if k == 'cat':
        return render(p['a'], False) + render(p['b'], False)
    raise ValueError(k)


def observe(case, pattern_tree):
    """run the real grader, return the outcome class"""
    from mitxgraders import StringGrader
    from mitxgraders.exceptions import InvalidInput, ConfigError
    f = case['f']
    cfg = dict(case_sensitive=f['cs'], strip=f['strip'], strip_all=f['stripAll'], clean_spaces=f['cleanSpaces'],
               accept_any=case['any'], accept_nonempty=case['nonempty'], min_length=case['minLength'],
               min_words=case['minWords'],
               explain_minimums=None if case['explainMin'] == 'none' else case['explainMin'],
               explain_validation=None if case['explainVal'] == 'none' else case['explainVal'],
               invalid_msg=INVALID_MARK, debug=bool(case.get('debug', False)),
               answers={'expect': text(case['expect'], nb_of(case)), 'msg': ANS_MARK})
    if pattern_tree is not None:
        cfg['validation_pattern'] = render(pattern_tree)
    try:
        g = StringGrader(**cfg)
        r = g(None, text(case['input'], nb_of(case)))
    except InvalidInput as e:
        return 'invalid_err' if str(e) == INVALID_MARK else 'short_err'
    except ConfigError:
        return 'config_err'
    except Exception as e:  # anything else is outside every allowed class
        return 'other:%s' % type(e).__name__
    if set(r) != {'ok', 'grade_decimal', 'msg'}:
        return 'other:keys'
    if case.get('debug'):
        # the debugging text is appended to the message; it is not part of the outcome class
        cut = r['msg'].find('<pre>MITx Grading Library')
        if cut < 0:
            return 'other:no-debug-text'
        head = r['msg'][:cut]
        while head.endswith('<br/>\n'):
            head = head[:-6]
        r = dict(r, msg=head)
    if r['ok'] is True and r['grade_decimal'] == 1 and r['msg'] == ANS_MARK:
        return 'accept'
    if r['ok'] is False and r['grade_decimal'] == 0:
        if r['msg'] == '':
            return 'wrong'
        if r['msg'] == INVALID_MARK:
            return 'invalid_msg'
        if r['msg'].startswith('Your response is too short'):
            return 'short_msg'
    return 'other:%r' % (r,)


def bystanders():
    """Other StringGrader objects graded in the same process between the observed calls: refusals of every kind on
    graders that carry their own wrong_msg / invalid_msg.  Nothing they do may show up in another grader's result."""
    from mitxgraders import StringGrader
    for kw, text in (
            (dict(answers='zebra', wrong_msg='BYSTANDER-WRONG'), 'not a zebra'),
            (dict(accept_any=True, min_length=5, explain_minimums=None, wrong_msg='BYSTANDER-WRONG'), 'ab'),
            (dict(accept_nonempty=True, explain_minimums=None, wrong_msg='BYSTANDER-WRONG'), ''),
            (dict(accept_any=True, min_words=3, explain_minimums='msg', wrong_msg='BYSTANDER-WRONG'), 'one two'),
            (dict(answers='12', validation_pattern='[0-9]+', explain_validation=None, wrong_msg='BYSTANDER-WRONG',
                  invalid_msg='BYSTANDER-INVALID'), 'abc'),
            (dict(answers='12', validation_pattern='[0-9]+', explain_validation='msg', invalid_msg='BYSTANDER-INVALID'), 'abc')):
        try:
            StringGrader(**kw)(None, text)
        except Exception:  # noqa
            pass


def replay_states(states, extra):
    from engine import repo
    repo.activate()
    n = 0
    keys = set()
    bad = []
    sample = None
    for st in states:
        c = st['c']
        if c['kind'] == 'seed':
            continue
        n += 1
        if n % 40 == 1:
            bystanders()
        tree = None if c['pid'] == 'none' else PATTERNS[c['pid']]
        obs = observe(c, tree)
        keys.add((c['kind'], st['out'], c['pid']))
        if sample is None:
            sample = {'case': c, 'allowed': st['out'], 'observed': obs}
        if obs != st['out']:
            if len(bad) < 200:
                bad.append({'case': c, 'allowed': st['out'], 'observed': obs})
            else:
                bad.append(None)
    return {'n': n, 'keys': sorted(keys), 'bad': bad, 'sample': sample}


def signature(case, allowed, observed):
    pat = None
    if case.get('pid', 'none') != 'none':
        pat = render(PATTERNS[case['pid']])
    elif isinstance(case.get('pattern'), dict) and case['pattern'].get('k') != 'none':
        pat = render(case['pattern'])
    return {'kind': case.get('kind', 'trace'), 'flags': case['f'], 'expect': text(case['expect'], nb_of(case)),
            'input': text(case['input'], nb_of(case)), 'pattern': pat, 'any': case['any'], 'nonempty': case['nonempty'],
            'min_length': case['minLength'], 'min_words': case['minWords'], 'explain_minimums': case['explainMin'],
            'explain_validation': case['explainVal'], 'allowed': allowed, 'observed': observed}


def finding_class(sig):
    """coarse class used for known-finding matching (the concrete case stays in the replay file)"""
    if sig['pattern'] and '|' in sig['pattern'] and sig['allowed'].startswith('invalid') and sig['observed'] != sig['allowed']:
        return 'validation-alternation-partial-match'
    if sig['pattern'] and '|' in sig['pattern'] and sig['allowed'] == 'config_err':
        return 'validation-alternation-partial-match'
    return None


# ---------------------------------------------------------------- random driver
def rand_pattern(rng, depth=0):
    r = rng.random()
    if depth > 2 or r < 0.4:
        return {'k': 'lit', 's': [rng.choice(['a', 'b', 'A', '1', 'SP']) for _ in range(rng.randint(1, 3))]}
    if r < 0.5:
        return {'k': 'any1'}
    if r < 0.7:
        return {'k': 'alt', 'a': rand_pattern(rng, depth + 1), 'b': rand_pattern(rng, depth + 1)}
    if r < 0.85:
        return {'k': 'cat', 'a': rand_pattern(rng, depth + 1), 'b': rand_pattern(rng, depth + 1)}
    return {'k': 'opt', 'a': rand_pattern(rng, depth + 1)}


def rand_member(rng, p):
    k = p['k']
    if k == 'lit':
        return list(p['s'])
    if k == 'any1':
        return [rng.choice(['a', 'b', '1', 'SP', 'A'])]
    if k == 'alt':
        return rand_member(rng, rng.choice([p['a'], p['b']]))
    if k == 'opt':
        return rand_member(rng, p['a']) if rng.random() < 0.5 else []
    return rand_member(rng, p['a']) + rand_member(rng, p['b'])


def rand_cases(rng, n):
    alpha = ['a', 'A', 'b', 'B', '1', 'SP', 'SP', 'TAB', 'CR', 'LF', 'EAC', 'EACU', 'NB']
    out = []
    for i in range(n):
        f = {'cs': rng.random() < .5, 'strip': rng.random() < .5, 'stripAll': rng.random() < .5,
             'cleanSpaces': rng.random() < .5}
        expect = [rng.choice(alpha) for _ in range(rng.randint(0, 8))]
        mode = rng.choice(['match', 'match', 'any', 'pattern'])
        inp = list(expect)
        for _ in range(rng.randint(0, 3)):          # edits of the expected string
            op = rng.random()
            pos = rng.randint(0, len(inp))
            if op < .5:
                inp[pos:pos] = [rng.choice(['SP', 'TAB', 'CR', 'LF', 'SP', 'NB'])] * rng.randint(1, 2)
            elif op < .7 and inp:
                del inp[min(pos, len(inp) - 1)]
            elif op < .85 and inp:
                j = min(pos, len(inp) - 1)
                inp[j] = {'a': 'A', 'A': 'a', 'b': 'B', 'B': 'b', 'EAC': 'EACU', 'EACU': 'EAC'}.get(inp[j], inp[j])
            elif inp:
                inp[min(pos, len(inp) - 1)] = rng.choice(alpha)
        c = {'id': i, 'f': f, 'expect': expect, 'input': inp, 'any': False, 'nonempty': False, 'minLength': 0,
             'minWords': 0, 'explainMin': 'err', 'explainVal': 'err', 'pattern': {'k': 'none'},
             'debug': rng.random() < .25}
        if mode == 'any':
            c['any'] = rng.random() < .6
            c['nonempty'] = (not c['any']) or rng.random() < .3
            c['minLength'] = rng.choice([0, 0, 1, 2, 5, 9])
            c['minWords'] = rng.choice([0, 0, 1, 2, 3])
            c['explainMin'] = rng.choice(['err', 'msg', 'none'])
            c['input'] = [rng.choice(alpha) for _ in range(rng.randint(0, 10))]
        elif mode == 'pattern':
            p = rand_pattern(rng)
            c['pattern'] = p
            c['explainVal'] = rng.choice(['err', 'msg', 'none'])
            c['any'] = rng.random() < .5
            c['expect'] = rand_member(rng, p)
            base = rand_member(rng, p)
            r = rng.random()
            if r < .4:
                c['input'] = base
            elif r < .7:
                c['input'] = base + [rng.choice(['a', 'b', 'SP', '1'])] * rng.randint(1, 2)
            elif r < .85:
                c['input'] = [rng.choice(['a', 'b'])] + base
            else:
                c['input'] = [rng.choice(alpha) for _ in range(rng.randint(0, 5))]
        out.append(c)
    return out


def observe_chunk(cases, extra):
    from engine import repo
    repo.activate()
    recs = []
    for k, c in enumerate(cases):
        if k % 40 == 0:
            bystanders()
        tree = c['pattern'] if c['pattern']['k'] != 'none' else None
        c = dict(c)
        c['obs'] = observe(c, tree)
        recs.append(c)
    return recs


def run(ctx):
    parts = ['match', 'any', 'pattern']
    seen_classes = set()
    for part in parts:
        d = os.path.join(ctx.scratch, 'cases_' + part)
        ctx.tlc('graders/MC_StringClean.tla', 'graders/MC_StringClean_%s_%s.cfg' % (part, ctx.tier), dump=d,
                timeout=3000)
        res = dump.parallel(d + '.dump', 'engine.adapters.c18', 'replay_states')
        os.remove(d + '.dump')
        for r in res:
            ctx.traces_validated += r['n']
            ctx.evaluations += r['n']
            for k in r['keys']:
                ctx.nontrivial.add(tuple(k))
                seen_classes.add(k[1])
            if r['sample']:
                ctx.sample(r['sample'])
            for b in r['bad']:
                if b is None:
                    continue
                sig = signature(b['case'], b['allowed'], b['observed'])
                sig['class'] = finding_class(sig)
                ctx.violation(sig, 'StringGrader %r on %r (expect %r, pattern %r): spec allows %s, code gave %s' % (
                    sig['flags'], sig['input'], sig['expect'], sig['pattern'], b['allowed'], b['observed']))
    # code -> spec
    n = 3000 if ctx.quick else 60000
    cases = rand_cases(ctx.rng, n)
    recs = [r for chunk in dump.pmap('engine.adapters.c18', 'observe_chunk', cases) for r in chunk]
    rej = traces.validate(ctx, 'graders/StringCleanTrace.tla', 'graders/StringCleanTrace.cfg', recs)
    ctx.evaluations += len(recs)
    byid = {r['id']: r for r in recs}
    for r in recs[:2]:
        ctx.sample({'trace_record': r})
    for i, allowed in rej.items():
        r = byid[i]
        sig = signature(r, allowed, r['obs'])
        sig['class'] = finding_class(sig)
        ctx.violation(sig, 'StringGrader %r on %r (expect %r, pattern %r): spec allows %s, code gave %s' % (
            sig['flags'], sig['input'], sig['expect'], sig['pattern'], allowed, r['obs']))
    ctx.extra['outcome_classes_reached'] = sorted(seen_classes)
    ctx.extra['bounds'] = {'tier': ctx.tier, 'max_len': 3 if ctx.quick else 4, 'random_records': n}
    ctx.assumptions += ['symbols outside the model alphabet (other unicode whitespace, other letters) behave like the modelled ones',
                        'Python re semantics for the rendered finite patterns']


def replay(ctx, rec):
    sig = rec['signature']
    print('signature:', sig)
    return False
