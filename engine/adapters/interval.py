"""Growth beyond the listed properties: IntervalGrader scoring (spec/graders/IntervalGrading.tla).

Called by the C07 check as an extra part.  Both bindings:
  spec -> code   every case TLC enumerates for MC_IntervalGrading is built as a real IntervalGrader (answers, brackets,
                 partial_credit come from the dump, nothing is re-tabulated here) and called once; grade, ok, error class
                 and the message ids that must / must never show are compared with the documented outcome;
  code -> spec   random problems (random credit tables, 1-3 alternative answers) are graded by the code and the
                 observations validated by TLC against IntervalGradingTrace.
A disagreement is reported as DRIFT (documented behaviour outside the twenty listed properties), never as a VIOLATION.
"""
import json
import os
from fractions import Fraction

from engine import dump, traces

TOL = 1e-9


def frac(q):
    return Fraction(q[0], q[1])


def num(q):
    f = frac(q)
    return int(f) if f.denominator == 1 else float(f)


def py_answers(ans):
    out = []
    for a in ans:
        def br(alts):
            return tuple({'expect': x['ch'], 'grade_decimal': num(x['w']), 'msg': x['m']} for x in alts)

        def bd(alts):
            return tuple({'expect': str(x['v']), 'grade_decimal': num(x['w']), 'msg': x['m']} for x in alts)
        out.append({'expect': [br(a['ob']), bd(a['lo']), bd(a['up']), br(a['cb'])],
                    'grade_decimal': num(a['credit']), 'msg': a['msg']})
    return tuple(out)


def submission(s, delim=','):
    lo, up = str(s['lo']), str(s['up'])
    if s['form'] == 'ok':
        mid = '%s%s %s' % (lo, delim, up)
    elif s['form'] == 'one':
        mid = '  %s  ' % lo
    elif s['form'] == 'three':
        mid = '%s%s %s%s %s' % (lo, delim, up, delim, up)
    else:
        mid = '%s%s   ' % (lo, delim)
    return s['open'] + mid + s['close']


def observe(grader, text):
    from mitxgraders.exceptions import MITxError
    try:
        r = grader(None, text)
    except MITxError as e:
        return {'k': 'raise', 'cls': [k.__name__ for k in type(e).__mro__], 'text': str(e)}
    except Exception as e:  # noqa
        return {'k': 'raise', 'cls': [type(e).__name__], 'text': str(e), 'outside': True}
    return {'k': 'return', 'grade': r['grade_decimal'], 'ok': {True: 'T', False: 'F', 'partial': 'P'}.get(r['ok'], repr(r['ok'])),
            'msg': r['msg']}


def judge(out, obs):
    """None, or the name of the documented clause the observation contradicts"""
    if out['k'] == 'raise':
        if obs['k'] != 'raise':
            return 'refusal-missing'
        return None if out['cls'] in obs['cls'] else 'refusal-class'
    if obs['k'] != 'return':
        return 'refused'
    if abs(obs['grade'] - float(frac(out['grade']))) > TOL:
        return 'grade'
    if obs['ok'] != out['ok']:
        return 'ok'
    for m in out.get('must', []):
        if m not in obs['msg']:
            return 'message-missing'
    for m in out.get('never', []):
        if m in obs['msg']:
            return 'message-from-elsewhere'
    return None


def replay_states(states, extra):
    from engine import repo
    repo.activate()
    from mitxgraders import IntervalGrader
    n = 0
    bad, keys = [], set()
    sample = None
    cache = {}
    for st in states:
        c, out = st['c'], st['out']
        if c.get('kind') != 'case':
            continue
        key = json.dumps([c['ans'], c['sd']['partial'], sorted(c['opening']), sorted(c['closing'])], sort_keys=True)
        g = cache.get(key)
        if g is None:
            if len(cache) > 64:
                cache.clear()
            g = cache[key] = IntervalGrader(answers=py_answers(c['ans']), partial_credit=c['sd']['partial'],
                                            opening_brackets=''.join(sorted(c['opening'])),
                                            closing_brackets=''.join(sorted(c['closing'])))
        text = submission(c['s'])
        obs = observe(g, text)
        n += 1
        keys.add((out['k'], out.get('cls', out.get('ok')), len(c['ans']), c['sd']['partial'], c['s']['form']))
        clause = judge(out, obs)
        if sample is None and out['k'] == 'return' and out['ok'] == 'P':
            sample = {'interval_case': {'answers': c['ans'], 'partial_credit': c['sd']['partial']}, 'submitted': text,
                      'documented': out, 'observed': obs}
        if clause:
            if len(bad) < 20:
                bad.append({'clause': clause, 'submitted': text, 'documented': out, 'observed': obs,
                            'answers': c['ans'], 'partial_credit': c['sd']['partial'],
                            'opening': sorted(c['opening']), 'closing': sorted(c['closing'])})
            else:
                bad.append(None)
    return {'n': n, 'bad': bad, 'keys': sorted(keys), 'sample': sample}


# ------------------------------------------------------------------------------------------------- code -> spec
CREDITS = [[1, 1], [1, 2], [1, 4], [3, 4], [0, 1]]


def rand_problem(rng, i):
    opening = rng.choice(['[(', '[({', '(<'])
    closing = {'[(': '])', '[({': '])}', '(<': ')>'}[opening]
    nans = rng.choice([1, 1, 2, 3])
    ans = []
    for a in range(nans):
        def br(chars):
            k = rng.choice([1, 1, 2, 3])
            return [{'ch': rng.choice(chars), 'w': rng.choice(CREDITS[:4]), 'm': rng.choice(['', '', 'mB%d%d' % (a, j)])} for j in range(k)]

        def bd(vals):
            k = rng.choice([1, 1, 2, 3])
            return [{'v': rng.choice(vals), 'w': rng.choice(CREDITS[:4]), 'm': rng.choice(['', '', 'mV%d%d%d' % (a, vals[0], j)])} for j in range(k)]
        ans.append({'ob': br(opening), 'lo': bd([0, 2, 4]), 'up': bd([1, 3, 5]), 'cb': br(closing),
                    'credit': rng.choice(CREDITS[:4]), 'msg': rng.choice(['', 'mA%d' % a])})
    allo = opening + ('{' if '{' not in opening else '<')
    allc = closing + ('}' if '}' not in closing else '>')
    s = {'open': rng.choice(allo if rng.random() < 0.15 else opening), 'close': rng.choice(allc if rng.random() < 0.15 else closing),
         'lo': rng.choice([0, 2, 4, 7, 1]), 'up': rng.choice([1, 3, 5, 7, 0]),
         'form': rng.choice(['ok'] * 8 + ['one', 'three', 'blank'])}
    return {'id': i, 'ans': ans, 'partial': rng.random() < 0.6, 'opening': sorted(opening), 'closing': sorted(closing), 's': s,
            'delim': rng.choice([',', ',', ';', ':'])}


def observe_chunk(cases, extra):
    from engine import repo
    repo.activate()
    from mitxgraders import IntervalGrader
    recs = []
    for P in cases:
        try:
            g = IntervalGrader(answers=py_answers(P['ans']), partial_credit=P['partial'], delimiter=P['delim'],
                               opening_brackets=''.join(P['opening']), closing_brackets=''.join(P['closing']))
        except Exception as e:  # noqa
            recs.append({'id': P['id'], 'skip': '%s: %s' % (type(e).__name__, e)})
            continue
        text = submission(P['s'], P['delim'])
        obs = observe(g, text)
        rec = {'id': P['id'], 'ans': P['ans'], 'partial': P['partial'], 'opening': P['opening'], 'closing': P['closing'],
               's': P['s'], 'text': text, 'raw': obs}
        if obs['k'] == 'raise':
            rec['obs'] = {'k': 'raise', 'cls': [x for x in obs['cls'] if x in ('InvalidInput', 'MissingInput', 'ConfigError', 'StudentFacingError')][:1] or ['other']}
            rec['obs']['cls'] = rec['obs']['cls'][0]
        else:
            f = Fraction(obs['grade']).limit_denominator(4096)
            exact = abs(float(f) - obs['grade']) <= TOL
            rec['obs'] = {'k': 'return', 'grade': [f.numerator, f.denominator] if exact else [-1, 1], 'ok': obs['ok']}
        recs.append(rec)
    return recs


def run_part(ctx):
    """extra part of the C07 check; every disagreement is drift"""
    from engine.main import Machinery
    d = os.path.join(ctx.scratch, 'interval_cases')
    ctx.tlc('graders/MC_IntervalGrading.tla', 'graders/MC_IntervalGrading_%s.cfg' % ctx.tier, dump=d, timeout=3000)
    res = dump.parallel(d + '.dump', 'engine.adapters.interval', 'replay_states')
    os.remove(d + '.dump')
    n = nbad = 0
    reached = set()
    for r in res:
        n += r['n']
        ctx.evaluations += r['n']
        ctx.traces_validated += r['n']
        for k in r['keys']:
            reached.add(tuple(map(str, k)))
        if r['sample'] and 'interval_sample' not in ctx.extra:
            ctx.extra['interval_sample'] = r['sample']
        for b in r['bad']:
            nbad += 1
            if b is not None and nbad <= 5:
                ctx.note_drift('IntervalGrader (documented scoring, outside the listed properties): %r with answers %s: '
                               'documented %s, code %s [%s]' % (b['submitted'], json.dumps(b['answers'])[:300],
                                                                json.dumps(b['documented']), json.dumps(b['observed'])[:200], b['clause']))
    if n == 0:
        raise Machinery('interval part: nothing replayed')
    # code -> spec
    ncases = 600 if ctx.quick else 8000
    cases = [rand_problem(ctx.rng, i + 1) for i in range(ncases)]
    recs = [r for chunk in dump.pmap('engine.adapters.interval', 'observe_chunk', cases) for r in chunk]
    skipped = [r for r in recs if 'skip' in r]
    recs = [r for r in recs if 'skip' not in r]
    if len(skipped) > ncases // 10:
        raise Machinery('interval random driver: %d of %d problems refused at construction, e.g. %s' % (len(skipped), ncases, skipped[0]['skip']))
    raws = {r['id']: (r.pop('raw'), r.pop('text')) for r in recs}
    rejected = {}
    for lo in range(0, len(recs), 4000):
        rejected.update(traces.validate(ctx, 'graders/IntervalGradingTrace.tla', 'graders/IntervalGradingTrace.cfg',
                                        recs[lo:lo + 4000], name='interval_trace%d' % lo, timeout=3000))
    ctx.evaluations += len(recs)
    byid = {r['id']: r for r in recs}
    for i, clause in list(rejected.items())[:5]:
        raw, text = raws[i]
        ctx.note_drift('IntervalGrader (random driver): %r with answers %s: trace specification rejects [%s], code gave %s' % (
            text, json.dumps(byid[i]['ans'])[:300], clause, json.dumps(raw)[:200]))
    ctx.extra['interval_growth'] = {
        'spec': 'graders/IntervalGrading.tla (from docs/grading_math/interval_grader.md)',
        'enumerated_cases_replayed': n, 'disagreements': nbad, 'random_records_validated': len(recs),
        'random_records_rejected': len(rejected), 'outcome_classes_reached': len(reached),
        'verdict': 'drift only: IntervalGrader scoring is outside the twenty listed properties'}
    return nbad + len(rejected)
