"""C14 -- array arithmetic follows strict linear-algebra shape rules and values.

spec -> code: TLC enumerates the cases of MC_ArrayAlgebra (parts bin, pow, chain, scope); every case is replayed
              through MathArray operators (plain, reflected, in-place; integer and float element types), through
              evaluator() on formula strings with array literals and with array-valued variables, and (for powers)
              through MatrixGrader with negative powers enabled / disabled.
code -> spec: random larger cases (shapes up to 6, longer chains, larger exponents) are run through the same forms,
              the observed result is mapped to exact Gaussian rationals and ArrayAlgebraTrace decides every record.

Verdict: the property-level outcome (value of the right shape within 1e-9, or a student-facing error) is compared;
the reason label of a refusal against the raised class is reported as drift only.
"""
import operator
import os
import warnings
from fractions import Fraction

from engine import dump, traces

LEVEL = 'model_checking'
PARTS = ['scope', 'lit', 'scaled', 'near', 'src', 'pow', 'chain', 'bin']
OPFN = {'+': operator.add, '-': operator.sub, '*': operator.mul, '/': operator.truediv, '^': operator.pow}
IOPFN = {'+': operator.iadd, '-': operator.isub, '*': operator.imul, '/': operator.itruediv, '^': operator.ipow}
RNAME = {'+': '__radd__', '-': '__rsub__', '*': '__rmul__', '/': '__rtruediv__', '^': '__rpow__'}
# implementation-shaped expectation (drift only): reason label of the spec -> class the library uses today
WHY_CLASS = {'shape': 'MathArrayShapeError', 'scalar+array': 'MathArrayShapeError', 'array+scalar': 'MathArrayShapeError',
             'divide-by-array': 'MathArrayShapeError', 'not-a-matrix': 'MathArrayShapeError',
             'non-square': 'MathArrayShapeError', 'array-exponent': 'MathArrayShapeError',
             'scalar^array': 'MathArrayShapeError', 'tensor': 'MathArrayError', 'non-integer': 'MathArrayError',
             'negative-disabled': 'MathArrayError', 'singular': 'MathArrayError',
             'zero-division': 'CalcZeroDivisionError', 'triple-vector': 'CalcError'}
TOL = 1e-9


# ---------------------------------------------------------------- compact operands -> python / text
def is_scalar(a):
    return len(a['sh']) == 0


def q_is_int(q):
    return q[1] == 0 and q[2] == 1


def scalar_py(q, styp):
    """q = [a, b, d] = (a + b i) / d;  styp: 'int' | 'float' (used for real integers only)"""
    a, b, d = q
    if b != 0:
        return complex(a / d, b / d)
    if d == 1 and styp == 'int':
        return int(a)
    return float(a) / d


def to_py(a, styp='int', dtype='int'):
    import numpy as np
    from mitxgraders.helpers.calc.math_array import MathArray
    if is_scalar(a):
        return scalar_py(a['e'][0], styp)
    cplx = any(q[1] != 0 for q in a['e'])
    if cplx:
        flat = [complex(q[0] / q[2], q[1] / q[2]) for q in a['e']]
        arr = np.array(flat, dtype=complex)
    elif dtype == 'int' and all(q[2] == 1 for q in a['e']):
        arr = np.array([q[0] for q in a['e']], dtype=int)
    else:
        arr = np.array([q[0] / q[2] for q in a['e']], dtype=float)
    return MathArray(arr.reshape(tuple(a['sh'])))


def entry_text(q):
    a, b, d = q
    if d != 1:
        return '%d/%d' % (a, d) if b == 0 else '(%s)/%d' % (entry_text([a, b, 1]), d)
    if b == 0:
        return str(a)
    im = ('i' if abs(b) == 1 else '%d*i' % abs(b))
    if a == 0:
        return ('-' if b < 0 else '') + im
    return '%d%s%s' % (a, '-' if b < 0 else '+', im)


def dec_text(a, d):
    from decimal import Decimal, getcontext
    getcontext().prec = 40
    t = '{:f}'.format(Decimal(a) / Decimal(d))
    return t.rstrip('0').rstrip('.') if '.' in t else t


def scalar_text(q, bare=False):
    a, b, d = q
    if b == 0:
        if d == 1:
            t = str(a)
        else:
            t = dec_text(a, d)                 # d = 2^j or 10^j: exact finite decimal text
        simple = a >= 0
    else:
        if d == 1:
            t = entry_text(q)
        else:
            t = '(%s)/%d' % (entry_text([a, b, 1]), d)
        simple = False
    return t if (simple or bare) else '(' + t + ')'


def array_text(a):
    if is_scalar(a):
        return scalar_text(a['e'][0])
    sh = a['sh']

    def rec(level, flat):
        if level == len(sh) - 1:
            return '[' + ','.join(entry_text(q) for q in flat) + ']'
        step = len(flat) // sh[level]
        return '[' + ','.join(rec(level + 1, flat[i * step:(i + 1) * step]) for i in range(sh[level])) + ']'
    return rec(0, a['e'])


def source_text(q, src):
    """the scalar q = (a + b i)/d written as the value of a function call / negated call / product (MC: Sources)"""
    a, b, d = q
    plain = scalar_text(q, bare=True)
    minus = scalar_text([-a, -b, d], bare=True)
    if src == 'paren':
        return '(%s)' % plain
    if src == 'det':
        return 'det([[%s,0],[0,1]])' % plain
    if src == 'trace':
        return 'trace([[%s,0],[0,0]])' % plain
    if src == 'negdet':
        return '(-det([[%s,0],[0,1]]))' % minus
    if src == 'conj':
        return 'conj(%s)' % scalar_text([a, -b, d], bare=True)
    if src == 'dot':
        return '([%s,0]*[1,0])' % plain
    assert b == 0
    if src == 're':
        return 're(%s+i)' % plain
    if src == 'abs':
        return 'abs(%s)' % minus
    if src == 'negabs':
        return '(-abs(%s))' % plain
    if src == 'sqrt':
        f = Fraction(a, d) ** 2
        return 'sqrt(%s)' % (str(f.numerator) if f.denominator == 1 else repr(f.numerator / f.denominator))
    if src == 'norm':
        return 'norm([%s,0])' % plain
    raise ValueError(src)


def source_applies(q, src, op='+', side='left'):
    a, b, d = q
    if src in ('det', 'negdet') and op == '^' and side == 'right':
        return False        # numpy: det([[3,0],[0,1]]) = 3.0000000000000004, not an exact integer exponent
    if src in ('paren', 'det', 'trace', 'negdet', 'conj', 'dot'):
        return True
    if b != 0:
        return False
    if src == 're':
        return True
    return a < 0 if src == 'negabs' else a >= 0


ALL_SOURCES = ['det', 'trace', 'negdet', 'conj', 're', 'abs', 'negabs', 'sqrt', 'norm', 'dot', 'paren']
_FUNCS = []


def all_functions():
    if not _FUNCS:
        from mitxgraders.helpers.calc.mathfuncs import DEFAULT_FUNCTIONS, ARRAY_ONLY_FUNCTIONS, merge_dicts
        _FUNCS.append(merge_dicts(DEFAULT_FUNCTIONS, ARRAY_ONLY_FUNCTIONS))
    return _FUNCS[0]


def source_forms(op, x, y, side, src):
    """formula strings in which the scalar operand (x if side == 'left' else y) is the value of a function call"""
    from mitxgraders.helpers.calc.expressions import evaluator
    from mitxgraders.helpers.calc.mathfuncs import DEFAULT_VARIABLES
    sc, arr = (x, y) if side == 'left' else (y, x)
    stxt = source_text(sc['e'][0], src)
    lit = '%s%s%s' % ((stxt, op, array_text(arr)) if side == 'left' else (array_text(arr), op, stxt))
    var = '%s%sY' % (stxt, op) if side == 'left' else 'Y%s%s' % (op, stxt)

    def var_thunk():
        vs = dict(DEFAULT_VARIABLES)
        vs['Y'] = to_py(arr, 'float', 'float')
        return evaluator(var, variables=vs, functions=all_functions())[0]
    return [('string-call/%s/literal' % src, lambda: evaluator(lit, variables=DEFAULT_VARIABLES, functions=all_functions())[0]),
            ('string-call/%s/variable' % src, var_thunk)], lit


def near_forms(x, c, neg, allowed_val):
    """exponent (base*10^p + d)/10^p written as a sum base+delta, or carried by a zero-dimensional MathArray"""
    import numpy as np
    from mitxgraders.helpers.calc.expressions import evaluator
    from mitxgraders.helpers.calc.mathfuncs import DEFAULT_VARIABLES
    from mitxgraders.helpers.calc.math_array import MathArray
    base, d, p = c['base'], c['d'], c['p']
    delta = dec_text(abs(d), 10 ** p)
    sumtxt = '(%d%s%s)' % (base, '-' if d < 0 else '+', delta)
    yval = float(Fraction(base * 10 ** p + d, 10 ** p))
    atxt = array_text(x)
    forms = []
    if c['wr'] == 'sum':
        forms.append(('string-literal/sum', lambda: evaluator('%s^%s' % (atxt, sumtxt), variables=DEFAULT_VARIABLES)[0]))

        def var_thunk():
            vs = dict(DEFAULT_VARIABLES)
            vs['X'] = to_py(x, 'float', 'float')
            vs['t'] = float(Fraction(abs(d), 10 ** p))
            return evaluator('X^(%d%st)' % (base, '-' if d < 0 else '+'), variables=vs)[0]
        forms.append(('string-variable/sum', var_thunk))
        forms.append(('grader/sum', lambda: grader_form(x, {'sh': [], 'e': [[0, 0, 1]]}, neg, allowed_val, literal=False,
                                                        exponent_text=sumtxt)))
        ftxt = '%s^%s' % (atxt, sumtxt)
    else:
        for dt in ('int', 'float'):
            forms.append(('operator/%s/array0' % dt, lambda dt=dt: to_py(x, 'float', dt) ** MathArray(np.array(yval))))
            forms.append(('inplace/%s/array0' % dt,
                          lambda dt=dt: operator.ipow(to_py(x, 'float', dt), MathArray(np.array(yval)))))

        def var_thunk():
            vs = dict(DEFAULT_VARIABLES)
            vs['X'] = to_py(x, 'float', 'float')
            vs['Y'] = MathArray(np.array(yval))
            return evaluator('X^Y', variables=vs)[0]
        forms.append(('string-variable/array0', var_thunk))
        ftxt = '%s^MathArray(%r)' % (atxt, yval)
    return forms, ftxt


def frac_text(nd):
    n, d = nd
    return str(n) if d == 1 else '%d/%d' % (n, d)


def value_text(v):
    """spec value (exact Gaussian rationals) -> formula text, used as the author's answer in grader forms"""
    def ent(g):
        re, im = g
        t = frac_text(re)
        if im[0] != 0:
            t += '+(%s)*i' % frac_text(im)
        return t
    sh = v['sh']
    if not sh:
        return ent(v['e'][0])

    def rec(level, flat):
        if level == len(sh) - 1:
            return '[' + ','.join(ent(g) for g in flat) + ']'
        step = len(flat) // sh[level]
        return '[' + ','.join(rec(level + 1, flat[i * step:(i + 1) * step]) for i in range(sh[level])) + ']'
    return rec(0, v['e'])


# ---------------------------------------------------------------- observation
def classify_exc(e):
    from mitxgraders.exceptions import StudentFacingError
    if isinstance(e, StudentFacingError):
        return {'k': 'err', 'cls': type(e).__name__}
    return {'k': 'other', 'what': 'raised %s: %s' % (type(e).__name__, str(e)[:80])}


def flat_result(r):
    """library result -> (shape list, flat list of python complex) with one-element results as scalars; None if alien"""
    import numpy as np
    from numbers import Number
    if isinstance(r, bool):
        return None
    if isinstance(r, Number):
        return [], [complex(r)]
    if isinstance(r, np.ndarray):
        if r.dtype == object:
            return None
        if r.size == 1:
            return [], [complex(r.reshape(-1)[0])]
        return list(r.shape), [complex(z) for z in r.reshape(-1)]
    return None


def close(z, g):
    re = g[0][0] / g[0][1]
    im = g[1][0] / g[1][1]
    return abs(z.real - re) <= TOL * max(1.0, abs(re)) and abs(z.imag - im) <= TOL * max(1.0, abs(im))


def compare_value(r, v):
    """observed library result against the spec value -> 'ok' | 'wrong-shape:..' | 'wrong-value' | 'alien-result'"""
    fr = flat_result(r)
    if fr is None:
        return 'alien-result:%s' % type(r).__name__
    sh, flat = fr
    if sh != list(v['sh']):
        return 'wrong-shape:%s' % (tuple(sh),)
    if len(flat) != len(v['e']) or not all(close(z, g) for z, g in zip(flat, v['e'])):
        return 'wrong-value'
    return 'ok'


def rationalise(x, maxden=100000):
    import math
    if not math.isfinite(x):
        return None
    f = Fraction(x).limit_denominator(maxden)
    if abs(f.numerator) >= 2 ** 30 or abs(float(f) - x) > TOL * max(1.0, abs(x)):
        return None
    return [f.numerator, f.denominator]


def abstract_result(r):
    """library result -> obs record for the trace spec"""
    fr = flat_result(r)
    if fr is None:
        return {'k': 'other', 'what': 'alien result %s' % type(r).__name__}
    sh, flat = fr
    ent = []
    for z in flat:
        a, b = rationalise(z.real), rationalise(z.imag)
        if a is None or b is None:
            return {'k': 'unrep', 'what': 'value %r is not a small fraction' % (z,)}
        ent.append([a, b])
    return {'k': 'val', 'v': {'sh': sh, 'e': ent}}


class NegPowers(object):
    """the documented switch, as a with-block; enabled = True leaves the default untouched"""
    def __init__(self, enabled):
        self.enabled = enabled
        self.cm = None

    def __enter__(self):
        if not self.enabled:
            from mitxgraders.helpers.calc.math_array import MathArray
            self.cm = MathArray.enable_negative_powers(False)
            self.cm.__enter__()

    def __exit__(self, *a):
        if self.cm is not None:
            return self.cm.__exit__(*a)
        return False


def run_form(thunk, neg):
    """-> ('res', value) | ('exc', exception)"""
    try:
        with warnings.catch_warnings():
            warnings.simplefilter('ignore')
            with NegPowers(neg):
                return 'res', thunk()
    except Exception as e:  # classified by the caller
        return 'exc', e


def bin_forms(op, x, y, neg, allowed_val=None, grader=True, calls=False):
    """list of (form name, thunk) for a binary case; thunks return the library's result"""
    from mitxgraders.helpers.calc.expressions import evaluator
    from mitxgraders.helpers.calc.mathfuncs import DEFAULT_VARIABLES
    sx, sy = is_scalar(x), is_scalar(y)
    forms = []
    zero_div = op == '/' and sy and y['e'][0][0] == 0 and y['e'][0][1] == 0
    int_x = sx and q_is_int(x['e'][0])
    int_y = sy and q_is_int(y['e'][0])
    if not (sx and sy) and not zero_div:
        for dt in ('int', 'float'):
            styps = ['float'] + (['int'] if (int_x or int_y) else [])
            for st in styps:
                def mk(dt=dt, st=st):
                    return to_py(x, st, dt), to_py(y, st, dt)
                forms.append(('operator/%s/%s' % (dt, st), lambda mk=mk: OPFN[op](*mk())))
                if not sx:
                    forms.append(('inplace/%s/%s' % (dt, st), lambda mk=mk: IOPFN[op](*mk())))
                if sx and not sy:
                    forms.append(('reflected/%s/%s' % (dt, st),
                                  lambda mk=mk: (lambda a, b: getattr(b, RNAME[op])(a))(*mk())))
    sop = '^' if op == '^' else op
    bare_exp = op == '^' and sy and y['e'][0][1] == 0 and (sum(x['e'][0]) + len(x['e'])) % 2 == 0
    ytxt = scalar_text(y['e'][0], bare=True) if bare_exp else array_text(y)
    ftxt = '%s%s%s' % (array_text(x), sop, ytxt)
    forms.append(('string-literal', lambda: evaluator(ftxt, variables=DEFAULT_VARIABLES)[0]))
    for st in (['float', 'int'] if (int_x or int_y) else ['float']):
        def var_thunk(st=st):
            vs = dict(DEFAULT_VARIABLES)
            vs['X'] = to_py(x, st, 'float')
            vs['Y'] = to_py(y, st, 'int')
            return evaluator('X%sY' % sop, variables=vs)[0]
        forms.append(('string-variable/%s' % st, var_thunk))
    if grader and op == '^' and not sx and sy:
        forms.append(('grader', lambda: grader_form(x, y, neg, allowed_val, literal=(len(x['e']) % 2 == 0))))
        forms.append(('grader-dependent', lambda: grader_form(x, y, neg, allowed_val, literal=(len(x['e']) % 2 == 1),
                                                              dependent=True)))
    if calls and sx != sy:
        side = 'left' if sx else 'right'
        q = (x if sx else y)['e'][0]
        for src in [s for s in ALL_SOURCES if source_applies(q, s, op, side)]:
            forms += source_forms(op, x, y, side, src)[0]
    return forms, ftxt


class GraderSaid(object):
    """result of a MatrixGrader call, reduced to what the property speaks about"""
    def __init__(self, ok):
        self.ok = ok


def dependent_config():
    """a grader configuration with computed (dependent) variables: n drawn from a set, B and m computed from it"""
    from mitxgraders import DependentSampler
    return dict(variables=['n', 'B', 'm'],
                sample_from={'n': [2, 3], 'B': DependentSampler(depends=['n'], formula='n*X'),
                             'm': DependentSampler(depends=['n'], formula='n^2+1')})


def grader_form(x, y, neg, allowed_val, literal, dependent=False, exponent_text=None):
    """the student enters X^k (or the literal matrix ^k); the author's answer is the value the spec computed"""
    from mitxgraders import MatrixGrader
    answer = value_text(allowed_val) if allowed_val is not None else 'X'
    cfg = dict(answers=answer, max_array_dim=None, user_constants={'X': to_py(x, 'float', 'float')}, samples=1)
    if dependent:
        cfg.update(dependent_config())
    if not neg:
        cfg['negative_powers'] = False
    g = MatrixGrader(**cfg)
    base = array_text(x) if literal else 'X'
    res = g(None, '%s^%s' % (base, exponent_text or scalar_text(y['e'][0])))
    return GraderSaid(res['ok'])


def judge(kind_res, payload, allowed):
    """-> (verdict, detail, observed class name): verdict 'ok' or a violation class"""
    if kind_res == 'exc':
        o = classify_exc(payload)
        if o['k'] == 'other':
            return 'non-student-facing-exception', o['what'], None
        if allowed['k'] == 'err':
            return 'ok', None, o['cls']
        return 'refused-defined-operation', '%s: %s' % (o['cls'], str(payload)[:80]), o['cls']
    if isinstance(payload, GraderSaid):
        if allowed['k'] == 'err':
            return ('singular-matrix-not-refused' if allowed.get('why') == 'singular' else 'silent-accept',
                    'grader returned ok=%r instead of refusing' % (payload.ok,), None)
        return ('ok', None, None) if payload.ok is True else ('wrong-value', 'grader marked the spec value wrong', None)
    if allowed['k'] == 'err':
        fr = flat_result(payload)
        if allowed.get('why') == 'singular':
            return 'singular-matrix-not-refused', 'returned a result (largest entry %.3g)' % max(abs(z) for z in fr[1]), None
        return 'silent-accept', 'returned a result of shape %s' % (tuple(fr[0]) if fr else type(payload).__name__,), None
    c = compare_value(payload, allowed['v'])
    if c == 'ok':
        return 'ok', None, None
    return c.split(':')[0], c, None


# ---------------------------------------------------------------- chains
NAMES = ['a', 'b', 'c', 'd', 'f', 'g', 'h', 'k']


def chain_texts(xs, ops, grp):
    lit, var = [], []
    for i, x in enumerate(xs):
        l, v = array_text(x), NAMES[i]
        if grp[0] and i + 1 == grp[0]:
            l, v = '(' + l, '(' + v
        if grp[0] and i + 1 == grp[1]:
            l, v = l + ')', v + ')'
        lit.append(l)
        var.append(v)
    f1, f2 = lit[0], var[0]
    for i, o in enumerate(ops):
        f1 += o + lit[i + 1]
        f2 += o + var[i + 1]
    return f1, f2


def chain_forms(xs, ops, grp):
    from mitxgraders.helpers.calc.expressions import evaluator
    from mitxgraders.helpers.calc.mathfuncs import DEFAULT_VARIABLES
    f1, f2 = chain_texts(xs, ops, grp)

    def var_thunk():
        vs = dict(DEFAULT_VARIABLES)
        for i, x in enumerate(xs):
            vs[NAMES[i]] = to_py(x, 'int', 'float' if i % 2 else 'int')
        return evaluator(f2, variables=vs)[0]
    return [('string-literal', lambda: evaluator(f1, variables=DEFAULT_VARIABLES)[0]), ('string-variable', var_thunk)], f1


# ---------------------------------------------------------------- scope histories
SCOPE_A = {'sh': [2, 2], 'e': [[1, 0, 1], [2, 0, 1], [3, 0, 1], [4, 0, 1]]}
SCOPE_INV = {'sh': [2, 2], 'e': [[[-2, 1], [0, 1]], [[1, 1], [0, 1]], [[3, 2], [0, 1]], [[-1, 2], [0, 1]]]}
SCOPE_SQ = {'sh': [2, 2], 'e': [[[7, 1], [0, 1]], [[10, 1], [0, 1]], [[15, 1], [0, 1]], [[22, 1], [0, 1]]]}


def scope_call(call, graders):
    """-> 'value' | 'error' | 'other:...'"""
    A = to_py(SCOPE_A, 'int', 'int')
    try:
        with warnings.catch_warnings():
            warnings.simplefilter('ignore')
            if call == 'op_neg':
                return 'value' if compare_value(A ** -1, SCOPE_INV) == 'ok' else 'other:wrong value'
            if call == 'op_pos':
                return 'value' if compare_value(A ** 2, SCOPE_SQ) == 'ok' else 'other:wrong value'
            if call == 'gdd_neg':
                r = graders['disd_inv'](None, 'A^-1')
            elif call == 'gdd_pos':
                r = graders['disd_sq'](None, 'A^2')
            elif call == 'ged_neg':
                r = graders['end_inv'](None, 'A^(-1)')
            elif call == 'gd_neg':
                r = graders['dis_inv'](None, 'A^-1')
            elif call == 'gd_pos':
                r = graders['dis_sq'](None, 'A^2')
            elif call == 'gd_shape':
                r = graders['dis_sq'](None, 'A+[1,2,3]')
            else:
                r = graders['en_inv'](None, 'A^(-1)')
            return 'value' if r['ok'] is True else 'other:graded %r' % (r['ok'],)
    except Exception as e:
        o = classify_exc(e)
        return 'error' if o['k'] == 'err' else 'other:' + o['what']


def scope_graders():
    from mitxgraders import MatrixGrader, DependentSampler
    A = to_py(SCOPE_A, 'int', 'float')

    def dep():
        return dict(variables=['n', 'B'], sample_from={'n': [2, 3], 'B': DependentSampler(depends=['n'], formula='n*A')})
    return {'disd_inv': MatrixGrader(answers=value_text(SCOPE_INV), user_constants={'A': A}, negative_powers=False,
                                     max_array_dim=2, samples=1, **dep()),
            'disd_sq': MatrixGrader(answers=value_text(SCOPE_SQ), user_constants={'A': A}, negative_powers=False,
                                    max_array_dim=2, samples=2, **dep()),
            'end_inv': MatrixGrader(answers=value_text(SCOPE_INV), user_constants={'A': A}, max_array_dim=2,
                                    samples=1, **dep()),
            'dis_inv': MatrixGrader(answers=value_text(SCOPE_INV), user_constants={'A': A}, negative_powers=False,
                                    max_array_dim=2, samples=1),
            'dis_sq': MatrixGrader(answers=value_text(SCOPE_SQ), user_constants={'A': A}, negative_powers=False,
                                   max_array_dim=2, samples=1),
            'en_inv': MatrixGrader(answers=value_text(SCOPE_INV), user_constants={'A': A}, max_array_dim=2, samples=1)}


# ---------------------------------------------------------------- array literals (behind the property; drift only)
def lit_text(t, counter):
    if t['k'] == 'num':
        counter[0] += 1
        return str(counter[0])
    return '[' + ','.join(lit_text(x, counter) for x in t['xs']) + ']'


def lit_observe(t):
    """-> ('sh', shape list) | ('ragged',) | ('other', text)"""
    import numpy as np
    from mitxgraders.helpers.calc.expressions import evaluator
    from mitxgraders.helpers.calc.math_array import MathArray
    counter = [0]
    text = lit_text(t, counter)
    try:
        v = evaluator(text)[0]
    except Exception as e:
        o = classify_exc(e)
        return (('ragged',) if o['k'] == 'err' else ('other', o['what'])), text
    if not isinstance(v, MathArray):
        return ('other', 'result is %s' % type(v).__name__), text
    if [int(round(z.real)) for z in v.reshape(-1).astype(complex)] != list(range(1, counter[0] + 1)):
        return ('other', 'entries reordered'), text
    return ('sh', list(v.shape)), text


# ---------------------------------------------------------------- spec -> code replay (runs in worker processes)
def case_of_state(c):
    """normalise a dumped case: kind pow -> bin"""
    if c['kind'] == 'pow':
        return {'kind': 'bin', 'op': '^', 'neg': c['neg'], 'x': {'sh': [2, 2], 'e': list(c['r1']) + list(c['r2'])},
                'y': c['y'], 'part': 'pow'}
    if c['kind'] == 'near':
        d = {'kind': 'bin', 'op': '^', 'neg': c['neg'], 'x': c['m'], 'y': c['y'], 'part': 'near'}
        if c['wr'] != 'decimal':
            d['near'] = {k: c[k] for k in ('wr', 'base', 'd', 'p')}
        return d
    if c['kind'] == 'scaled':
        return {'kind': 'bin', 'op': '^', 'neg': c['neg'], 'x': c['x'], 'y': c['y'], 'part': 'scaled'}
    if c['kind'] == 'src':
        x, y = (c['s'], c['a']) if c['side'] == 'left' else (c['a'], c['s'])
        return {'kind': 'bin', 'op': c['op'], 'neg': True, 'x': x, 'y': y, 'part': 'src', 'side': c['side'],
                'src': c['src']}
    d = dict(c)
    d['part'] = c['kind']
    return d


def replay_states(states, extra):
    from engine import repo
    repo.activate()
    out = {'n': 0, 'evals': 0, 'keys': set(), 'bad': [], 'drift': {}, 'samples': [], 'cov': {}}
    graders = None
    for st in states:
        c = st['c']
        if c['kind'] == 'seed':
            continue
        if c['kind'] == 'scope':
            if c['inside'] != 'none' or not c['hist']:
                continue
            if graders is None:
                graders = scope_graders()
            out['n'] += 1
            prev, out['prev_hist'] = out.get('prev_hist'), c['hist']
            for i, call in enumerate(c['hist']):
                obs = scope_call(call, graders)
                out['evals'] += 1
                out['keys'].add(('scope', call, st['out'][i]))
                if obs != st['out'][i]:
                    add_bad(out, {'kind': 'scope', 'hist': c['hist'], 'step': i + 1, 'call': call,
                                  'allowed': st['out'][i], 'observed': obs, 'replayed_just_before': prev,
                                  'class': 'negative-power-switch-leaks' if st['out'][i] == 'value' else 'negative-power-not-refused'})
                    break
            continue
        if c['kind'] == 'lit':
            out['n'] += 1
            out['evals'] += 1
            obs, text = lit_observe(c['t'])
            want = ('sh', list(st['out']['sh'])) if st['out']['k'] == 'sh' else ('ragged',)
            out['keys'].add(('lit', want[0], len(want[1]) if len(want) > 1 else 0))
            if obs != want:
                k = 'array literal %s: model says %s, code gives %s' % (text, want, obs)
                out['drift'][k] = out['drift'].get(k, 0) + 1
            continue
        allowed = st['out']
        if allowed['k'] == 'nopred':
            continue
        case = case_of_state(c)
        out['n'] += 1
        replay_case(case, allowed, out)
    out['keys'] = sorted(out['keys'])
    out.pop('prev_hist', None)
    return out


def add_bad(out, sig):
    if len(out['bad']) < 60:
        out['bad'].append(sig)
    else:
        out['bad'].append(None)


def rank_name(a):
    return ['scalar', 'vector', 'matrix', 'tensor'][min(len(a['sh']), 3)]


def replay_case(case, allowed, out):
    if case['kind'] == 'bin' and 'near' in case:
        forms, ftxt = near_forms(case['x'], case['near'], case['neg'], allowed['v'] if allowed['k'] == 'val' else None)
        neg = case['neg']
        key = ('near', case['near']['wr'], case['near']['d'], allowed['k'], allowed.get('why', ''))
    elif case['kind'] == 'bin' and 'src' in case:
        forms, ftxt = source_forms(case['op'], case['x'], case['y'], case['side'], case['src'])
        neg = True
        key = ('src', case['op'], case['side'], case['src'], allowed['k'], allowed.get('why', ''))
    elif case['kind'] == 'bin':
        forms, ftxt = bin_forms(case['op'], case['x'], case['y'], case['neg'],
                                allowed['v'] if allowed['k'] == 'val' else None)
        neg = case['neg']
        key = (case['part'], case['op'], rank_name(case['x']), rank_name(case['y']), allowed['k'],
               allowed.get('why', ''))
    else:
        forms, ftxt = chain_forms(case['xs'], case['ops'], case['grp'])
        neg = True
        key = ('chain', len(case['xs']), ''.join(case['ops']), allowed['k'], allowed.get('why', ''))
    out['keys'].add(key)
    cov = out['cov']
    cov[allowed['k']] = cov.get(allowed['k'], 0) + 1
    if allowed['k'] == 'err':
        cov['err:' + allowed['why']] = cov.get('err:' + allowed['why'], 0) + 1
    if len(out['samples']) < 1:
        out['samples'].append({'case': ftxt, 'neg_powers': neg, 'allowed': allowed['k'], 'forms': [f for f, _ in forms]})
    for name, thunk in forms:
        kind_res, payload = run_form(thunk, neg)
        out['evals'] += 1
        verdict, detail, cls = judge(kind_res, payload, allowed)
        if verdict != 'ok':
            sig = {'kind': case['kind'], 'form': name, 'formula': ftxt, 'neg_powers': neg,
                   'allowed': allowed['k'] + (':' + allowed['why'] if allowed['k'] == 'err' else ''),
                   'observed': detail, 'class': verdict}
            if case['kind'] == 'bin':
                sig.update(op=case['op'], x=case['x'], y=case['y'])
                if 'src' in case:
                    sig.update(side=case['side'], src=case['src'])
                if allowed.get('why') == 'zero-division':
                    sig['class'] = 'zero-divisor-' + verdict
            else:
                sig.update(xs=case['xs'], ops=case['ops'], grp=case['grp'])
            add_bad(out, sig)
        elif cls is not None and not name.startswith('grader') and case['kind'] == 'bin':
            want = WHY_CLASS.get(allowed.get('why'))
            if want and cls != want:
                k = '%s raised as %s (model of the implementation says %s)' % (allowed['why'], cls, want)
                out['drift'][k] = out['drift'].get(k, 0) + 1


# ---------------------------------------------------------------- code -> spec: random larger cases
def rand_entry(rng, cplx, lo=-3, hi=3):
    return [rng.randint(lo, hi), rng.randint(-2, 2) if cplx else 0, 1]


def rand_array(rng, sh, cplx, sparse=False):
    n = 1
    for k in sh:
        n *= k
    e = [rand_entry(rng, cplx) for _ in range(n)]
    if sparse:
        e = [q if rng.random() < .6 else [0, 0, 1] for q in e]
    return {'sh': list(sh), 'e': e}


def rand_scalar(rng, kind=None):
    kind = kind or rng.choice(['zero', 'int', 'int', 'half', 'cplx'])
    if kind == 'zero':
        return {'sh': [], 'e': [[0, 0, 1]]}
    if kind == 'int':
        return {'sh': [], 'e': [[rng.choice([-4, -3, -2, -1, 1, 2, 3, 4, 5]), 0, 1]]}
    if kind == 'half':
        return {'sh': [], 'e': [[rng.choice([-5, -3, -1, 1, 3, 5, 7]), 0, rng.choice([2, 4])]]}
    return {'sh': [], 'e': [[rng.randint(-2, 2), rng.choice([-2, -1, 1, 2]), 1]]}


def rand_shape(rng, maxd=6):
    r = rng.random()
    if r < .3:
        return [rng.randint(2, maxd)]
    if r < .9:
        while True:
            s = [rng.randint(1, maxd), rng.randint(1, maxd)]
            if s != [1, 1]:
                return s
    return [rng.randint(1, 3), rng.randint(1, 3), rng.randint(2, 3)]


def square_for_power(rng, n, cplx, singular, exp):
    """a square matrix (possibly multiplied by a large scalar) whose exp-th power stays inside TLC's integers (bounded
    by construction and checked with floating point estimates; this selects cases, it does not judge them)"""
    import math
    import numpy as np
    scales = {2: [1, 10, 100, 1000, (10, 10)], 3: [1, 7, 10, 30, (10, 10)], 4: [1, 7, 10]}.get(n, [1])
    kk = max(1, abs(exp))
    for _ in range(300):
        a = rand_array(rng, [n, n], cplx, sparse=n >= 4)
        sc = rng.choice(scales) if rng.random() < .5 else 1
        sr, si = sc if isinstance(sc, tuple) else (sc, 0)
        if singular:
            i, j = rng.sample(range(n), 2)
            r3 = rng.choice([r for r in range(n) if r not in (i, j)]) if n >= 3 and rng.random() < .6 else None
            for col in range(n):          # row i := 2 * row j   or   row j + row r3
                s1 = a['e'][j * n + col]
                s2 = a['e'][r3 * n + col] if r3 is not None else s1
                a['e'][i * n + col] = [s1[0] + s2[0], s1[1] + s2[1], 1]
        a['e'] = [[q[0] * sr - q[1] * si, q[0] * si + q[1] * sr, 1] for q in a['e']]
        m = np.array([complex(q[0], q[1]) for q in a['e']]).reshape(n, n)
        top = np.abs(m).max() * (2 if any(q[1] for q in a['e']) else 1)
        if exp >= 0:
            if (top ** kk) * (n ** (kk - 1)) * 4 < 2e9:
                return a
            continue
        if (top ** n) * math.factorial(n) * 2 >= 2e9:          # the determinant expansion itself
            continue
        if singular:
            return a
        det = np.linalg.det(m)
        if abs(det) < 0.5:
            continue
        adj = det * np.linalg.inv(m)
        big = (np.abs(adj).max() ** kk) * (n ** (kk - 1)) * (abs(det) ** kk)
        if abs(det) ** (2 * kk) <= 5e4 and big * 8 < 2e9:
            return a
    return None


def rand_bin_case(rng):
    op = rng.choice(['+', '-', '*', '*', '/', '^', '^'])
    cplx = rng.random() < .3
    neg = True
    if op in '+-':
        r = rng.random()
        sx = rand_shape(rng)
        if r < .45:
            sy = list(sx)
        elif r < .6:
            sy = list(reversed(sx)) if len(sx) == 2 else sx + [1]
        elif r < .75:
            sy = []
        else:
            sy = rand_shape(rng)
        x = rand_array(rng, sx, cplx)
        y = rand_scalar(rng, rng.choice(['zero', 'int', 'cplx'])) if sy == [] else rand_array(rng, sy, rng.random() < .3)
        if rng.random() < .3:
            x, y = y, x
    elif op == '*':
        r = rng.random()
        m, n, p = rng.randint(1, 6), rng.randint(2, 6), rng.randint(1, 6)
        if r < .15:
            x, y = rand_array(rng, [n], cplx), rand_array(rng, [n if rng.random() < .7 else rng.randint(2, 6)], cplx)
        elif r < .35:
            x, y = rand_array(rng, [max(m, 2) if n == 1 else m, n], cplx), rand_array(rng, [n if rng.random() < .7 else rng.randint(2, 6)], cplx)
        elif r < .5:
            x, y = rand_array(rng, [n if rng.random() < .7 else rng.randint(2, 6)], cplx), rand_array(rng, [n, p], cplx)
        elif r < .8:
            x = rand_array(rng, [m, n], cplx)
            y = rand_array(rng, [n if rng.random() < .75 else rng.randint(1, 6), p], rng.random() < .3)
        elif r < .9:
            x, y = rand_scalar(rng), rand_array(rng, rand_shape(rng), cplx)
            if rng.random() < .5:
                x, y = y, x
        else:
            x, y = rand_array(rng, rand_shape(rng), cplx), rand_array(rng, rand_shape(rng), cplx)
        for a in (x, y):
            if a['sh'] == [1, 1]:
                a['sh'] = [1, 2]
                a['e'] = a['e'] * 2
    elif op == '/':
        x = rand_array(rng, rand_shape(rng), cplx)
        y = rand_scalar(rng, rng.choice(['int', 'half', 'cplx'])) if rng.random() < .7 else rand_array(rng, rand_shape(rng, 3), False)
        if rng.random() < .1:
            x, y = rand_scalar(rng, 'int'), x
    else:
        neg = rng.random() < .7
        r = rng.random()
        if r < .7:
            n = rng.choice([2, 2, 3, 3, 4, 5])
            k = rng.choice([-4, -3, -2, -1, -1, 0, 1, 2, 3, 4] if n <= 3 else [-2, -1, -1, 0, 1, 2, 3])
            singular = rng.random() < .25
            x = square_for_power(rng, n, cplx, singular, k)
            if x is None:
                return None
            u = rng.random()
            if u < .12:
                y = rand_scalar(rng, rng.choice(['half', 'cplx']))
            elif u < .27:         # next to the integer k, at distance 10^-p: a non-integer all the same
                p10 = 10 ** rng.randint(3, 8)
                y = {'sh': [], 'e': [[k * p10 + rng.choice([-1, 1]), 0, p10]]}
            else:
                y = {'sh': [], 'e': [[k, 0, 1]]}
        elif r < .85:
            x = rand_array(rng, rand_shape(rng, 4), cplx)
            if len(x['sh']) == 2 and x['sh'][0] == x['sh'][1]:
                x['sh'] = [x['sh'][0]]
                x['e'] = x['e'][:x['sh'][0]]
            y = {'sh': [], 'e': [[rng.choice([-1, 0, 2]), 0, 1]]}
        else:
            x = rand_scalar(rng, 'int') if rng.random() < .5 else rand_array(rng, [2, 2], cplx)
            y = rand_array(rng, rand_shape(rng, 3), False)
    for a in (x, y):
        if len(a['e']) == 1 and a['sh']:
            return None
    if is_scalar(x) and is_scalar(y):
        return None
    if op == '/' and is_scalar(y) and y['e'][0][0] == 0 and y['e'][0][1] == 0:
        return None
    return {'kind': 'bin', 'op': op, 'x': x, 'y': y, 'neg': neg}


def rand_chain_case(rng):
    n = rng.randint(2, 4)
    L = rng.randint(3, 6)
    cplx = rng.random() < .25
    xs = []
    for _ in range(L):
        r = rng.random()
        if r < .25:
            xs.append(rand_scalar(rng, rng.choice(['int', 'half', 'cplx'])))
        elif r < .65:
            xs.append(rand_array(rng, [n], cplx, ) if rng.random() < .93 else rand_array(rng, [n + 1], cplx))
        else:
            a = rand_array(rng, [n, n], cplx)
            a['e'] = [[max(-2, min(2, q[0])), q[1], 1] for q in a['e']]
            xs.append(a)
    ops = [('/' if (is_scalar(xs[i + 1]) and rng.random() < .5) or rng.random() < .03 else '*') for i in range(L - 1)]
    for i, o in enumerate(ops):          # no division by the number zero
        y = xs[i + 1]
        if o == '/' and is_scalar(y) and y['e'][0][0] == 0 and y['e'][0][1] == 0:
            ops[i] = '*'
    grp = [0, 0]
    if rng.random() < .5:
        p = rng.randint(1, L - 1)
        q = rng.randint(p + 1, min(L, p + 3))
        if not (p == 1 and q == L):
            grp = [p, q]
    return {'kind': 'chain', 'xs': xs, 'ops': ops, 'grp': grp, 'neg': True}


def rand_cases(rng, n):
    out = []
    while len(out) < n:
        c = rand_chain_case(rng) if rng.random() < .25 else rand_bin_case(rng)
        if c is None:
            continue
        c['id'] = len(out)
        c['pick'] = rng.random()
        out.append(c)
    return out


def observe_chunk(cases, extra):
    """run each random case through one form chosen by the driver, record the abstracted observation"""
    from engine import repo
    repo.activate()
    recs = []
    for c in cases:
        if c['kind'] == 'bin':
            forms, ftxt = bin_forms(c['op'], c['x'], c['y'], c['neg'], grader=False, calls=True)
            called = [f for f in forms if f[0].startswith('string-call')]
            if called:          # a scalar operand: 40% of the picks render it as the value of a function call
                plain = [f for f in forms if not f[0].startswith('string-call')]
                forms = called if c['pick'] < .4 else plain
                c = dict(c, pick=(c['pick'] / .4 if c['pick'] < .4 else (c['pick'] - .4) / .6))
        else:
            forms, ftxt = chain_forms(c['xs'], c['ops'], c['grp'])
        name, thunk = forms[int(c['pick'] * len(forms)) % len(forms)]
        kind_res, payload = run_form(thunk, c['neg'])
        if kind_res == 'exc':
            o = classify_exc(payload)
            obs = {'k': 'err'} if o['k'] == 'err' else o
        else:
            obs = abstract_result(payload)
        r = {k: c[k] for k in c if k != 'pick'}
        r.update(form=name, formula=ftxt, obs=obs)
        recs.append(r)
    return recs


def trace_violation_class(r, expected):
    o = r['obs']
    if o['k'] == 'other':
        return 'non-student-facing-exception' if 'raised' in o.get('what', '') else 'alien-result'
    if expected == 'err:singular':
        return 'singular-matrix-not-refused'
    if expected.startswith('err'):
        return 'silent-accept'
    if o['k'] == 'err':
        return 'refused-defined-operation'
    return 'wrong-value'


def validate_parallel(ctx, recs, jobs=8):
    """the trace specification is evaluated by single-worker TLC runs; several slices are validated side by side"""
    from concurrent.futures import ThreadPoolExecutor
    jobs = max(1, min(jobs, len(recs) // 200 or 1))
    slices = [recs[i::jobs] for i in range(jobs)]

    def one(i):
        return traces.validate(ctx, 'arrays/ArrayAlgebraTrace.tla', 'arrays/ArrayAlgebraTrace.cfg', slices[i],
                               name='trace%d' % i, timeout=3000)
    rej = {}
    with ThreadPoolExecutor(jobs) as ex:
        for r in ex.map(one, range(jobs)):
            rej.update(r)
    return rej


# ---------------------------------------------------------------- entry point
def report_bad(ctx, b):
    """one violation per (class, kind, operator, form family, refusal reason); further instances are only counted"""
    key = (b['class'], b['kind'], b.get('op', ''), str(b.get('form', b.get('call'))).split('/')[0], b['allowed'])
    seen = ctx.extra.setdefault('violation_instances', {})
    name = ' '.join(str(k) for k in key)
    seen[name] = seen.get(name, 0) + 1
    if seen[name] > 1:
        return
    what = '%s via %s (negative powers %s): spec allows %s, code: %s [%s]' % (
        b.get('formula', b.get('hist')), b.get('form', b.get('call')), 'on' if b.get('neg_powers', True) else 'off',
        b['allowed'], b['observed'], b['class'])
    ctx.violation(b, what)


def run(ctx):
    cov = {}
    drift = {}
    for part in PARTS:
        d = os.path.join(ctx.scratch, 'cases_' + part)
        ctx.tlc('arrays/MC_ArrayAlgebra.tla', 'arrays/MC_ArrayAlgebra_%s_%s.cfg' % (part, ctx.tier), dump=d,
                timeout=3000)
        res = dump.parallel(d + '.dump', 'engine.adapters.c14', 'replay_states')
        os.remove(d + '.dump')
        for r in res:
            ctx.traces_validated += r['n']
            ctx.evaluations += r['evals']
            for k in r['keys']:
                ctx.nontrivial.add(tuple(k))
            for s in r['samples']:
                ctx.sample(s)
            for k, v in r['cov'].items():
                cov[part + ':' + k] = cov.get(part + ':' + k, 0) + v
            for k, v in r['drift'].items():
                drift[k] = drift.get(k, 0) + v
            for b in r['bad']:
                if b is not None:
                    report_bad(ctx, b)
    for k, v in sorted(drift.items()):
        ctx.note_drift('%s (%d cases)' % (k, v))
    # code -> spec
    n = 4000 if ctx.quick else 40000
    cases = rand_cases(ctx.rng, n)
    recs = [r for chunk in dump.pmap('engine.adapters.c14', 'observe_chunk', cases) for r in chunk]
    rej = validate_parallel(ctx, recs)
    ctx.evaluations += len(recs)
    tcov = {}
    for r in recs:
        k = (r['kind'], r.get('op', 'chain'), r['obs']['k'])
        tcov['/'.join(k)] = tcov.get('/'.join(k), 0) + 1
        ctx.nontrivial.add(('trace',) + k + (r['form'].split('/')[0],))
    for r in recs[:2]:
        ctx.sample({'trace_record': {k: r[k] for k in ('formula', 'form', 'neg', 'obs')}})
    byid = {r['id']: r for r in recs}
    for i, expected in rej.items():
        r = byid[i]
        sig = {'kind': r['kind'], 'form': r['form'], 'formula': r['formula'], 'neg_powers': r['neg'],
               'allowed': expected, 'observed': r['obs'].get('what', r['obs']['k']),
               'class': trace_violation_class(r, expected)}
        for k in ('op', 'x', 'y', 'xs', 'ops', 'grp'):
            if k in r:
                sig[k] = r[k]
        report_bad(ctx, sig)
    ctx.extra['spec_outcomes_replayed'] = cov
    ctx.extra['trace_outcomes'] = tcov
    ctx.extra['bounds'] = {
        'tier': ctx.tier,
        'operand_shapes': 'scalar, vectors 2-4, m x n with m,n <= %d (no 1x1), %s' % (
            3 if ctx.quick else 4, '2x2x2 tensor' if ctx.quick else 'tensors 2x2x2 and 2x1x2'),
        'value_variants_per_shape': 6 if ctx.quick else 8, 'scalars': 10 if ctx.quick else 14,
        'pow_part': 'all 2x2 matrices over %s x %d exponents x switch on/off' % (
            '{-1,0,1,2} and {0,1,i}' if ctx.quick else '{-2..2} and {0,1,i,1+i,-i}', 8 if ctx.quick else 12),
        'chains': 'length 2-4 over scalars, vectors, square matrices (n=%s), one optional group' % (
            '2' if ctx.quick else '2,3'),
        'near_integer_exponents': '3 square matrices x bases -2..5 x distance +-1e-3..1e-9 (and 0) x switch on/off, written '
                                  'as decimal, as a sum, as a 0-dim MathArray; the random driver uses distances 1e-3..1e-8',
        'scaled_part': '12 base matrices (7 rank-deficient, 5 regular; 2x2-4x4, real and complex) x scalar factors '
                       '1/1000 .. 1000 and complex x exponents -3..-1 (and 2)',
        'scalar_sources': '11 renderings of a scalar operand (function calls det/trace/abs/sqrt/norm/re/conj, negated '
                          'calls, a dot product, parentheses) x scalars x arrays x 5 operators x both sides',
        'dependent_graders': 'grader forms and switch histories also with DependentSampler variables in sample_from',
        'literal_trees': 'bracket trees of depth <= 3 with <= 3 items per bracket (rectangular and ragged)',
        'scope_histories': 'all call histories of length <= %d over 6 call kinds' % (3 if ctx.quick else 4),
        'random_records': n, 'random_shapes': 'up to 6 x 6, tensors up to 3x3x3, chains of 3-6 operands, exponents -4..4'}
    ctx.assumptions += [
        'numpy dot / matrix_power / inv are trusted for floating-point accuracy; values are compared at 1e-9',
        'division of an array by the number 0 is exercised through formula strings only (the bare operator returns '
        'inf/nan entries with a numpy warning, about which the statement is silent)',
        'exponents are Python int / float / complex; numpy integer scalars and complex exponents with zero imaginary '
        'part are not generated (the statement names integer, integer-valued float, non-integer, negative)',
        'product chains contain scalars, vectors and square matrices only: with a single-column matrix a chain of '
        'three vectors is unambiguous and the statement does not say whether it must be refused',
        'a scalar written as det(...) is not used as an exponent (numpy: det([[3,0],[0,1]]) = 3.0000000000000004)',
        'one-element arrays are not generated as operands (quantifier: more than one element); one-element results '
        'are compared as numbers']


def replay(ctx, rec):
    """re-run the recorded case through its form and let the trace specification decide it"""
    from engine import repo
    repo.activate()
    sig = rec['signature']
    print('signature:', {k: sig[k] for k in sig if k not in ('x', 'y', 'xs')})
    if sig.get('kind') == 'scope':
        graders = scope_graders()
        obs = [scope_call(c, graders) for c in sig['hist'][:sig['step']]]
        print('observed:', obs, 'allowed at step %d: %s' % (sig['step'], sig['allowed']))
        return obs[-1] == sig['allowed']
    case = {k: sig[k] for k in ('kind', 'op', 'x', 'y', 'xs', 'ops', 'grp') if k in sig}
    case['neg'] = sig['neg_powers']
    if case['kind'] == 'bin':
        forms, ftxt = bin_forms(case['op'], case['x'], case['y'], case['neg'], grader=False, calls=True)
    else:
        forms, ftxt = chain_forms(case['xs'], case['ops'], case['grp'])
    thunk = dict(forms).get(sig['form']) or dict(forms)['string-literal']
    kind_res, payload = run_form(thunk, case['neg'])
    if kind_res == 'exc':
        o = classify_exc(payload)
        obs = {'k': 'err'} if o['k'] == 'err' else o
    else:
        obs = abstract_result(payload)
    r = dict(case)
    r.update(id=0, form=sig['form'], formula=ftxt, obs=obs)
    print('observed:', obs)
    rej = traces.validate(ctx, 'arrays/ArrayAlgebraTrace.tla', 'arrays/ArrayAlgebraTrace.cfg', [r])
    if rej:
        print('specification allows:', rej[0])
    return not rej
