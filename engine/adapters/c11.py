"""C11 -- a grader's verdict depends only on its configuration and the current call.

spec level : GraderCall.tla -- reference machine (lastSupplied) and the implementation-shaped life cycle of
             ItemGrader.__call__ / AbstractGrader.__call__; TLC checks SameAsFresh, NoStaleLog, CleanBetweenCalls,
             termination of every call, for every call history of length <= 3 / <= 4 over 6 expect kinds x 4 inputs,
             configured and unconfigured; two model variants with the original block order must violate
             SameAsFresh / NoStaleLog (documented findings, vacuity guard).
spec->code : every TLC history (from the dump's hist variable) is replayed on each item-grader class, with debug on
             and off; every call is compared with freshly constructed graders, with the model's object state
             (drift) and with snapshots of process-wide settings and the author's configuration dictionaries.
code->spec : long random sequences over many grader objects, recorded and validated by GraderCallTrace, where the
             reference machine in TLA+ decides which fresh answer each call must equal.
"""
import copy
import hashlib
import os
import random

from engine import dump, traces

KINDS = ('e1', 'e2', 'badInfer', 'badPost', 'badCheck')
INPUTS = ('right1', 'right2', 'wrong', 'malformed', 'nontext')


def specs():
    """per class: constructor, base config, concrete strings for every abstract expect kind / input kind"""
    from mitxgraders import (StringGrader, FormulaGrader, NumericalGrader, MatrixGrader, SingleListGrader,
                             IntervalGrader, RandomFunction)
    from mitxgraders import DiscreteSet
    from mitxgraders.helpers.calc import MathArray
    import numpy as np

    def dbl(a):                      # an author's function that works in place on what it is handed
        np.multiply(a, 2, out=a)
        return a

    def unit(v):
        v[:] = v / np.linalg.norm(v)
        return v
    return {
        'MatrixGrader+inplace-function': dict(
            cls=MatrixGrader,
            base=lambda: {'variables': ['x', 'M'], 'samples': 2, 'user_functions': {'dbl': dbl, 'unit': unit},
                          'sample_from': {'M': DiscreteSet((MathArray([[1., 2.], [3., 4.]]), MathArray([[0., 1.], [1., 0.]])))},
                          'user_constants': {'V': MathArray([3., 4.])}},
            e1='dbl(M)+0*x', e2='5*unit(V)+[x,x]', badCheck='dbl(M)+',
            right1='2*M', right2='V+[x,x]', wrong='M+unit(V)*unit(V)', malformed='dbl(M'),
        'FormulaGrader+RandomFunction': dict(
            cls=FormulaGrader, base=lambda: {'variables': ['x'], 'samples': 2, 'user_functions': {'h': RandomFunction()},
                                             'user_constants': {'c0': 2.5}},
            e1='h(x)+c0', e2='2*h(x)', badCheck='h(x)+',
            right1='c0+h(x)', right2='h(x)*2', wrong='h(x+1)', malformed='h(x,'),
        'MatrixGrader+suppress': dict(
            cls=MatrixGrader, base=lambda: {'variables': ['x'], 'samples': 2, 'suppress_matrix_messages': True},
            e1='[1,x]', e2='[x,1]', badCheck='[1,',
            right1='[1,x+0]', right2='[x,2-1]', wrong='[1,x,3]', malformed='[1,x'),
        'SingleListGrader+tuple-answers': dict(
            cls=SingleListGrader, base=lambda: {'subgrader': StringGrader()},
            configured_answers=lambda: (['a', 'b'], ['c', 'd']),
            e1='a,b', e2='c,d', badPost='a,,b',
            right1='b,a', right2='c,d', wrong='x,y', malformed='a,,'),
        'StringGrader': dict(cls=StringGrader, base=lambda: {'validation_pattern': '[a-z]+'},
                             e1='cat', e2='dog', badCheck='CAT9',
                             right1='cat', right2='dog', wrong='bird', malformed='###'),
        'FormulaGrader': dict(cls=FormulaGrader, base=lambda: {'variables': ['x'], 'samples': 3},
                              e1='x+1', e2='2*x', badCheck='x+',
                              right1='1+x', right2='x*2', wrong='x^2', malformed='x+*'),
        'NumericalGrader': dict(cls=NumericalGrader, base=lambda: {},
                                e1='3', e2='4', badCheck='3+',
                                right1='6/2', right2='2+2', wrong='5', malformed='3+*'),
        'MatrixGrader': dict(cls=MatrixGrader, base=lambda: {'variables': ['x'], 'samples': 2},
                             e1='[1,x]', e2='[x,1]', badCheck='[1,',
                             right1='[1,x+0]', right2='[x,2-1]', wrong='[0,0]', malformed='[1,x'),
        'SingleListGrader': dict(cls=SingleListGrader, base=lambda: {'subgrader': StringGrader()},
                                 e1='a,b', e2='c,d', badPost='a,,b',
                                 right1='b,a', right2='c,d', wrong='x,y', malformed='a,,'),
        'IntervalGrader': dict(cls=IntervalGrader, base=lambda: {},
                               e1='[1,2]', e2='(3,4)', badInfer='ab', badPost='{1,2}', badCheck='[1+,2]',
                               right1='[1,2]', right2='(3,4)', wrong='[5,6]', malformed='[1,2'),
    }


def seed():
    from mitxgraders.sampling import set_seed
    set_seed(20241004)


def strip_infer_line(msg):
    """debug text without markup and without the 'Expect value inferred' line (present only when the call carried
    an expect argument; it is not part of grading)"""
    plain = msg.replace('<br/>\n', '\n').replace('<br/>', '\n').replace('<pre>', '').replace('</pre>', '')
    return '\n'.join(l for l in plain.split('\n') if 'Expect value inferred to be' not in l)


def observe(g, expect, text):
    seed()
    try:
        r = g(expect, text)
    except Exception as e:  # noqa
        return ('exc', type(e).__name__, strip_infer_line(str(e)))
    return ('ok', repr(r.get('ok')), round(float(r.get('grade_decimal', -1)), 12), strip_infer_line(r.get('msg', '')))


def digest(o):
    return hashlib.md5(repr(o).encode('utf-8')).hexdigest()[:12]


def log_ok(obs, text, debug):
    if not debug or obs[0] != 'ok' or not isinstance(text, str):
        return True
    msg = obs[3]
    if msg.count('Student Response') != 1:
        return False
    after = msg.split('Student Response:', 1)[1]
    return after.split('\n')[1:2] == [text]


def globals_snapshot():
    import numpy as np
    from mitxgraders.helpers.calc import mathfuncs
    from mitxgraders.helpers.calc.math_array import MathArray
    import mitxgraders
    from mitxgraders.baseclasses import ObjectWithSchema

    def subclasses(c):
        out = []
        for s in c.__subclasses__():
            out.append(s)
            out += subclasses(s)
        return out
    tabs = []
    for name in ('DEFAULT_VARIABLES', 'DEFAULT_FUNCTIONS', 'DEFAULT_SUFFIXES', 'METRIC_SUFFIXES', 'ARRAY_ONLY_FUNCTIONS'):
        d = getattr(mathfuncs, name)
        tabs.append((name, tuple(sorted((k, id(v) if callable(v) else repr(v)) for k, v in d.items()))))
    classes = sorted(set(c for c in subclasses(ObjectWithSchema) if c.__module__.startswith('mitxgraders')),
                     key=lambda c: c.__module__ + c.__name__)
    return (tuple(tabs), MathArray._negative_powers, tuple(sorted(np.geterr().items())),
            tuple((c.__name__, repr(c.default_values)) for c in classes))


def make(spec, configured, debug):
    cfg = spec['base']()
    cfg['debug'] = debug
    if configured:
        cfg['answers'] = spec['configured_answers']() if 'configured_answers' in spec else spec['e1']
    keep = snapshot_cfg(cfg)
    g = spec['cls'](cfg)
    return g, cfg, keep


OPAQUE = ('subgrader', 'user_functions')


def freeze(v, depth=0):
    """value snapshot that compares with ==: containers become tuples, arrays their shape and entries, library objects
    with a configuration (sampling sets, graders) their class and frozen configuration, functions their identity"""
    import numpy as np
    if depth > 12:
        return ('deep', id(v))
    if isinstance(v, np.ndarray):
        return ('array', type(v).__name__, v.shape, repr(v.tolist()))
    if isinstance(v, dict):
        return ('dict', tuple(sorted(((repr(k), freeze(x, depth + 1)) for k, x in v.items()), key=lambda kv: kv[0])))
    if isinstance(v, (list, tuple)):
        return (type(v).__name__, tuple(freeze(x, depth + 1) for x in v))
    if isinstance(v, (set, frozenset)):
        return ('set', tuple(sorted(repr(x) for x in v)))
    if hasattr(v, 'config') and isinstance(getattr(v, 'config', None), dict):
        return ('object', type(v).__name__, id(v), freeze(v.config, depth + 1))
    if callable(v):
        return ('callable', id(v))
    return ('value', type(v).__name__, repr(v))


def snapshot_cfg(cfg):
    """value snapshot of the author's configuration; grader / function objects are compared by identity"""
    return {k: (freeze(v) if k not in OPAQUE else (id(v), sorted(v) if isinstance(v, dict) else None))
            for k, v in cfg.items()}


def config_unchanged(cfg, keep):
    return snapshot_cfg(cfg) == keep


def scopes_snapshot(g):
    """the variable / function / constant scopes a math grader hands to the evaluator (names and object identity)"""
    out = []
    for name in ('functions', 'random_funcs', 'constants', 'suffixes'):
        d = getattr(g, name, None)
        if isinstance(d, dict):
            out.append((name, tuple(sorted((k, id(v) if callable(v) else repr(v)) for k, v in d.items()))))
    return tuple(out)


def project_state(g):
    try:
        return [bool(g.config['answers']), bool(g.inferring_answers), bool(g.log_created)]
    except Exception:  # noqa
        return None


def replay_one(spec, configured, debug, hist, g0snap):
    """hist: list of dicts e, i, want, state.  -> (problems, drift)"""
    probs, drift = [], 0
    g, cfg, keep = make(spec, configured, debug)
    if not config_unchanged(cfg, keep):
        probs.append(('config', 'construction changed the author\'s configuration dictionary: %s -> %s' % (keep, snapshot_cfg(cfg))))
        keep = snapshot_cfg(cfg)
    scopes = scopes_snapshot(g)
    for n, h in enumerate(hist):
        e, i = h['e'], h['i']
        expect = None if e == 'none' else spec[e]
        text = 5 if i == 'nontext' else spec[i] + ' ' * (n + 1)
        obs = observe(g, expect, text)
        want = h['want']
        if want[0] == 'fresh':
            a = want[1]
            fg, _, _ = make(spec, configured, debug)
            ref = observe(fg, None if a == 'cfg' else spec[a], text)
        elif want[1] in ('no answers', 'input is not text') and e in ('none', 'e1', 'e2', 'badCheck'):
            fg, _, _ = make(spec, configured, debug)
            ref = observe(fg, expect if want[1] == 'input is not text' else None, text)
        else:
            fg, _, _ = make(spec, configured, debug)
            ref = observe(fg, expect, text)
        if 'BYSTANDER' in repr(obs):
            probs.append(('foreign-message', 'call %d (input %r) shows the message of another grader object: %s' % (n + 1, text, obs)))
        if obs != ref:
            probs.append(('fresh', 'call %d (expect %r, input %r): reused grader %s, fresh grader %s' % (n + 1, expect, text, obs, ref)))
        if not log_ok(obs, text, debug):
            probs.append(('log', 'call %d (input %r): returned debug log does not describe this call only: %r' % (n + 1, text, obs[3][:300])))
        st = project_state(g)
        ms = h['state']
        if st is None or st != [ms[0] != 'none', ms[1], ms[2]]:
            drift += 1
        if not config_unchanged(cfg, keep):
            probs.append(('config', 'call %d changed the author\'s configuration dictionary' % (n + 1)))
            keep = snapshot_cfg(cfg)
        if scopes_snapshot(g) != scopes:
            probs.append(('scopes', 'call %d changed the scopes the grader hands to the evaluator: %s -> %s' % (
                n + 1, [(a, [k for k, _ in b]) for a, b in scopes], [(a, [k for k, _ in b]) for a, b in scopes_snapshot(g)])))
            scopes = scopes_snapshot(g)
        if globals_snapshot() != g0snap:
            probs.append(('globals', 'call %d changed process-wide settings' % (n + 1)))
            g0snap = globals_snapshot()
    return probs, drift


def replay_chunk(items, extra):
    from engine import repo
    repo.activate()
    S = specs()
    snap = globals_snapshot()
    bad, drift, n = [], 0, 0
    for cname, configured, debug, hist in items:
        spec = S[cname]
        n += 1
        probs, d = replay_one(spec, configured, debug, hist, snap)
        drift += d
        for aspect, what in probs:
            if len(bad) < 60:
                bad.append({'cls': cname, 'configured': configured, 'debug': debug, 'aspect': aspect,
                            'history': [[h['e'], h['i']] for h in hist], 'what': what})
    return {'n': n, 'bad': bad, 'drift': drift}


def collect_hists(states, extra):
    out = set()
    for st in states:
        if st['pc'] == 'idle' and len(st['hist']) == extra['maxlen']:
            out.add(tuple((h['e'], h['i'], tuple(h['want']), tuple(h['state'])) for h in st['hist']))
    return sorted(out)


# ---------------------------------------------------------------- random long sequences (trace validation)
def random_chunk(items, extra):
    from engine import repo
    repo.activate()
    from mitxgraders import MatrixGrader, ListGrader, StringGrader, FormulaGrader, NumericalGrader
    S = specs()
    recs = []
    for seed_, count, start in items:
        rng = random.Random(seed_)
        snap = globals_snapshot()
        objs = []
        for gi in range(6):
            cname = rng.choice(sorted(S))
            configured = rng.random() < 0.35
            debug = rng.random() < 0.4
            g, cfg, keep = make(S[cname], configured, debug)
            objs.append(dict(gid='g%d_%d' % (seed_ % 100000, gi), cname=cname, configured=configured, debug=debug,
                             g=g, cfg=cfg, keep=keep, n=0, scopes=scopes_snapshot(g)))
        # a debugging ListGrader that uses one of the observed graders as its subgrader: grading through the list
        # must leave the shared subgrader (its configuration, its debug setting, its answers) as it was
        host = objs[0]
        try:
            wrap = ListGrader(answers=[S[host['cname']]['e1'], S[host['cname']]['e2']], subgraders=host['g'],
                              ordered=True, debug=True)
        except Exception:  # noqa
            wrap = None
        # bystanders that share process-wide switches / subgraders with the graders under observation
        shared_sub = StringGrader()
        lg = ListGrader(answers=['a', 'b'], subgraders=shared_sub)
        mg = MatrixGrader(answers='[[1,0],[0,1]]', negative_powers=False, max_array_dim=2)
        mg2 = MatrixGrader(answers='[[1,0],[0,1]]', max_array_dim=2)
        ng = NumericalGrader(answers='1')
        reuse_cfg = {'variables': ['x'], 'answers': 'x+1'}
        from engine import bystanders
        extra_actions = bystanders.actions()
        for k in range(count):
            r = rng.random()
            if rng.random() < 0.15:
                rng.choice(extra_actions)()
            # at most ONE bystander action per observed call, so that whatever it leaves behind is still there
            # when the snapshot is taken (a later bystander call could repair it again)
            try:
                if r < 0.05:
                    mg(None, rng.choice(['[[1,0],[0,1]]^-1', '[[1,0],[0,1]]', '[[2,0],[0,2]]^-1/0']))
                elif r < 0.10:
                    mg2(None, rng.choice(['[[1,2],[2,4]]^-1', '[[1,2],[3,4]]^-1', '[[1,2],[2,4]]^-2*0', '[1,2]/0',
                                          '[[1,0],[0,1]]^0.5']))
                elif r < 0.14:
                    ng(None, rng.choice(['ln(0)', '1/0', '10^400', 'arcsin(2)', 'sqrt(-1)']))
                elif r < 0.18:
                    lg(None, [rng.choice(['a', 'b', 'c']), rng.choice(['a', 'b'])])
                elif r < 0.22:
                    FormulaGrader(reuse_cfg)
                elif r < 0.27 and wrap is not None:
                    hs = S[host['cname']]
                    wrap(None, [hs[rng.choice(['right1', 'wrong', 'malformed'])], hs[rng.choice(['right2', 'wrong'])]])
            except Exception:  # noqa
                pass
            o = rng.choice(objs)
            spec = S[o['cname']]
            kinds = ['none', 'none', 'e1', 'e2'] + [kk for kk in ('badInfer', 'badPost', 'badCheck') if kk in spec]
            e = rng.choice(kinds)
            i = rng.choice(INPUTS)
            o['n'] += 1
            text = 5 if i == 'nontext' else spec[i] + ' ' * o['n']
            expect = None if e == 'none' else spec[e]
            obs = observe(o['g'], expect, text)
            fresh = {}
            for a in ('cfg', 'e1', 'e2', 'badCheck', 'none', 'rejected'):
                if a == 'cfg' and not o['configured']:
                    continue
                if a in ('badCheck',) and a not in spec:
                    continue
                fg, _, _ = make(spec, o['configured'], o['debug'])
                if a == 'rejected':
                    if e not in ('badInfer', 'badPost'):
                        continue
                    fresh[a] = digest(observe(fg, expect, text))
                elif a == 'none':
                    fresh[a] = digest(observe(fg, None, text))
                elif a == 'cfg':
                    fresh[a] = digest(observe(fg, expect, text))
                else:
                    fresh[a] = digest(observe(fg, spec[a], text))
            now = globals_snapshot()
            recs.append({'id': start + k, 'gid': o['gid'], 'cls': o['cname'], 'configured': o['configured'],
                         'debug': o['debug'], 'e': e, 'i': i, 'expect': expect, 'text': text, 'obs': digest(obs),
                         'fresh': fresh, 'log_ok': log_ok(obs, text, o['debug']) and 'BYSTANDER' not in repr(obs),
                         'globals_ok': now == snap,
                         'config_ok': config_unchanged(o['cfg'], o['keep']) and scopes_snapshot(o['g']) == o['scopes'],
                         'obs_plain': repr(obs)[:300]})
            snap = now
            o['keep'] = snapshot_cfg(o['cfg'])
            o['scopes'] = scopes_snapshot(o['g'])
            if reuse_cfg != {'variables': ['x'], 'answers': 'x+1'}:
                recs[-1]['config_ok'] = False
                reuse_cfg = {'variables': ['x'], 'answers': 'x+1'}
    return recs


def register_defaults_roundtrip():
    """register_defaults / clear_registered_defaults leave no trace on other classes or later graders"""
    from mitxgraders import StringGrader, FormulaGrader
    probs = []
    before = globals_snapshot()
    base = StringGrader().config
    registered = {'case_sensitive': False}
    StringGrader.register_defaults(registered)
    changed = StringGrader().config['case_sensitive'] is False
    # a grader built with explicit options must not turn them into defaults for the next one
    explicit = StringGrader(answers='cat', wrong_msg='nope', strip=False, debug=True)
    after_explicit = StringGrader().config
    expected = dict(base, case_sensitive=False)
    if after_explicit != expected:
        probs.append('after register_defaults, options given to one StringGrader became defaults of the next: %s' % (
            {k: v for k, v in after_explicit.items() if expected.get(k) != v},))
    if StringGrader.default_values != {'case_sensitive': False} or registered != {'case_sensitive': False}:
        probs.append('constructing a grader changed the registered defaults: %s' % (StringGrader.default_values,))
    if explicit.config.get('case_sensitive') is not False:
        probs.append('registered default not applied to a grader with explicit options')
    other = FormulaGrader().config
    StringGrader.clear_registered_defaults()
    from mitxgraders.baseclasses import ItemGrader
    ItemGrader.register_defaults({'wrong_msg': 'registered'})
    try:
        FormulaGrader(answers='1', samples=3)
        sg = StringGrader()
        if sg.config['wrong_msg'] != 'registered' or 'samples' in sg.config:
            probs.append('defaults registered on ItemGrader: options of a FormulaGrader leaked into StringGrader: %s' % sg.config)
    except Exception as e:  # noqa
        probs.append('defaults registered on ItemGrader: constructing StringGrader after a FormulaGrader raised %s: %s' % (type(e).__name__, e))
    finally:
        ItemGrader.clear_registered_defaults()
    after_cfg = StringGrader().config
    if not changed:
        probs.append('register_defaults had no effect')
    if after_cfg != base:
        probs.append('clear_registered_defaults did not restore the defaults: %s' % after_cfg)
    if globals_snapshot() != before:
        probs.append('register/clear round trip left process-wide state changed')
    if 'case_sensitive' in other:
        probs.append('defaults registered on StringGrader leaked into FormulaGrader')
    return probs


def run(ctx):
    from engine.main import Machinery
    from engine import repo
    repo.activate()
    # 1. the model
    for cfg in ('unconf', 'conf'):
        ctx.tlc('graders/GraderCall.tla', 'graders/MC_GraderCall_%s_%s.cfg' % (cfg, ctx.tier), deadlock=False, timeout=6000)
    flaws = {}
    for flaw, inv in (('flaw_commit', 'SameAsFresh'), ('flaw_log', 'NoStaleLog')):
        r = ctx.tlc('graders/GraderCall.tla', 'graders/MC_GraderCall_%s.cfg' % flaw, deadlock=False, must_hold=False)
        if inv not in r.violated:
            raise Machinery('vacuity guard: model variant %s does not violate %s' % (flaw, inv))
        flaws[flaw] = inv
    ctx.extra['model_variants_violating'] = flaws
    # 2. spec -> code: TLC histories on every class
    maxlen = 2 if ctx.quick else 3
    items = []
    for cfgname, configured in (('unconf', False), ('conf', True)):
        d = os.path.join(ctx.scratch, 'gc_' + cfgname)
        ctx.tlc('graders/GraderCall.tla', 'graders/MC_GraderCall_%s_quick.cfg' % cfgname, deadlock=False, dump=d, timeout=6000)
        hs = set()
        for part in dump.parallel(d + '.dump', 'engine.adapters.c11', 'collect_hists', extra={'maxlen': maxlen}):
            hs.update(tuple(tuple(x) for x in h) for h in part)
        os.remove(d + '.dump')
        S = specs()
        for cname, spec in sorted(S.items()):
            for h in sorted(hs):
                if any(e != 'none' and e not in spec for (e, i, w, s) in h):
                    continue
                hist = [{'e': e, 'i': i, 'want': list(w), 'state': list(s)} for (e, i, w, s) in h]
                for debug in (False, True):
                    items.append((cname, configured, debug, hist))
    ctx.rng.shuffle(items)
    res = dump.pmap('engine.adapters.c11', 'replay_chunk', items)
    drift = 0
    for r in res:
        ctx.count(r['n'])
        ctx.traces_validated += r['n']
        drift += r['drift']
        for b in r['bad']:
            ctx.violation({'class': classify(b), 'cls': b['cls'], 'configured': b['configured'], 'debug': b['debug'],
                           'history': b['history'], 'aspect': b['aspect']}, '%s: %s' % (b['cls'], b['what']))
    for it in items[::max(1, len(items) // 2000)]:
        ctx.nontrivial.add((it[0], it[1], it[2], tuple((h['e'], h['i']) for h in it[3])))
    if drift:
        ctx.note_drift('%d calls: object fields (answers stored, inferring_answers, log_created) differ from the GraderCall model' % drift)
    ctx.sample({'class': items[0][0], 'configured': items[0][1], 'debug': items[0][2], 'history': items[0][3]})
    for p in register_defaults_roundtrip():
        ctx.violation({'class': 'register-defaults', 'what': p}, p)
    # 3. code -> spec
    nrec = 1500 if ctx.quick else 30000
    per = 100
    chunks = dump.pmap('engine.adapters.c11', 'random_chunk',
                       [(ctx.seed * 7907 + k, per, k * per) for k in range(nrec // per)])
    recs = [r for ch in chunks for r in ch]
    slim = [{k: r[k] for k in ('id', 'gid', 'configured', 'e', 'i', 'obs', 'fresh', 'log_ok', 'globals_ok', 'config_ok')}
            for r in recs]
    rej = traces.validate(ctx, 'graders/GraderCallTrace.tla', 'graders/GraderCallTrace.cfg', slim, timeout=6000)
    ctx.count(len(recs))
    byid = {r['id']: r for r in recs}
    ctx.sample({'trace_record': {k: recs[0][k] for k in ('cls', 'configured', 'debug', 'e', 'i', 'text', 'obs_plain')}})
    for rid, clause in rej.items():
        r = byid[rid]
        if clause == 'BADRECORD':
            raise Machinery('trace record lacks the fresh digest the reference machine asks for: %s' % r)
        b = {'cls': r['cls'], 'aspect': 'foreign-message' if 'BYSTANDER' in r['obs_plain'] else clause, 'what': clause,
             'history': [], 'debug': r['debug']}
        ctx.violation({'class': classify(b), 'cls': r['cls'], 'configured': r['configured'], 'debug': r['debug'],
                       'e': r['e'], 'i': r['i'], 'aspect': clause},
                      '%s %s: call (expect %r, input %r) -> %s: %s' % (r['cls'], r['gid'], r['expect'], r['text'], r['obs_plain'], clause))
    ctx.extra['bounds'] = {'history_length_model': 3 if ctx.quick else 4, 'history_length_replayed': maxlen,
                           'classes': sorted(specs()), 'histories_replayed': len(items), 'random_calls': len(recs)}
    ctx.assumptions += ['"what a fresh grader answers" is obtained by running freshly constructed graders with the same seed',
                        'debug text is compared after removing the "Expect value inferred" line (not part of grading)']


def classify(b):
    """stable class names for known findings"""
    if b['aspect'] == 'config' and b['cls'].startswith('IntervalGrader'):
        return 'intervalgrader-mutates-config'
    if b['aspect'] == 'foreign-message':
        return 'message-of-another-grader-object'
    if b['aspect'] in ('log', 'debug log mentions another call'):
        return 'stale-debug-log-after-failed-inference'
    if b['aspect'] in ('fresh', 'differs from a fresh grader') and any(h[0] == 'badPost' for h in b.get('history', [])):
        return 'half-stored-answers-after-failed-post-validation'
    return None


def replay(ctx, rec):
    print(rec['signature'])
    return False
