"""Shared by C03 / C10 (and usable by others): token ids <-> text, running the real evaluator / parser,
classifying what it did, comparing with ExprEval!Outcome."""
import math
import random

TOK_TEXT = {'n2': '2', 'n3': '3', 'x': 'x', 'y': 'x_1', 'u': 'u', 'k': 'k', 'f': 'f', 'g': 'g', 'pct': '%',
            'lp': '(', 'rp': ')', 'lb': '[', 'rb': ']', 'cm': ',', 'pl': '+', 'mi': '-', 'ti': '*', 'dv': '/',
            'pw': '^', 'br': '|'}
WORDY = {'n2', 'n3', 'x', 'y', 'u', 'k', 'f', 'g', 'pct'}
NUM_FORMS = {'n2': ['2', '2.', '2.0', '02', '2e0', '2E+0', '0.2e1', '20e-1', '2.00'],
             'n3': ['3', '3.', '3.0', '03', '3e0', '3E+0', '0.3e1', '30e-1', '.3e1']}

VARS = {'x': 5, 'x_1': 7}
SUFFIXES = {'k': 1000, '%': 0.01}


def scope():
    junk = [lambda a, b, c: a, lambda: 0, lambda a, b: b, lambda a: a]   # freed at once: their ids are up for reuse
    del junk
    funcs = {'f': lambda a: a + 1, 'g': lambda a, b: a - 2 * b}
    return dict(VARS), funcs, dict(SUFFIXES)


# spellings for the empty-scope part: the token alphabet's names spelled as names the library itself defines by default
EMPTY_TEXT = dict(TOK_TEXT, x='pi', u='i', f='sqrt', g='kronecker')   # same letters-only / not-letters-only split as TOK_TEXT


def render_tab(ids, empty=False):
    tt = EMPTY_TEXT if empty else TOK_TEXT
    return '\t'.join(tt[i] for i in ids)


def render_variant(ids, rng, empty=False):
    """same token sequence: no separator where tokens cannot merge, TAB/LF otherwise; alternative number
    literals; spaces sprinkled anywhere (spaces are deleted before lexing, also inside tokens)"""
    parts = []
    for j, i in enumerate(ids):
        t = rng.choice(NUM_FORMS[i]) if i in NUM_FORMS else (EMPTY_TEXT if empty else TOK_TEXT)[i]
        if j and (ids[j - 1] in WORDY and i in WORDY):
            parts.append(rng.choice(['\t', '\n', '\t \n']))
        elif j and rng.random() < 0.3:
            parts.append(rng.choice(['\t', ' ', '\n', '  ']))
        parts.append(t)
    s = ''.join(parts)
    out = []
    for ch in s:
        out.append(ch)
        if rng.random() < 0.15:
            out.append(' ')
    return ''.join(out)


def classify_exception(e):
    from mitxgraders.helpers.calc import exceptions as X
    n = type(e).__name__
    if isinstance(e, X.UnbalancedBrackets):
        return 'unbalanced'
    if isinstance(e, X.UnableToParse):
        return 'parse'
    if isinstance(e, X.UndefinedVariable):
        return 'undefvar'
    if isinstance(e, X.UndefinedFunction):
        return 'undefsuf' if 'directly after a number' in str(e) else 'undeffunc'
    if isinstance(e, X.CalcZeroDivisionError):
        return 'zerodiv'
    if isinstance(e, X.ArgumentError):
        return 'argerr'
    if isinstance(e, X.CalcOverflowError):
        return 'overflow'
    if isinstance(e, X.CalcError):
        return 'calcerr:' + n
    return 'other:' + n


COARSE = {'unbalanced': 'rejected', 'parse': 'rejected', 'undefvar': 'undefined', 'undeffunc': 'undefined',
          'undefsuf': 'undefined', 'zerodiv': 'evalerror', 'argerr': 'evalerror', 'overflow': 'evalerror'}


def coarse(c):
    if c.startswith('calcerr:'):
        return 'evalerror'
    return COARSE.get(c, c)


def observe(text, evaluator=None, sc=None):
    """-> dict(c=fine class, value=complex/float or None, vars, funcs, sufs)"""
    if evaluator is None:
        from mitxgraders.helpers.calc.expressions import evaluator
    v, f, s = sc or scope()
    try:
        val, usage = evaluator(text, v, f, s)
    except Exception as e:  # noqa
        return {'c': classify_exception(e), 'msg': str(e)[:200]}
    out = {'c': 'value', 'value': val, 'vars': sorted(usage.variables_used), 'funcs': sorted(usage.functions_used),
           'sufs': sorted(usage.suffixes_used)}
    return out


def num_eq(val, n, d):
    try:
        if hasattr(val, 'shape') and getattr(val, 'shape', ()) != ():
            return False
        want = n / d
        return abs(complex(val) - want) <= 1e-9 * max(1.0, abs(want))
    except Exception:  # noqa
        return False


def compare(out, obs):
    """out: spec Outcome (dict from the dump), obs: observe(...) ->
    list of (aspect, description); aspect in {'class', 'value', 'usage', 'fine'}"""
    problems = []
    sc, oc = out['c'], obs['c']
    if sc == 'nopred':
        # the spec makes no prediction about the value; the string is accepted by the grammar and fully in
        # scope, so the implementation must not reject it as unparsable / undefined
        if coarse(oc) == 'undefined' or oc == 'unbalanced' or (oc == 'parse' and not out.get('arr')):
            problems.append(('class', 'spec: accepted by the grammar and in scope; code: %s' % oc))
        elif oc == 'value':
            _usage(out, obs, problems)
        return problems
    if coarse(sc) != coarse(oc):
        problems.append(('class', 'spec: %s; code: %s' % (sc, oc)))
        return problems
    if sc != oc:
        problems.append(('fine', 'spec: %s; code: %s' % (sc, oc)))
    if sc == 'value':
        if not num_eq(obs['value'], out['q'][0], out['q'][1]):
            problems.append(('value', 'spec: %s/%s; code: %r' % (out['q'][0], out['q'][1], obs['value'])))
        _usage(out, obs, problems)
    return problems


def _usage(out, obs, problems):
    for key in ('vars', 'funcs', 'sufs'):
        if sorted(out.get(key, [])) != obs[key]:
            problems.append(('usage', '%s spec: %s; code: %s' % (key, sorted(out.get(key, [])), obs[key])))


def same_observation(a, b):
    if a['c'] != b['c']:
        return False
    if a['c'] != 'value':
        return True
    va, vb = a['value'], b['value']
    try:
        if hasattr(va, 'shape') or hasattr(vb, 'shape'):
            import numpy as np
            if np.shape(va) != np.shape(vb):
                return False
            return bool(np.allclose(np.asarray(va, dtype=complex), np.asarray(vb, dtype=complex), rtol=1e-12, atol=0, equal_nan=True))
        if isinstance(va, float) and math.isnan(va):
            return isinstance(vb, float) and math.isnan(vb)
        return abs(complex(va) - complex(vb)) <= 1e-12 * max(1.0, abs(complex(va)))
    except Exception:  # noqa
        return False
    return True


# ------------------------------------------------------------------ random derivations for trace validation
T_VARS = {'x': 5, 'x_1': 7, "y'": -3, 'T_{1}^{2}': 0.5, 'sin': 11}
T_SUFFIXES = {'k': 1000, '%': 0.01, 'm': 0.001}
NUMS = [('2', 2, 1), ('3', 3, 1), ('0.5', 1, 2), ('1.5', 3, 2), ('10', 10, 1), ('1e2', 100, 1), ('2.5e-1', 1, 4),
        ('.25', 1, 4), ('7.', 7, 1), ('0', 0, 1), ('4E1', 40, 1), ('1', 1, 1), ('12', 12, 1), ('2E+0', 2, 1)]


def t_scope():
    junk = [lambda a, b, c: a, lambda: 0, lambda a, b: b]          # freed at once: their ids are up for reuse
    del junk
    funcs = {'f': lambda a: a + 1, 'g': lambda a, b: a - 2 * b, 'x': lambda a: a * a}
    return dict(T_VARS), funcs, dict(T_SUFFIXES)


def tk_num(i):
    t, n, d = NUMS[i]
    return {'k': 'num', 's': '#', 'q': [n, d], 'a': False, 'text': t}


def tk_name(s):
    return {'k': 'name', 's': s, 'q': [0, 1], 'a': s.isalpha(), 'text': s}


def tk_op(s):
    return {'k': 'op', 's': s, 'q': [0, 1], 'a': False, 'text': s}


TK_PCT = {'k': 'pct', 's': '%', 'q': [0, 1], 'a': True, 'text': '%'}


def gen_atom(rng, depth):
    r = rng.random()
    if depth <= 0 or r < 0.35:
        toks = [tk_num(rng.randrange(len(NUMS)))]
        s = rng.random()
        if s < 0.12:
            toks.append(tk_name(rng.choice(['k', 'm', 'k', 'q'])))
        elif s < 0.2:
            toks.append(dict(TK_PCT))
        return toks
    if r < 0.6:
        return [tk_name(rng.choice(['x', 'x', 'x_1', "y'", 'T_{1}^{2}', 'sin', 'x', 'x_1'] + (['u', 'X', 't_{1}^{2}', "Y'", 'X_1'] if rng.random() < 0.15 else [])))]
    if r < 0.75:
        fn = rng.choice(['f', 'f', 'g', 'x'] + (['h'] if rng.random() < 0.2 else []))
        nargs = {'f': 1, 'g': 2, 'x': 1, 'h': 1}[fn]
        if rng.random() < 0.08:
            nargs += 1
        toks = [tk_name(fn), tk_op('(')]
        for i in range(nargs):
            if i:
                toks.append(tk_op(','))
            toks += gen_sum(rng, depth - 1)
        return toks + [tk_op(')')]
    if r < 0.97:
        return [tk_op('(')] + gen_sum(rng, depth - 1) + [tk_op(')')]
    toks = [tk_op('[')]
    for i in range(rng.randint(1, 3)):
        if i:
            toks.append(tk_op(','))
        toks += gen_sum(rng, depth - 2)
    return toks + [tk_op(']')]


def gen_pow(rng, depth):
    toks = gen_atom(rng, depth)
    while rng.random() < 0.18:
        toks.append(tk_op('^'))
        if rng.random() < 0.3:
            toks.append(tk_op('-'))
        toks += gen_atom(rng, depth - 1)
    return toks


def gen_neg(rng, depth):
    return ([tk_op('-')] if rng.random() < 0.2 else []) + gen_pow(rng, depth)


def gen_par(rng, depth):
    toks = gen_neg(rng, depth)
    while rng.random() < 0.1:
        toks += [tk_op('|'), tk_op('|')] + gen_neg(rng, depth)
    return toks


def gen_prod(rng, depth):
    toks = gen_par(rng, depth)
    while rng.random() < 0.35:
        toks += [tk_op(rng.choice('*/'))] + gen_par(rng, depth)
    return toks


def gen_sum(rng, depth):
    toks = ([tk_op('+')] if rng.random() < 0.05 else []) + gen_prod(rng, depth)
    while rng.random() < 0.4:
        toks += [tk_op(rng.choice('+-'))] + gen_prod(rng, depth)
    return toks


def corrupt(rng, toks):
    toks = list(toks)
    r = rng.random()
    pos = rng.randrange(len(toks) + 1)
    if r < 0.3 and toks:
        del toks[min(pos, len(toks) - 1)]
    elif r < 0.6:
        toks.insert(pos, tk_op(rng.choice(['+', '-', '*', '/', '^', '|', '(', ')', '[', ']', ','])))
    elif r < 0.8 and toks:
        toks.insert(pos, dict(toks[min(pos, len(toks) - 1)]))
    else:
        toks.insert(pos, rng.choice([tk_name('x'), tk_num(0), dict(TK_PCT), tk_name('u')]))
    return toks


def render_records(toks, rng=None):
    parts = []
    for j, t in enumerate(toks):
        wordy = t['k'] in ('num', 'name', 'pct')
        if j and wordy and toks[j - 1]['k'] in ('num', 'name', 'pct'):
            parts.append('\t' if rng is None else rng.choice(['\t', '\n', ' \t']))
        elif j and rng is not None and rng.random() < 0.2:
            parts.append(rng.choice([' ', '\t', '  ']))
        parts.append(t['text'])
    return ''.join(parts)


def rand_case(rng, rid, max_tokens=60):
    for _ in range(50):
        toks = gen_sum(rng, rng.randint(1, 4))
        if len(toks) <= max_tokens:
            break
    kind = 'derived'
    if rng.random() < 0.3:
        toks = corrupt(rng, toks)
        kind = 'corrupted'
        if rng.random() < 0.3 and toks:
            toks = corrupt(rng, toks)
    return {'id': rid, 'kind': kind, 'toks': [{k: t[k] for k in ('k', 's', 'q', 'a')} for t in toks],
            'text': render_records(toks, rng)}


def obs_record(obs):
    """reduce an observation to what the trace spec needs (no floats, every integer < 2^31)"""
    from fractions import Fraction
    c = obs['c']
    rec = {'c': 'calcerr' if c.startswith('calcerr:') else c, 'q': [0, 0], 'exact': False,
           'vars': obs.get('vars', []), 'funcs': obs.get('funcs', []), 'sufs': obs.get('sufs', [])}
    if c == 'value':
        v = obs['value']
        try:
            if hasattr(v, 'shape') and v.shape != ():
                raise ValueError
            z = complex(v)
            if z.imag == 0 and z.real == z.real and abs(z.real) < 1e7:
                fr = Fraction(z.real).limit_denominator(30000)
                if abs(fr.numerator) < 2 ** 30:
                    rec['q'] = [fr.numerator, fr.denominator]
                    rec['exact'] = abs(z.real - fr.numerator / fr.denominator) <= 1e-9 * max(1.0, abs(z.real))
        except Exception:  # noqa
            pass
    return rec


def trace_chunk(items, extra):
    """items: list of (seed, count, start_id) -> records"""
    from engine import repo
    repo.activate()
    from mitxgraders.helpers.calc.expressions import evaluator
    sc = t_scope()
    out = []
    for seed, count, start in items:
        rng = random.Random(seed)
        for k in range(count):
            case = rand_case(rng, start + k)
            if not case['text'].strip():
                continue
            if k % 2 == 0:
                sc = t_scope()    # new function objects of different arities under the same names
            o = observe(case['text'], evaluator, sc)
            case['obs'] = obs_record(o)
            out.append(case)
    return out
