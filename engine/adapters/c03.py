"""C03 -- formula strings evaluate to the value mathematics assigns them.

spec level : ExprGrammar (recursive descent over tokens), ExprEval (exact rationals), ExprLexer (characters);
             laws: canonical round trip, parentheses / leading plus transparency, usage consistency.
spec->code : every token string <= 4 (quick) / <= 5 (thorough) tokens over 20 tokens, every character string of
             the lexer model, every operator chain of MC_ExprOps: class, exact value, whitespace / number-format /
             space-insertion variants, canonical-form agreement under real and complex bindings.
code->spec : long random expressions recorded from evaluator() and validated by ExprTrace.
"""
import os
import random

from engine import dump, traces
from engine.adapters import exprlib as X


def replay_tokens(states, extra):
    from engine import repo
    repo.activate()
    from mitxgraders.helpers.calc.expressions import evaluator
    rng = random.Random(extra['seed'])
    empty = extra.get('scope') == 'empty'
    sc = ({}, {}, {}) if empty else X.scope()
    n = 0
    bad, fine = [], 0
    classes = {}
    sample = None
    for st in states:
        c = st['c']
        if c['kind'] != 'case':
            continue
        n += 1
        ids, out = c['ids'], st['out']
        text = X.render_tab(ids, empty)
        if empty:
            sc = ({}, {}, {})     # literally empty dictionaries, new ones every time
        elif n % 3 == 0:
            sc = X.scope()        # new function objects (old ones are freed: their ids get reused)
        obs = X.observe(text, evaluator, sc)
        classes[out['c']] = classes.get(out['c'], 0) + 1
        probs = X.compare(out, obs)
        # rendering independence: spaces anywhere, tabs / newlines between tokens, number formats
        text2 = X.render_variant(ids, rng, empty)
        obs2 = X.observe(text2, evaluator, sc)
        if not X.same_observation(obs, obs2) and text2.strip():
            probs.append(('render', 'rendering %r gives %s, rendering %r gives %s' % (text, obs['c'], text2, obs2['c'])))
        if sample is None and out['c'] == 'value' and len(ids) >= 3:
            sample = {'tokens': ids, 'text': text, 'spec': out, 'observed_class': obs['c'], 'variant': text2}
        for aspect, what in probs:
            if aspect == 'fine':
                fine += 1
                continue
            if aspect == 'usage':
                continue                      # usage exactness is property C10
            if len(bad) < 100:
                bad.append({'ids': ids, 'text': text, 'aspect': aspect, 'what': what, 'spec': out['c']})
    return {'n': n, 'bad': bad, 'fine': fine, 'classes': classes, 'sample': sample}


CHAR_VARS = {'x': 5, 'x1': 7, 'x_1': 11, "x'": 13, 'x_{1}': 17, 'x^{1}': 19, 'x_{1}^{1}': 23, 'e': 3, 'x_{-1}': 29,
             'xx': 31, 'x_': 37, 'x11': 41, "x''": 43, "x1'": 47}


# real characters for the abstract symbols of the "foreign" alphabet of MC_ExprChars
FOREIGN = {'FD': ['\uff11', '\u0663', '\u096d', '\u0e52', '\U0001d7d0'],           # digits (category Nd) of other scripts
           'FL': ['\u03c0', '\xe9', '\u0445', '\u212f', '\xb5', '\u0131'],        # pi, e-acute, Cyrillic ha, script e, micro, dotless i
           'FS': ['\xd7', '\u2212', '\xf7', '\xb7', '$', '#', '!', '&', '~', '\\', '=', ';', '"', '\xb2', '\u221a'],}


def char_text(chars, rng=None):
    if rng is None:
        return ''.join('\t' if ch == 'TAB' else FOREIGN[ch][0] if ch in FOREIGN else ch for ch in chars)
    out = []
    for ch in chars:
        out.append(rng.choice(['\t', '\n', '\r', '\t\n']) if ch == 'TAB' else rng.choice(FOREIGN[ch]) if ch in FOREIGN else ch)
        if rng.random() < 0.2:
            out.append(' ')
    return ''.join(out)


def replay_chars(states, extra):
    import math
    from engine import repo
    repo.activate()
    from mitxgraders.helpers.calc.expressions import evaluator
    rng = random.Random(extra['seed'])
    sc = (dict(CHAR_VARS), X.scope()[1], dict(X.SUFFIXES))
    n, bad, fine, classes, sample = 0, [], 0, {}, None
    for st in states:
        c = st['c']
        if c['kind'] != 'case':
            continue
        n += 1
        chars, out = c['chars'], st['out']
        text = char_text(chars)
        obs = X.observe(text, evaluator, sc)
        classes[out['c']] = classes.get(out['c'], 0) + 1
        if out['c'] == 'blank':
            ok = obs['c'] == 'value' and isinstance(obs['value'], float) and math.isnan(obs['value']) \
                and not (obs['vars'] or obs['funcs'] or obs['sufs'])
            probs = [] if ok else [('class', 'blank input must evaluate to nan with empty usage; code: %s' % obs['c'])]
        else:
            probs = X.compare(out, obs)
        text2 = char_text(chars, rng)
        obs2 = X.observe(text2, evaluator, sc)
        if not X.same_observation(obs, obs2):
            probs.append(('render', 'rendering %r gives %s, rendering %r gives %s' % (text, obs['c'], text2, obs2['c'])))
        if sample is None and out['c'] == 'value' and len(chars) >= 4:
            sample = {'chars': chars, 'text': text, 'spec': out, 'observed_class': obs['c']}
        for aspect, what in probs:
            if aspect == 'fine':
                fine += 1
            elif aspect != 'usage' and len(bad) < 100:
                bad.append({'chars': chars, 'text': text, 'aspect': aspect, 'what': what, 'spec': out['c']})
    return {'n': n, 'bad': bad, 'fine': fine, 'classes': classes, 'sample': sample}


def marked_indices(msg):
    """positions (1-based) of the characters wrapped in <mark> inside the <code> block of a bracket error"""
    i = msg.find('<code>')
    j = msg.rfind('</code>')
    if i < 0 or j < 0:
        return None
    body = msg[i + 6:j]
    out, pos, k = set(), 0, 0
    while k < len(body):
        if body.startswith('<mark>', k):
            out.add(pos + 1)
            k += 6
        elif body.startswith('</mark>', k):
            k += 7
        else:
            pos += 1
            k += 1
    return out


def replay_brackets(states, extra):
    from engine import repo
    repo.activate()
    from mitxgraders.helpers.calc.expressions import BracketValidator, evaluator
    from mitxgraders.helpers.calc.exceptions import UnbalancedBrackets
    n, bad, drift, kinds = 0, [], 0, {}
    for st in states:
        if st['status'] == 'scanning':
            continue
        n += 1
        text = ''.join(st['formula'])
        kinds[st['status']] = kinds.get(st['status'], 0) + 1
        try:
            BracketValidator.validate(text)
            got, marks = 'ok', set()
        except UnbalancedBrackets as e:
            got, marks = 'unbalanced', marked_indices(str(e))
        except Exception as e:  # noqa
            got, marks = 'other:' + type(e).__name__, None
        want = 'ok' if st['status'] == 'ok' else 'unbalanced'
        if got != want:
            if len(bad) < 50:
                bad.append({'text': text, 'what': 'bracket check on %r: spec %s (%s), code %s' % (text, want, st['status'], got)})
        elif want == 'unbalanced' and marks != set(st['marks']):
            drift += 1
        # the front door: an unbalanced string is rejected by evaluator() whatever else it contains
        if want == 'unbalanced' and text.strip():
            o = X.observe(text, evaluator, X.scope())
            if X.coarse(o['c']) != 'rejected' and len(bad) < 50:
                bad.append({'text': text, 'what': 'evaluator(%r): unbalanced brackets but outcome %s' % (text, o['c'])})
    return {'n': n, 'bad': bad, 'drift': drift, 'kinds': kinds}


OPS_BINDINGS = [
    {'a': 2, 'b': 3, 'c': 2, 'd': 5, 'e': 3},                                   # the model's exact binding
    {'a': 1.7, 'b': 0.6, 'c': 2.3, 'd': 1.1, 'e': 0.9},
    {'a': 0.31, 'b': 2.9, 'c': 1.3, 'd': 0.77, 'e': 3.1},
    {'a': 1.2 + 0.7j, 'b': 0.4 - 1.1j, 'c': 2.1 + 0.3j, 'd': -0.6 + 0.9j, 'e': 0.8 + 1.3j},
    {'a': -0.9 + 0.5j, 'b': 1.5 + 0.2j, 'c': 0.3 - 0.8j, 'd': 1.9 + 1.1j, 'e': -1.4 + 0.6j},
]


def replay_ops(states, extra):
    from engine import repo
    repo.activate()
    from mitxgraders.helpers.calc.expressions import evaluator
    rng = random.Random(extra['seed'])
    funcs, sufs = X.scope()[1], dict(X.SUFFIXES)
    n, bad, classes, sample = 0, [], {}, None
    for st in states:
        c = st['c']
        if c['kind'] != 'case':
            continue
        n += 1
        out = st['out']
        text = ''.join(c['toks'])
        canon = ''.join(c['canon'])
        funcs = X.scope()[1]
        classes[out['c']] = classes.get(out['c'], 0) + 1
        obs = X.observe(text, evaluator, (dict(OPS_BINDINGS[0]), funcs, sufs))
        probs = [p for p in X.compare(out, obs) if p[0] not in ('fine', 'usage')]
        # spaces anywhere, em-dash for minus
        variant = ''.join((ch if ch != '-' or rng.random() < 0.5 else '\u2014') + (' ' if rng.random() < 0.3 else '')
                          for ch in text)
        obs_v = X.observe(variant, evaluator, (dict(OPS_BINDINGS[0]), funcs, sufs))
        if not X.same_observation(obs, obs_v):
            probs.append(('render', 'variant %r gives %s instead of %s' % (variant, obs_v['c'], obs['c'])))
        # grouping: original and canonical (fully parenthesised per the spec's tree) must agree for every binding
        for bi, b in enumerate(OPS_BINDINGS[1:]):
            o1 = X.observe(text, evaluator, (dict(b), funcs, sufs))
            o2 = X.observe(canon, evaluator, (dict(b), funcs, sufs))
            if not X.same_observation(o1, o2):
                probs.append(('grouping', 'binding %d: %r gives %s %r, canonical %r gives %s %r' % (
                    bi + 1, text, o1['c'], o1.get('value'), canon, o2['c'], o2.get('value'))))
                break
        if sample is None and out['c'] == 'value' and len(c['toks']) > 8:
            sample = {'chain': text, 'canonical': canon, 'spec': out}
        for aspect, what in probs:
            if len(bad) < 100:
                bad.append({'text': text, 'aspect': aspect, 'what': what, 'spec': out['c']})
    return {'n': n, 'bad': bad, 'classes': classes, 'sample': sample}


def run(ctx):
    d = os.path.join(ctx.scratch, 'brackets')
    ctx.tlc('expr/BracketValidator.tla', 'expr/MC_BracketValidator_%s.cfg' % ctx.tier, dump=d, deadlock=False, timeout=6000)
    res = dump.parallel(d + '.dump', 'engine.adapters.c03', 'replay_brackets')
    os.remove(d + '.dump')
    kinds, bdrift = {}, 0
    for r in res:
        ctx.count(r['n'])
        ctx.traces_validated += r['n']
        bdrift += r['drift']
        for k, v in r['kinds'].items():
            kinds[k] = kinds.get(k, 0) + v
        for b in r['bad']:
            ctx.violation({'text': b['text'], 'aspect': 'brackets'}, b['what'])
    if bdrift:
        ctx.note_drift('%d strings: highlighted bracket positions differ from the BracketValidator model' % bdrift)
    for k in kinds:
        ctx.nontrivial.add(('bracket-outcome', k))
    ctx.extra['bracket_outcomes'] = kinds
    d = os.path.join(ctx.scratch, 'ops')
    ctx.tlc('expr/MC_ExprOps.tla', 'expr/MC_ExprOps_%s.cfg' % ctx.tier, dump=d, timeout=6000)
    res = dump.parallel(d + '.dump', 'engine.adapters.c03', 'replay_ops', extra={'seed': ctx.seed})
    os.remove(d + '.dump')
    cl = {}
    for r in res:
        ctx.count(r['n'])
        ctx.traces_validated += r['n']
        for k, v in r['classes'].items():
            cl[k] = cl.get(k, 0) + v
        if r['sample']:
            ctx.sample(r['sample'])
        for b in r['bad']:
            ctx.violation({'text': b['text'], 'aspect': b['aspect'], 'spec_class': b['spec']},
                          'evaluator(%r): %s' % (b['text'], b['what']))
    for k in cl:
        ctx.nontrivial.add(('ops-class', k))
    ctx.extra['ops_outcome_classes'] = cl
    for which in ('num', 'name', 'foreign'):
        d = os.path.join(ctx.scratch, 'chars_' + which)
        ctx.tlc('expr/MC_ExprChars.tla', 'expr/MC_ExprChars_%s_%s.cfg' % (which, ctx.tier), dump=d, timeout=6000)
        res = dump.parallel(d + '.dump', 'engine.adapters.c03', 'replay_chars', extra={'seed': ctx.seed})
        os.remove(d + '.dump')
        cl = {}
        for r in res:
            ctx.count(r['n'])
            ctx.traces_validated += r['n']
            for k, v in r['classes'].items():
                cl[k] = cl.get(k, 0) + v
            if r['sample']:
                ctx.sample(r['sample'])
            if r['fine']:
                ctx.note_drift('%d character strings (%s): fine-grained error class differs from the model' % (r['fine'], which))
            for b in r['bad']:
                ctx.violation({'chars': b['chars'], 'text': b['text'], 'aspect': b['aspect'], 'spec_class': b['spec']},
                              'evaluator(%r): %s' % (b['text'], b['what']))
        for k in cl:
            ctx.nontrivial.add(('char-class', which, k))
        ctx.extra['char_outcome_classes_' + which] = cl
    d = os.path.join(ctx.scratch, 'tokens')
    ctx.tlc('expr/MC_ExprTokens.tla', 'expr/MC_ExprTokens_%s.cfg' % ctx.tier, dump=d, timeout=6000)
    res = dump.parallel(d + '.dump', 'engine.adapters.c03', 'replay_tokens', extra={'seed': ctx.seed})
    os.remove(d + '.dump')
    classes = {}
    fine = 0
    for r in res:
        ctx.count(r['n'])
        ctx.traces_validated += r['n']
        fine += r['fine']
        for k, v in r['classes'].items():
            classes[k] = classes.get(k, 0) + v
        if r['sample']:
            ctx.sample(r['sample'])
        for b in r['bad']:
            ctx.violation({'tokens': b['ids'], 'text': b['text'], 'aspect': b['aspect'], 'spec_class': b['spec']},
                          'evaluator(%r): %s' % (b['text'], b['what']))
    for k in classes:
        ctx.nontrivial.add(('token-class', k))
    if fine:
        ctx.note_drift('%d token strings: fine-grained error class differs from the model (same coarse class)' % fine)
    ctx.extra['token_outcome_classes'] = classes
    # the same token strings in the EMPTY scope (nothing supplied -> nothing resolves), names spelled as the library's defaults
    d = os.path.join(ctx.scratch, 'tokens_empty')
    ctx.tlc('expr/MC_ExprTokens.tla', 'expr/MC_ExprTokens_empty_%s.cfg' % ctx.tier, dump=d, timeout=6000)
    res = dump.parallel(d + '.dump', 'engine.adapters.c03', 'replay_tokens', extra={'seed': ctx.seed, 'scope': 'empty'})
    os.remove(d + '.dump')
    eclasses = {}
    for r in res:
        ctx.count(r['n'])
        ctx.traces_validated += r['n']
        for k, v in r['classes'].items():
            eclasses[k] = eclasses.get(k, 0) + v
        for b in r['bad']:
            ctx.violation({'tokens': b['ids'], 'text': b['text'], 'aspect': b['aspect'], 'spec_class': b['spec'], 'scope': 'empty'},
                          'evaluator(%r, {}, {}, {}): %s' % (b['text'], b['what']))
    for k in eclasses:
        ctx.nontrivial.add(('token-class-empty-scope', k))
    ctx.extra['token_outcome_classes_empty_scope'] = eclasses
    # code -> spec: long random derivations and corruptions, validated by TLC
    nrec = 4000 if ctx.quick else 60000
    per = 250
    items = [(ctx.seed * 7919 + k, per, k * per) for k in range(nrec // per)]
    recs = [r for ch in dump.pmap('engine.adapters.exprlib', 'trace_chunk', items) for r in ch]
    rej = traces.validate(ctx, 'expr/ExprTrace.tla', 'expr/ExprTrace.cfg',
                          [{k: r[k] for k in ('id', 'toks', 'obs')} for r in recs], timeout=6000)
    ctx.count(len(recs))
    byid = {r['id']: r for r in recs}
    for r in recs[:2]:
        ctx.sample({'trace_text': r['text'], 'observed': r['obs']})
    for rid, clause in rej.items():
        if clause == 'usage':
            continue                                    # C10's clause
        r = byid[rid]
        ctx.violation({'text': r['text'], 'aspect': clause, 'observed': r['obs']['c']},
                      'evaluator(%r): trace spec rejects clause %s (observed %s %s)' % (r['text'], clause, r['obs']['c'], r['obs']['q']))
    ctx.extra['trace_records'] = len(recs)
    ctx.extra['bounds'] = {'token_strings_max_len': 4 if ctx.quick else 5, 'alphabet': sorted(X.TOK_TEXT.values())}


def replay(ctx, rec):
    from engine import repo
    repo.activate()
    sig = rec['signature']
    print(X.observe(sig['text'], None, ({}, {}, {}) if sig.get('scope') == 'empty' else None))
    return False
