"""C07 -- SingleListGrader scores a delimited list by the documented credit formula.

spec -> code: TLC enumerates every case of MC_SingleList (parts formula, errors, lists, text, nested, dual); the
              catalogue of problems TLC used is exported as JSON, the real graders are built from it with a table-
              driven subgrader (engine.fixtures.TableGrader) and every dumped <<case, allowed outcome>> is replayed.
code -> spec: random larger problems (5 expected / 7 submitted items, alternatives, several answer lists, odd
              delimiters, string-form / inferred answers, nesting) are run through the real grader, recorded as ndjson
              and validated by SingleListTrace (TLC evaluates SingleList!OutcomeT on every record; for long unordered
              lists the optimum is certified by LP-duality potentials computed here and *checked* by the spec).
"""
import json
import os
from fractions import Fraction

from engine import dump, traces

SYM = {'COMMA': ',', 'SEMI': ';', 'BAR': '|', 'SP': ' ', 'TAB': '\t'}
MARK = 'ANSWER-LEVEL-MARK-%d-q7'
ITEM_NOTE = 'item-note'
TOL = Fraction(1, 10 ** 12)
PARTS = ['formula', 'errors', 'lists', 'text', 'nested', 'dual']


def text(syms):
    return ''.join(SYM.get(s, s) for s in syms)


def frac(q):
    return Fraction(q[0], q[1])


# ------------------------------------------------------------------ generic problem -> real grader
def py_item(sub, it, style):
    """item specification -> what the author writes for one entry of the answer list"""
    if sub['k'] == 'table':
        if style and len(it) == 1 and frac(it[0]['credit']) == 1:
            return text(it[0]['sym'])                                   # plain string
        alts = []
        for a in it:
            d = {'expect': text(a['sym']), 'grade_decimal': float(frac(a['credit']))}
            if style:
                d['msg'] = ITEM_NOTE
            alts.append(d)
        return tuple(alts)
    return py_answers(sub, it, False, style)


def py_answers(g, ans, top, style):
    out = []
    for i, al in enumerate(ans):
        items = [py_item(g['sub'], it, style) for it in al['items']]
        if style and not (top and al['hasMsg']) and frac(al['credit']) == 1:
            out.append(items)                                           # plain list
            continue
        d = {'expect': items, 'grade_decimal': float(frac(al['credit']))}
        if top and al['hasMsg']:
            d['msg'] = MARK % i
        out.append(d)
    if style and len(out) == 1:
        return out[0]                                                   # a single answer, not a tuple of answers
    return tuple(out)


def build_grader(g, table, answers=None):
    from mitxgraders import SingleListGrader
    from engine.fixtures import TableGrader
    if g['k'] == 'table':
        return TableGrader(table=table)
    kw = dict(subgrader=build_grader(g['sub'], table), delimiter=text(g['delim']), ordered=g['ordered'],
              partial_credit=g['partial'], length_error=g['lengthErr'], missing_error=g['missingErr'])
    if answers is not None:
        kw['answers'] = answers
    return SingleListGrader(**kw)


def build(P, style=0):
    """-> (grader, expect argument of the call)"""
    table = {(text(t['e']), text(t['s'])): float(frac(t['w'])) for t in P['tab']}
    if P['form'] == 'list':
        return build_grader(P['g'], table, py_answers(P['g'], P['ans'], True, style)), None
    if P['form'] == 'string':
        return build_grader(P['g'], table, text(P['atext'])), None
    return build_grader(P['g'], table), text(P['atext'])


def observe(grader, expect, s):
    from mitxgraders.exceptions import StudentFacingError
    try:
        r = grader(expect, s)
    except StudentFacingError as e:
        m = str(e)
        why = ('length' if m.startswith('List length error') else
               'blank' if m.startswith('List error: Empty entr') else
               'generic' if m.startswith('Invalid Input: Could not check input') else 'other')
        return {'raised': 'student', 'cls': type(e).__name__, 'why': why}
    except Exception as e:  # noqa -- any other class is outside every allowed outcome
        return {'raised': 'other', 'cls': type(e).__name__, 'why': str(e)[:100]}
    okv = r.get('ok')
    ok = 'T' if okv is True else 'F' if okv is False else 'P' if okv == 'partial' else '?'
    return {'raised': 'none', 'grade': float(r['grade_decimal']), 'ok': ok, 'shown': 'ANSWER-LEVEL-MARK' in r['msg'],
            'keys': sorted(r)}


def judge(out, obs):
    """allowed outcome (from the spec) against the observation: None, or (clause, is_float_artefact)"""
    if out['k'] == 'raise':
        return None if obs['raised'] == 'student' else ('must-raise', False)
    if obs['raised'] == 'student':
        return None if out['k'] == 'either' else ('must-grade', False)
    if obs['raised'] != 'none':
        return ('crash', False)
    exact = frac(out['g'])
    if abs(Fraction(obs['grade']) - exact) > TOL:
        return ('grade', False)
    if obs['ok'] != out['ok']:
        # a grade within 1e-12 of 0 or 1 but not exactly equal gets ok='partial': float rounding, not the formula
        return ('ok', obs['grade'] != float(exact) and obs['ok'] == 'P')
    if obs['shown'] not in out['shown']:
        return ('shown', False)
    return None


def drift_of(out, obs):
    if out['k'] == 'raise' and obs['raised'] == 'student':
        if obs['cls'] != 'MissingInput':
            return 'error class %s instead of MissingInput' % obs['cls']
        if out['why'] in ('length', 'blank') and obs['why'] != out['why']:
            return 'error message kind %s where the model expects %s' % (obs['why'], out['why'])
    return None


def classify(P, clause):
    g = P['g']
    nested = g['sub']['k'] != 'table'
    return 'singlelist-%s-%s%s' % (clause, 'ordered' if g['ordered'] else 'unordered', '-nested' if nested else '')


def signature(P, s, out, obs, clause, origin):
    g = dict(P['g'])
    sig = {'origin': origin, 'clause': clause, 'class': classify(P, clause), 'submission': s,
           'delimiter': text(g['delim']), 'ordered': g['ordered'], 'partial_credit': g['partial'],
           'length_error': g['lengthErr'], 'missing_error': g['missingErr'], 'form': P['form'],
           'nested': g['sub']['k'] != 'table', 'allowed': out, 'observed': obs,
           'answers': repr(py_answers(P['g'], P['ans'], True, 0)) if P['form'] == 'list' else text(P['atext']),
           'table': sorted([text(t['e']), text(t['s']), '%d/%d' % tuple(t['w'])] for t in P['tab'])[:60]}
    return sig


# ------------------------------------------------------------------ spec -> code
_CAT = {}


def replay_states(states, extra):
    from engine import repo
    repo.activate()
    path = extra['catalogue']
    if path not in _CAT:
        with open(path) as fh:
            _CAT[path] = json.load(fh)
    cat = _CAT[path]
    n = 0
    keys = set()
    bad, drift = [], []
    sample = None
    for st in states:
        c = st['c']
        if c['kind'] == 'seed':
            continue
        n += 1
        P = cat[c['pid'] - 1]
        out = st['out']
        out['shown'] = list(out['shown'])
        s = text(c['text'])
        grader, expect = build(P, style=(c['pid'] + len(c['text'])) % 2)     # fresh grader for every case
        obs = observe(grader, expect, s)
        keys.add((c['kind'], out['k'], out['why'], out['ok'], tuple(sorted(out['shown'])), P['g']['ordered'],
                  P['g']['partial'], len(s.split(text(P['g']['delim'])))))
        if sample is None and out['k'] == 'graded' and out['ok'] == 'P':
            sample = {'part': c['kind'], 'submission': s, 'allowed': out, 'observed': obs}
        v = judge(out, obs)
        if v is not None:
            if v[1]:
                drift.append('float rounding: %r graded %r, exact %s' % (s, obs['grade'], out['g']))
            elif len(bad) < 40:
                bad.append({'pid': c['pid'], 's': s, 'syms': c['text'], 'out': out, 'obs': obs, 'clause': v[0]})
            else:
                bad.append(None)
        else:
            d = drift_of(out, obs)
            if d and len(drift) < 5:
                drift.append(d)
    return {'n': n, 'keys': sorted(keys), 'bad': bad, 'sample': sample, 'drift': drift}


# ------------------------------------------------------------------ code -> spec: random problems
def q(fr):
    fr = Fraction(fr)
    return [fr.numerator, fr.denominator]


CREDITS = [Fraction(0)] * 6 + [Fraction(1, 4), Fraction(1, 3), Fraction(1, 2), Fraction(1, 2), Fraction(2, 3),
                                Fraction(1), Fraction(1), Fraction(1)]
DELIMS = [['COMMA'], ['COMMA'], ['SEMI'], ['BAR', 'BAR'], ['COMMA', 'SP'], ['BAR', 'COMMA'], ['BAR']]
BLANKS = [[], ['SP'], ['SP', 'SP'], ['TAB'], ['SP', 'TAB']]


def rand_table(rng, esyms, ssyms):
    tab = []
    for e in esyms:
        for s in ssyms:
            w = rng.choice(CREDITS)
            if w:
                tab.append({'e': e, 's': s, 'w': q(w)})
    return tab


def rand_leaf_item(rng, esyms):
    k = 1 if rng.random() < .6 else 2
    syms = rng.sample(esyms, k)
    alts = [{'sym': syms[0], 'credit': q(1)}]
    if k == 2:
        alts.append({'sym': syms[1], 'credit': q(rng.choice([1, Fraction(1, 2), Fraction(3, 4), Fraction(1, 3)]))})
        rng.shuffle(alts)
    return alts


def good_for(rng, tab, alts, ssyms):
    """a submitted item that earns something against the item specification, if the table has one"""
    syms = [a['sym'] for a in alts]
    cands = [t['s'] for t in tab if t['e'] in syms]
    return rng.choice(cands) if cands else rng.choice(ssyms)


def perturb(rng, items, ssyms, ordered, pblank, nmax):
    """edits of a good submission: reorder, drop, replace, add surplus, blank out"""
    items = list(items)
    if not ordered or rng.random() < .3:
        rng.shuffle(items)
    r = rng.random()
    if r < .25 and len(items) > 1:
        del items[rng.randrange(len(items))]
    elif r < .5:
        for _ in range(rng.randint(1, 2)):
            items.insert(rng.randint(0, len(items)), rng.choice(ssyms))
    if rng.random() < .4 and items:
        items[rng.randrange(len(items))] = rng.choice(ssyms)
    items = [rng.choice(BLANKS) if rng.random() < pblank else it for it in items]
    return items[:nmax]


def join_syms(items, delim):
    txt = []
    for k, it in enumerate(items):
        txt += (delim if k else []) + it
    return txt


def rand_flat(rng, i, big):
    delim = rng.choice(DELIMS)
    esyms = [['E%d' % k] for k in range(1, 9)]
    ssyms = [['s%d' % k] for k in range(1, 8)] + [['SP', 's1'], ['s2', 'SP'], ['s', 'SP', 't']]
    g = {'k': 'list', 'ordered': rng.random() < (.25 if big else .4), 'partial': rng.random() < .7,
         'lengthErr': rng.random() < .15, 'missingErr': rng.random() < .5, 'delim': delim, 'sub': {'k': 'table'}}
    nE = rng.randint(4, 5) if big else rng.randint(1, 4)
    form = 'list' if rng.random() < .75 else rng.choice(['string', 'expect'])
    if not g['missingErr'] and rng.random() < .5:
        ssyms_tab = ssyms + BLANKS[:3]            # blank entries can earn credit when they are not refused
    else:
        ssyms_tab = ssyms
    if form == 'list':
        nlists = rng.choice([1, 1, 2, 3])
        ans = []
        for _ in range(nlists):
            ans.append({'items': [rand_leaf_item(rng, esyms) for _ in range(nE)],
                        'credit': q(rng.choice([1, 1, 1, Fraction(1, 2), Fraction(3, 4), Fraction(1, 3), 0])),
                        'hasMsg': rng.random() < .7})
        atext = []
        target = rng.choice(ans)['items']
    else:
        items = rng.sample(esyms, nE)
        if rng.random() < .3:
            items[0] = ['SP'] + items[0]
        ans = []
        atext = join_syms(items, delim)
        esyms = esyms + [['SP'] + e for e in esyms]
        target = [[{'sym': it, 'credit': [1, 1]}] for it in items]
    tab = rand_table(rng, esyms, ssyms_tab)
    if rng.random() < .5:                          # make sure full credit is reachable for the target list
        for it in target:
            s0 = rng.choice(ssyms)
            tab = [t for t in tab if not (t['e'] == it[0]['sym'] and t['s'] == s0)]
            tab.append({'e': it[0]['sym'], 's': s0, 'w': q(1)})
    P = {'g': g, 'form': form, 'ans': ans, 'atext': atext, 'tab': tab}
    # submission: a good answer to the target list, perturbed
    base = [good_for(rng, tab, it, ssyms) for it in target]
    if rng.random() < .3:
        items = base if (g['ordered'] or rng.random() < .5) else rng.sample(base, len(base))
    else:
        items = perturb(rng, base, ssyms, g['ordered'], rng.choice([0, 0, 0, .1, .3]), 7 if big else 5)
        if g['lengthErr'] and rng.random() < .6:
            items = (items + base)[:nE]
    if not items:
        items = [rng.choice(ssyms)]
    return {'id': i, 'P': P, 'text': join_syms(items, delim), 'kind': 'big' if big else 'flat'}


def rand_nested(rng, i):
    outer_d, inner_d = rng.choice([(['SEMI'], ['COMMA']), (['BAR', 'BAR'], ['COMMA']), (['SEMI'], ['BAR']),
                                   (['COMMA'], ['COMMA', 'SP'])])
    # (in the last pair the inner delimiter ', ' contains the outer one: every ',' already splits the outer list,
    #  which is what str.split does too; kept because nothing forbids it)
    esyms = [['E%d' % k] for k in range(1, 7)]
    ssyms = [['s%d' % k] for k in range(1, 6)]
    me = rng.random() < .5
    inner = {'k': 'list', 'ordered': rng.random() < .4, 'partial': rng.random() < .7, 'lengthErr': False,
             'missingErr': me if rng.random() < .7 else (not me), 'delim': inner_d, 'sub': {'k': 'table'}}
    g = {'k': 'list', 'ordered': rng.random() < .4, 'partial': rng.random() < .7, 'lengthErr': rng.random() < .1,
         'missingErr': me, 'delim': outer_d, 'sub': inner}
    nE = rng.randint(1, 3)
    odd = outer_d == ['COMMA']           # every inner ', ' also splits the outer list: keep the lists short
    form = 'list' if rng.random() < .8 else rng.choice(['string', 'expect'])
    tabs = ssyms + (BLANKS[:2] if not inner['missingErr'] else [])
    if form == 'list':
        ans = []
        for _ in range(rng.choice([1, 1, 2])):
            items = []
            for _ in range(nE):
                nin = rng.randint(1, 3)
                alts = [{'items': [rand_leaf_item(rng, esyms) for _ in range(nin)],
                         'credit': q(rng.choice([1, 1, Fraction(1, 2)])), 'hasMsg': False}
                        for _ in range(rng.choice([1, 1, 2]))]
                items.append(alts)
            ans.append({'items': items, 'credit': q(rng.choice([1, 1, Fraction(1, 2), Fraction(2, 3)])),
                        'hasMsg': rng.random() < .7})
        atext = []
        target = [rng.choice(alts)['items'] for alts in rng.choice(ans)['items']]
    else:
        ans = []
        target = []
        parts = []
        for k in range(nE):
            inner_items = rng.sample(esyms, rng.randint(1, 2 if odd else 3))
            parts.append(join_syms(inner_items, inner_d))
            target.append([[{'sym': it, 'credit': [1, 1]}] for it in inner_items])
        atext = join_syms(parts, outer_d)
    tab = rand_table(rng, esyms, tabs)
    if rng.random() < .6:
        for inner_items in target:
            for it in inner_items:
                s0 = rng.choice(ssyms)
                tab = [t for t in tab if not (t['e'] == it[0]['sym'] and t['s'] == s0)]
                tab.append({'e': it[0]['sym'], 's': s0, 'w': q(rng.choice([1, 1, Fraction(1, 2)]))})
    P = {'g': g, 'form': form, 'ans': ans, 'atext': atext, 'tab': tab}
    pblank = rng.choice([0, 0, 0, .08, .2])
    outer_items = []
    for inner_items in target:
        base = [good_for(rng, tab, it, ssyms) for it in inner_items]
        if rng.random() < .5:
            base = perturb(rng, base, ssyms, inner['ordered'], pblank, 2 if odd else 3) or [rng.choice(ssyms)]
        outer_items.append(join_syms(base[:2] if odd else base, inner_d))
    if rng.random() < .6:
        if not g['ordered'] or rng.random() < .3:
            rng.shuffle(outer_items)
        r = rng.random()
        if r < .2 and len(outer_items) > 1:
            del outer_items[rng.randrange(len(outer_items))]
        elif r < .45:
            extra = join_syms([rng.choice(ssyms + ([[]] if rng.random() < .3 else [])) for _ in range(rng.randint(1, 2))], inner_d)
            outer_items.insert(rng.randint(0, len(outer_items)), extra)
        if rng.random() < pblank:
            outer_items[rng.randrange(len(outer_items))] = rng.choice(BLANKS)
    if odd:
        outer_items = outer_items[:3]
    return {'id': i, 'P': P, 'text': join_syms(outer_items, outer_d), 'kind': 'nested'}


# ------------------------------------------------------------------ certificates (untrusted producer)
def hungarian(cost):
    """minimum-cost perfect assignment of an n x n integer matrix with dual potentials: returns (u, v, m), rows and
    columns 1-based in m (row i is assigned column m[i-1]); u[i] + v[j] <= cost[i][j], equality on assigned cells"""
    n = len(cost)
    INF = 10 ** 9
    u = [0] * (n + 1)
    v = [0] * (n + 1)
    p = [0] * (n + 1)
    way = [0] * (n + 1)
    for i in range(1, n + 1):
        p[0] = i
        j0 = 0
        minv = [INF] * (n + 1)
        used = [False] * (n + 1)
        while True:
            used[j0] = True
            i0 = p[j0]
            delta = INF
            j1 = 0
            for j in range(1, n + 1):
                if not used[j]:
                    cur = cost[i0 - 1][j - 1] - u[i0] - v[j]
                    if cur < minv[j]:
                        minv[j] = cur
                        way[j] = j0
                    if minv[j] < delta:
                        delta = minv[j]
                        j1 = j
            for j in range(n + 1):
                if used[j]:
                    u[p[j]] += delta
                    v[j] -= delta
                else:
                    minv[j] -= delta
            j0 = j1
            if p[j0] == 0:
                break
        while True:
            j1 = way[j0]
            p[j0] = p[j1]
            j0 = j1
            if j0 == 0:
                break
    m = [0] * n
    for j in range(1, n + 1):
        m[p[j] - 1] = j
    return u[1:], v[1:], m


def perfect_matching(n, allowed, forced=None):
    """perfect matching rows->cols inside the set `allowed` of (i, j) pairs (0-based), containing `forced` if given"""
    match_col = {}
    rows = list(range(n))
    if forced is not None:
        match_col[forced[1]] = forced[0]
        rows.remove(forced[0])

    def aug(i, seen):
        for j in range(n):
            if (i, j) in allowed and j not in seen and not (forced is not None and j == forced[1]):
                seen.add(j)
                if j not in match_col or aug(match_col[j], seen):
                    match_col[j] = i
                    return True
        return False
    for i in rows:
        if not aug(i, set()):
            return None
    m = [0] * n
    for j, i in match_col.items():
        m[i] = j + 1
    return m


def split_syms(txt, d):
    out, cur, i = [], [], 0
    while i < len(txt):
        if txt[i:i + len(d)] == d:
            out.append(cur)
            cur = []
            i += len(d)
        else:
            cur.append(txt[i])
            i += 1
    out.append(cur)
    return out


def certificates(rec, shown):
    """LP-duality certificates for a flat unordered problem, one per answer list; the witness assignment is chosen
    among the optimal ones so that it explains the observed message flag whenever some optimal assignment does"""
    P = rec['P']
    g = P['g']
    if P['form'] == 'list':
        ans = P['ans']
    else:
        ans = [{'items': [[{'sym': it, 'credit': [1, 1]}] for it in split_syms(P['atext'], g['delim'])],
                'credit': [1, 1], 'hasMsg': False}]
    subs = split_syms(rec['text'], g['delim'])
    T = {(tuple(t['e']), tuple(t['s'])): frac(t['w']) for t in P['tab']}
    certs = []
    for al in ans:
        nE, nS = len(al['items']), len(subs)
        n = max(nE, nS)
        W = [[max(frac(a['credit']) * T.get((tuple(a['sym']), tuple(s)), Fraction(0)) for a in it) for s in subs]
             for it in al['items']]
        D = 1
        for row in W:
            for w in row:
                D = D * w.denominator // gcd(D, w.denominator)
        Wi = [[int(w * D) for w in row] for row in W]
        cost = [[D - (Wi[i][j] if i < nE and j < nS else 0) for j in range(n)] for i in range(n)]
        u, v, m = hungarian(cost)
        if nE == nS:
            tight = {(i, j) for i in range(n) for j in range(n) if u[i] + v[j] == cost[i][j]}
            if shown:
                m2 = perfect_matching(n, {(i, j) for (i, j) in tight if Wi[i][j] > 0})
            else:
                m2 = None
                for (i, j) in sorted(tight):
                    if Wi[i][j] == 0:
                        m2 = perfect_matching(n, tight, forced=(i, j))
                        if m2:
                            break
            if m2:
                m = m2
        certs.append({'k': 'cert', 'u': u, 'v': v, 'm': m, 'D': D})
    return {'k': 'some', 'list': certs}


def gcd(a, b):
    while b:
        a, b = b, a % b
    return a


def observe_chunk(cases, extra):
    from engine import repo
    repo.activate()
    recs = []
    for rec in cases:
        P = rec['P']
        s = text(rec['text'])
        try:
            grader, expect = build(P, style=rec['id'] % 2)
        except Exception as e:  # noqa -- generator produced something the library refuses: not a case
            rec = dict(rec)
            rec['skip'] = '%s: %s' % (type(e).__name__, str(e)[:120])
            recs.append(rec)
            continue
        obs = observe(grader, expect, s)
        o = {'raised': obs['raised'], 'grade': [0, 1], 'ok': 'F', 'shown': False}
        if obs['raised'] == 'none':
            fr = Fraction(obs['grade']).limit_denominator(100000)
            o['grade'] = [fr.numerator, fr.denominator] if abs(Fraction(obs['grade']) - fr) <= TOL else [-1, 1]
            o['ok'] = obs['ok']
            o['shown'] = obs['shown']
        rec = dict(rec)
        rec['obs'] = o
        rec['raw'] = obs
        g = P['g']
        nS = len(split_syms(rec['text'], g['delim']))
        nE = len(P['ans'][0]['items']) if P['form'] == 'list' else len(split_syms(P['atext'], g['delim']))
        flat = g['sub']['k'] == 'table'
        if flat and not g['ordered'] and obs['raised'] == 'none' and max(nE, nS) >= (5 if rec['id'] % 3 else 3):
            rec['certs'] = certificates(rec, obs['shown'])
            rec['cross'] = max(nE, nS) <= 5
        else:
            rec['certs'] = {'k': 'none'}
            rec['cross'] = False
        recs.append(rec)
    return recs


# ------------------------------------------------------------------ driver
def run(ctx):
    from engine.main import Machinery
    reached = set()
    ndrift = 0
    # VERIF_C07_PARTS (development aid only): comma-separated subset of the enumerated parts; default = all
    only = [x for x in os.environ.get('VERIF_C07_PARTS', '').split(',') if x]
    for part in [x for x in PARTS if not only or x in only]:
        d = os.path.join(ctx.scratch, 'cases_' + part)
        cat = os.path.join(ctx.scratch, 'catalogue_%s.json' % part)
        ctx.tlc('graders/MC_SingleList.tla', 'graders/MC_SingleList_%s_%s.cfg' % (part, ctx.tier), dump=d,
                env={'CAT_FILE': cat}, timeout=3000)
        res = dump.parallel(d + '.dump', 'engine.adapters.c07', 'replay_states', extra={'catalogue': cat})
        os.remove(d + '.dump')
        with open(cat) as fh:
            catalogue = json.load(fh)
        for r in res:
            ctx.traces_validated += r['n']
            ctx.evaluations += r['n']
            for k in r['keys']:
                ctx.nontrivial.add(tuple(map(str, k)))
                reached.add('%s/%s' % (k[1], k[2]))
            if r['sample']:
                ctx.sample(r['sample'])
            for dr in r['drift']:
                ndrift += 1
                ctx.note_drift(dr)
            for b in r['bad']:
                if b is None:
                    continue
                P = catalogue[b['pid'] - 1]
                sig = signature(P, b['s'], b['out'], b['obs'], b['clause'], 'enumerated:' + part)
                ctx.violation(sig, 'SingleListGrader(%s) on %r: spec allows %s, code gave %s [%s]' % (
                    describe(P), b['s'], brief(b['out']), brief_obs(b['obs']), b['clause']),
                    detail={'P': P, 'text': b['syms']})
    # code -> spec
    n_flat, n_big, n_nested = (500, 400, 400) if ctx.quick else (8000, 6000, 6000)
    cases = []
    for i in range(n_flat):
        cases.append(rand_flat(ctx.rng, len(cases), False))
    for i in range(n_big):
        cases.append(rand_flat(ctx.rng, len(cases), True))
    for i in range(n_nested):
        cases.append(rand_nested(ctx.rng, len(cases)))
    recs = [r for chunk in dump.pmap('engine.adapters.c07', 'observe_chunk', cases) for r in chunk]
    skipped = [r for r in recs if 'skip' in r]
    recs = [r for r in recs if 'skip' not in r]
    if len(skipped) > len(cases) // 10:
        raise Machinery('random driver: %d of %d generated problems refused by the library, e.g. %s' % (
            len(skipped), len(cases), skipped[0]['skip']))
    raws = {r['id']: r.pop('raw') for r in recs}
    kinds = {r['id']: r.pop('kind') for r in recs}
    rejected = {}
    for lo in range(0, len(recs), 4000):
        rejected.update(traces.validate(ctx, 'graders/SingleListTrace.tla', 'graders/SingleListTrace.cfg',
                                        recs[lo:lo + 4000], name='trace%d' % lo, timeout=3000))
    ctx.evaluations += len(recs)
    byid = {r['id']: r for r in recs}
    for r in recs[:2]:
        ctx.sample({'trace_record': {k: r[k] for k in ('text', 'obs', 'certs')}, 'submission': text(r['text'])})
    ncert = sum(1 for r in recs if r['certs']['k'] == 'some')
    for i, clause in rejected.items():
        r = byid[i]
        name = clause[0]
        if name in ('badcert', 'certmismatch'):
            raise Machinery('certificate machinery: record %s rejected with %s: %s' % (i, clause, json.dumps(r)[:1500]))
        allowed = {'g': [clause[1], clause[2]], 'clause': name}
        if name == 'ok' and raws[i]['ok'] == 'P' and raws[i]['grade'] != clause[1] / clause[2]:
            ctx.note_drift('float rounding: %r graded %r, exact %s/%s' % (text(r['text']), raws[i]['grade'], clause[1], clause[2]))
            continue
        sig = signature(r['P'], text(r['text']), allowed, raws[i], name, 'random:' + kinds[i])
        ctx.violation(sig, 'SingleListGrader(%s) on %r: spec wants grade %s/%s, code gave %s [%s]' % (
            describe(r['P']), text(r['text']), clause[1], clause[2], brief_obs(raws[i]), name),
            detail={'P': r['P'], 'text': r['text']})
    # growth beyond the listed properties: IntervalGrader (a SingleListGrader subclass) scored as its documentation says;
    # disagreements are drift, never violations of C07
    if not only or 'interval' in only:
        from engine.adapters import interval
        interval.run_part(ctx)
    ctx.extra['outcomes_reached'] = sorted(reached)
    ctx.extra['bounds'] = {
        'tier': ctx.tier,
        'enumerated': 'formula: all 3-level credit matrices nE x nS for %s; errors: nE<=%d, nS<=%d, 16 flag sets; '
                      'lists: 8 answer sets x 6 flag sets, <=%d items; text: all texts <=%s symbols, 3 delimiters, '
                      '3 answer forms; nested: 4 answer sets x %d flag sets; dual: all %s credit matrices' % (
                          '1x1..4, 2x1..4, 3x1..2' if ctx.quick else '1x1..6, 2x1..4, 3x1..3, 4x1..2',
                          3 if ctx.quick else 4, 3 if ctx.quick else 4, 3 if ctx.quick else 4,
                          '5' if ctx.quick else '6 (7 for the two-symbol delimiter ||)', 10 if ctx.quick else 24,
                          '2x2' if ctx.quick else '3x3'),
        'random_records': len(recs), 'random_with_certificate': ncert, 'random_skipped': len(skipped),
        'random_sizes': 'flat 1-4 expected / 1-5 submitted; big 4-5 expected / up to 7 submitted; nested 1-3 x 1-3'}
    ctx.assumptions += [
        'the answer-level message is read as shown if and only if every submitted and expected item earned credit '
        '(under some optimal assignment / some best answer list when there are ties)',
        'a student-facing error means any StudentFacingError; class MissingInput and the message kind are drift-level',
        'nested lists: a blank inner entry in a surplus position of an '
        'ordered outer list may either raise or be graded (the statement does not say whose missing_error applies)',
        'generated answers are valid configurations (equal list lengths, no blank expected entries when missing_error)',
        'item credits are small rationals; the float grade is compared with the exact rational within 1e-12']


def describe(P):
    g = P['g']
    s = 'ordered=%s, partial_credit=%s, length_error=%s, missing_error=%s, delimiter=%r' % (
        g['ordered'], g['partial'], g['lengthErr'], g['missingErr'], text(g['delim']))
    if g['sub']['k'] != 'table':
        s += ', nested(ordered=%s, partial_credit=%s, delimiter=%r)' % (
            g['sub']['ordered'], g['sub']['partial'], text(g['sub']['delim']))
    return s


def brief(out):
    if out['k'] == 'raise':
        return 'error(%s)' % out['why']
    return '%s grade %s/%s ok=%s shown in %s' % (out['k'], out['g'][0], out['g'][1], out['ok'], sorted(out['shown']))


def brief_obs(obs):
    if obs['raised'] != 'none':
        return '%s(%s)' % (obs.get('cls'), obs.get('why'))
    return 'grade %r ok=%s shown=%s' % (obs['grade'], obs['ok'], obs['shown'])


def replay(ctx, rec):
    """re-run one recorded failing case: real grader again, verdict again by the trace specification"""
    d = rec.get('detail') or {}
    print('signature:', json.dumps(rec['signature'], indent=1, default=str)[:3000])
    if 'P' not in d:
        return False
    from engine import repo
    repo.activate()
    out = observe_chunk([{'id': 0, 'P': d['P'], 'text': d['text'], 'kind': 'replay'}], None)[0]
    print('observed now:', out.get('raw'), out.get('skip'))
    if 'skip' in out:
        return False
    out.pop('raw')
    out.pop('kind')
    rej = traces.validate(ctx, 'graders/SingleListTrace.tla', 'graders/SingleListTrace.cfg', [out], name='replay')
    print('trace specification:', 'accepts' if not rej else 'rejects with %s' % (rej,))
    return not rej
