"""C08 -- among alternative answers the student always receives the best-scoring one.

spec -> code: TLC enumerates every listing of alternatives of MC_BestAlternative (parts 'table' and 'real'); each case
              is rendered into TableGrader (exact control) and into the real String/Formula/Numerical/Matrix/
              SingleList graders -- alone, as subgrader of an ordered ListGrader and as item grader of a
              SingleListGrader -- with and without wrong_msg; the projected result must be in AllowedOut.
code -> spec: random larger cases (up to 6 alternatives, expect tuples up to 4 values, many credits and message
              lengths, all graders and embeddings, all answer notations) are run, recorded as ndjson and validated by
              BestAlternativeTrace (TLC evaluates BestAlternative!AllowedOut on every record).

Conventions shared with MC_BestAlternative!Concrete: message id of alternative i is i, the comparer message / error
identity at value j of alternative i is 10*i+j, wrong_msg has id 99.  Every message is a unique marker text
(prefix letter + two-digit id, padded with '_' to the modelled length) so the reported alternative can be told.
"""
import json
import os
import re
import zlib
from fractions import Fraction

from engine import dump, traces

WRONG = {'id': 99, 'len': 6}
NOMSG = {'id': 0, 'len': 0}
PART_LEN = 4
HALF = [1, 2]


# ------------------------------------------------------------------ abstract cases
def concrete(descs):
    """compact TLC descriptors -> concrete alternatives (mirror of MC_BestAlternative!Concrete)"""
    alts = []
    for i, d in enumerate(descs, 1):
        vals = []
        for j, name in enumerate(d['vals'], 1):
            eid = 10 * i + j
            if name == 'miss':
                v = {'k': 'miss', 'f': [0, 1], 'm': NOMSG, 'e': 'none', 'eid': 0}
            elif name == 'hit':
                v = {'k': 'hit', 'f': [1, 1], 'm': NOMSG, 'e': 'none', 'eid': 0}
            elif name == 'part0':
                v = {'k': 'part', 'f': HALF, 'm': NOMSG, 'e': 'none', 'eid': 0}
            elif name == 'part4':
                v = {'k': 'part', 'f': HALF, 'm': {'id': eid, 'len': PART_LEN}, 'e': 'none', 'eid': 0}
            elif name == 'lib':
                v = {'k': 'raise', 'f': [0, 1], 'm': NOMSG, 'e': 'lib', 'eid': eid}
            else:
                v = {'k': 'raise', 'f': [0, 1], 'm': NOMSG, 'e': 'foreign', 'eid': eid}
            vals.append(v)
        alts.append({'credit': list(d['credit']), 'msg': {'id': i, 'len': d['len']} if d['len'] else NOMSG,
                     'vals': vals})
    return alts


def marker(prefix, m):
    if m['len'] == 0:
        return ''
    return (prefix + '%02d' % m['id']).ljust(m['len'], '_')


def marker_table(alts, wrong):
    tab = {'': NOMSG}
    for a in alts:
        tab[marker('A', a['msg'])] = a['msg']
        for v in a['vals']:
            if v['k'] == 'part':
                tab[marker('P', v['m'])] = v['m']
    if wrong['len']:
        tab[marker('W', wrong)] = wrong
    return tab


def frac(q):
    return Fraction(q[0], q[1])


def num(q, short):
    """a credit as the author writes it"""
    f = frac(q)
    if short and f.denominator == 1:
        return int(f)
    return float(f)


# ------------------------------------------------------------------ rendering into graders
# Host graders / option contexts (mirror of BestAlternative!HostKinds: the specification says which comparison
# outcomes a host can realise and lists, per case, the hosts to replay in; this table says how to render them).
ALL_KINDS = {'miss', 'hit', 'part', 'lib', 'foreign'}
NO_PART = {'miss', 'hit', 'lib'}
HOSTS = {
    'table': dict(fam='table', kinds=ALL_KINDS, input='IN', filler=('fill', 'fill')),
    'string': dict(fam='string', kinds=NO_PART, options={'strip': True, 'case_sensitive': False}, input='Ans',
                   hits=['ans', 'ANS', ' Ans', 'aNs ', '  ans  ', 'Ans'], filler=('zz', 'zz')),
    'string_exact': dict(fam='string', kinds=NO_PART, options={}, input='Ans',
                         hits=['Ans', ' Ans', 'Ans  ', '\tAns'], filler=('zz', 'zz')),
    'formula': dict(fam='math', cls='FormulaGrader', kinds=ALL_KINDS, options={'variables': ['x'], 'samples': 2},
                    input='x+1', hits=['x+1', '1+x', '(x+1)*1', 'x+2-1', '2*x+1-x', '(x+1)^1'], miss=['x+1+%d'],
                    filler=('x', 'x')),
    'formula_tol': dict(fam='math', cls='FormulaGrader', kinds=ALL_KINDS,
                        options={'variables': ['x'], 'samples': 1, 'tolerance': 0.1, 'sample_from': {'x': [2, 3]}},
                        input='x+1', hits=['x+1', 'x+1.05', 'x+0.95', '1+x'], miss=['x+1+%d', 'x+1.5'],
                        filler=('x', 'x')),
    'numerical': dict(fam='math', cls='NumericalGrader', kinds=ALL_KINDS, options={}, input='1+2',
                      hits=['3', '6/2', '1.5*2', '3.0', '2+1', 'sqrt(9)'], miss=['3+%d'], filler=('7', '7')),
    'numerical_tol': dict(fam='math', cls='NumericalGrader', kinds=ALL_KINDS, options={'tolerance': '2%'}, input='1+2',
                          hits=['3', '3.03', '2.97', '6/2'], miss=['3+%d', '3.3'], filler=('7', '7')),
    'matrix': dict(fam='math', cls='MatrixGrader', kinds=ALL_KINDS, lib='shape',
                   options={'answer_shape_mismatch': {'is_raised': True, 'msg_detail': 'shape'}}, input='[1,2]',
                   hits=['[1,2]', '[2,4]/2', '[0,1]+[1,1]', '2*[0.5,1]', '[1,2]*1', '[1,1+1]'], miss=['[1,2+%d]'],
                   filler=('[5,5]', '[5,5]')),
    # matrix error messages suppressed: the submission has another shape than some stored answers (those are misses)
    'matrix_suppress': dict(fam='math', cls='MatrixGrader', kinds=ALL_KINDS, options={'suppress_matrix_messages': True},
                            input='[1,2,3]', hits=['[1,2,3]', '[2,4,6]/2', '[0,1,2]+[1,1,1]', '[1,2,3]*1'],
                            miss=['[1,2]', '[1,2,3+%d]', '[[1,2],[3,%d]]', '[1,2+%d]', '%d'], filler=('[5,5]', '[5,5]')),
    'singlelist': dict(fam='list', kinds=NO_PART | {'part'}, shape='flat', sub='string', ordered=False, pc=True, n=2),
    'singlelist_ordered': dict(fam='list', kinds=NO_PART | {'part'}, shape='flat', sub='numerical', ordered=True,
                               pc=True, n=2),
    'singlelist4': dict(fam='list', kinds=NO_PART | {'part'}, shape='flat', sub='string', ordered=False, pc=True, n=4),
    'singlelist4_ordered': dict(fam='list', kinds=NO_PART | {'part'}, shape='flat', sub='numerical', ordered=True,
                                pc=True, n=4),
    'singlelist_aon': dict(fam='list', kinds=NO_PART, shape='flat', sub='string', ordered=False, pc=False, n=2),
    'singlelist_aon_ordered': dict(fam='list', kinds=NO_PART, shape='flat', sub='numerical', ordered=True, pc=False,
                                   n=3),
    'interval': dict(fam='list', kinds=NO_PART | {'part'}, shape='interval', sub='numerical', ordered=True, pc=True, n=2),
    'interval_aon': dict(fam='list', kinds=NO_PART, shape='interval', sub='numerical', ordered=True, pc=False, n=2),
    'nested': dict(fam='list', kinds=NO_PART | {'part'}, shape='nested', sub='string', ordered=False, pc=True, n=4),
    'nested_aon': dict(fam='list', kinds=NO_PART, shape='nested', sub='string', ordered=False, pc=False, n=4),
}
GRAIN = {'singlelist': 2, 'singlelist_ordered': 2, 'interval': 2, 'singlelist4': 4, 'singlelist4_ordered': 4, 'nested': 4}
# primary host of each grader class (always replayed) and the other option contexts (rotated in the quick tier)
FAMILIES = [('table', []), ('string', ['string_exact']), ('formula', ['formula_tol']), ('numerical', ['numerical_tol']),
            ('matrix', ['matrix_suppress']),
            ('singlelist', ['singlelist_aon', 'interval_aon', 'nested_aon', 'singlelist_aon_ordered', 'singlelist_ordered',
                            'interval', 'nested'])]
RANDOM_HOSTS = ['table', 'string', 'string_exact', 'formula', 'formula_tol', 'numerical', 'numerical_tol', 'matrix',
                'matrix_suppress', 'singlelist4', 'singlelist4_ordered', 'singlelist_aon', 'singlelist_aon_ordered',
                'interval', 'interval_aon', 'nested', 'nested_aon']
FORMS = ['alone', 'inlist', 'inlist2', 'insingle']


def kinds_of(alts):
    ks = set()
    for a in alts:
        for v in a['vals']:
            ks.add(v['e'] if v['k'] == 'raise' else v['k'])
    return ks


def supported(host, alts):
    """mirror of BestAlternative!Realisable (the specification decides; the trace spec rejects a record whose host
    cannot realise its alternatives as malformed)"""
    if not kinds_of(alts) <= HOSTS[host]['kinds']:
        return False
    g = GRAIN.get(host, 0)
    if g:
        for a in alts:
            for v in a['vals']:
                if v['k'] == 'part' and (frac(v['f']) * g).denominator != 1:
                    return False
    return True


def make_comparer(v, text, exceptions):
    """comparer for a 'part' or 'raise' value: reacts only to the intended submission"""
    f = float(frac(v['f']))

    def comparer(params, student, utils):
        if not utils.within_tolerance(params[0], student):
            return False
        if v['k'] == 'part':
            return {'grade_decimal': f, 'msg': text}
        if v['e'] == 'lib':
            raise exceptions.InvalidInput('E%02d' % v['eid'])
        raise ValueError('E%02d' % v['eid'])
    return comparer


ITEMS = {'string': ['p', 'q', 'r', 's'],
         'numerical': ['1', '2', '3', '4']}
SPELL = {'1': ['1', '2/2', '1.0'], '2': ['2', '1+1', '4/2'], '3': ['3', '6/2', '3.0'], '4': ['4', '2*2', '8/2'],
         'p': ['p', ' p', 'p '], 'q': ['q', ' q'], 'r': ['r', 'r '], 's': ['s', '  s']}


def make_notation(alts, short=False, variant=0, rng=None):
    """how the author writes the alternatives (mirror of BestAlternative!Notations): the shortest legal notation
    (short), the most explicit one, or a random legal one (rng)"""
    items = []
    for i, a in enumerate(alts, 1):
        c1 = frac(a['credit']) == 1
        nomsg = a['msg']['len'] == 0
        single = len(a['vals']) == 1
        if rng is not None:
            bare = c1 and nomsg and rng.random() < 0.5
            has_credit = (not bare) and ((not c1) or rng.random() < 0.5)
            has_msg = (not bare) and ((not nomsg) or rng.random() < 0.5)
            one = single and rng.random() < 0.5
        elif short:
            bare = c1 and nomsg
            has_credit, has_msg = (not c1), (not nomsg)
            one = single
        else:
            bare = False
            has_credit = has_msg = True
            one = single and (i + variant) % 2 == 1
        items.append({'t': 'bare' if bare else 'dict', 'expect': {'t': 'one' if one else 'many', 'vs': a['vals']},
                      'hasCredit': has_credit, 'credit': a['credit'] if has_credit else [1, 1],
                      'hasMsg': has_msg, 'msg': a['msg'] if has_msg else NOMSG})
    it = items[0]
    may_single = len(items) == 1 and not (it['t'] == 'bare' and it['expect']['t'] == 'many')
    if may_single and (short if rng is None else rng.random() < 0.5):
        return {'t': 'single', 'item': it, 'items': []}
    return {'t': 'tuple', 'items': items, 'item': items[0]}


class Rendering(object):
    """answers tuple, grader options and submission realising the abstract alternatives in one host context"""

    def __init__(self, host, alts, short=False, variant=0, notation=None):
        import mitxgraders
        from mitxgraders import exceptions
        self.host, self.h, self.alts, self.short = host, HOSTS[host], alts, short
        self.fam = self.h['fam']
        self.options = dict(self.h.get('options', {}))
        self.table = {('fill', 'fill'): 1}
        self.variant = variant
        self.exceptions = exceptions
        self.mitx = mitxgraders
        self.has_lib = 'lib' in kinds_of(alts)
        if self.fam == 'string' and self.has_lib:
            self.options['validation_pattern'] = '[^!]*'
        if self.fam == 'list':
            n, items = self.h['n'], ITEMS[self.h['sub']]
            if self.h['shape'] == 'interval':
                self.input = '[1, 2)'
            elif self.h['shape'] == 'nested':
                self.input = 'p, q; r, s'
            else:
                self.input = ', '.join(items[:n])
        else:
            self.input = self.h['input']
        self.notation = notation or make_notation(alts, short, variant)
        nt = self.notation
        items = [nt['item']] if nt['t'] == 'single' else nt['items']
        written = []
        for i, (it, a) in enumerate(zip(items, alts), 1):
            expects = tuple(self.value(i, j, a, v) for j, v in enumerate(it['expect']['vs'], 1))
            expect = expects[0] if it['expect']['t'] == 'one' else expects
            if it['t'] == 'bare':
                written.append(expect)
                continue
            d = {'expect': expect}
            if it['hasCredit']:
                d['grade_decimal'] = num(it['credit'], short)
            if it['hasMsg']:
                d['msg'] = marker('A', it['msg'])
            written.append(d)
        self.answers = written[0] if nt['t'] == 'single' else tuple(written)

    # ---- one value of one alternative
    def value(self, i, j, a, v):
        kind = v['e'] if v['k'] == 'raise' else v['k']
        pick = (i * 3 + j + self.variant)
        uid = 10 * i + j
        if self.fam == 'table':
            key = 'v%d_%d' % (i, j)
            if kind == 'hit':
                self.table[(key, 'IN')] = (1, marker('A', a['msg']))
            elif kind == 'part':
                grade = float(frac(v['f']) * frac(a['credit']))
                self.table[(key, 'IN')] = {'ok': 'partial' if 0 < grade < 1 else grade == 1, 'grade_decimal': grade,
                                           'msg': marker('P', v['m'])}
            elif kind == 'lib':
                self.table[(key, 'IN')] = ('raise', self.exceptions.InvalidInput('E%02d' % v['eid']))
            elif kind == 'foreign':
                self.table[(key, 'IN')] = ('raise', ValueError('E%02d' % v['eid']))
            return key
        if self.fam == 'string':
            if kind == 'hit':
                return self.h['hits'][pick % len(self.h['hits'])]
            if kind == 'miss':
                return 'no%d_%d' % (i, j)
            return 'E%02d!' % v['eid']
        if self.fam == 'math':
            hit = self.h['hits'][pick % len(self.h['hits'])]
            if kind == 'hit':
                return hit
            if kind == 'miss':
                m = self.h['miss'][pick % len(self.h['miss'])]
                return m % uid if '%d' in m else m
            if self.h.get('lib') == 'shape' and kind == 'lib':
                # a stored answer of another shape: the default comparer raises, the length names the alternative
                return '[' + ','.join(['1'] * v['eid']) + ']'
            return {'comparer_params': [hit], 'comparer': make_comparer(v, marker('P', v['m']), self.exceptions)}
        return self.list_value(kind, pick, uid, v)

    def list_value(self, kind, pick, uid, v):
        h = self.h
        n, sub, shape = h['n'], h['sub'], h['shape']
        items = ITEMS[sub][:n]
        spelled = [SPELL[x][(pick + t) % len(SPELL[x])] for t, x in enumerate(items)]
        wrong = (['z%d_%d' % (uid, t) for t in range(n)] if sub == 'string' else [str(70 + uid + 100 * t) for t in range(n)])
        if kind == 'hit':
            content = spelled if pick % 2 else list(items)
            if not h['ordered'] and shape == 'flat' and pick % 3 == 0:
                content = list(reversed(content))
            as_text = pick % 4 >= 2
        elif kind == 'miss':
            content, as_text = wrong, pick % 4 == 3
        elif kind == 'part':
            k = int(frac(v['f']) * GRAIN[self.host])
            if shape == 'nested':
                k = int(frac(v['f']) * 4)
            content = [{'expect': items[0], 'msg': marker('P', v['m'])}] + items[1:k] + wrong[k:]
            as_text = False
        else:   # lib: the comparison with this stored list raises a library error naming the alternative
            content = items[:-1] + ['E%02d!' % v['eid'] if sub == 'string' else 'E%02d' % v['eid']]
            as_text = pick % 2 == 0
        if shape == 'interval':
            if as_text:
                return '[%s, %s)' % (content[0], content[1])
            return ['[', content[0], content[1], ')']
        if shape == 'nested':
            if as_text:
                return '%s, %s; %s, %s' % tuple(content)
            if kind == 'hit' and pick % 3 == 0:
                return [content[2:], content[:2]]
            return [content[:2], content[2:]]
        if as_text:
            return (', ' if pick % 2 else ',').join(content)
        return content

    # ---- grader objects
    def item_class_and_options(self, wrong_text):
        m = self.mitx
        opts = dict(self.options)
        if wrong_text or not self.short:
            opts['wrong_msg'] = wrong_text
        if self.fam == 'table':
            from engine.fixtures import TableGrader
            opts['table'] = self.table
            return TableGrader, opts
        if self.fam == 'string':
            return m.StringGrader, opts
        if self.fam == 'math':
            return getattr(m, self.h['cls']), opts
        h = self.h
        if h['sub'] == 'string':
            subopts = {'strip': True}
            if self.has_lib:
                subopts['validation_pattern'] = '[^!]*'
            sub = m.StringGrader(**subopts)
        else:
            sub = m.NumericalGrader(tolerance=1e-9)
        opts['partial_credit'] = h['pc']
        if h['shape'] == 'interval':
            opts['subgrader'] = sub
            return m.IntervalGrader, opts
        if h['shape'] == 'nested':
            opts['subgrader'] = m.SingleListGrader(subgrader=sub, delimiter=',', partial_credit=h['pc'])
            opts['delimiter'] = ';'
            return m.SingleListGrader, opts
        opts['subgrader'] = sub
        opts['ordered'] = h['ordered']
        return m.SingleListGrader, opts

    def filler(self):
        if self.fam != 'list':
            return self.h['filler']
        shape, sub = self.h['shape'], self.h['sub']
        if shape == 'interval':
            return '(5, 6]', '(5,6]'
        if shape == 'nested':
            return [['u', 'w'], ['k', 'l']], 'u,w;k,l'
        return (['u', 'w'], 'u,w') if sub == 'string' else (['8', '9'], '8,9')

    def grader(self, wrong_text, form):
        m = self.mitx
        cls, opts = self.item_class_and_options(wrong_text)
        if form == 'alone':
            item = cls(answers=self.answers, **opts)
            return item, item, self.input
        fill_ans, fill_in = self.filler()
        item = cls(**opts)
        if form == 'inlist':
            outer = m.ListGrader(answers=[self.answers, fill_ans], subgraders=item, ordered=True)
            return outer, item, [self.input, fill_in]
        if form == 'inlist2':
            outer = m.ListGrader(answers=[fill_ans, self.answers], subgraders=[cls(**opts), item], ordered=True)
            return outer, item, [fill_in, self.input]
        if form == 'insingle':
            outer = m.SingleListGrader(answers=[self.answers], subgrader=item, delimiter='|')
            return outer, item, self.input
        raise ValueError(form)


def project(alts, wrong, form, call):
    """run call() and project what the student sees: {'k': 'res', grade, msg} | {'k': 'err', cls, eid} | other"""
    from mitxgraders.exceptions import MITxError, StudentFacingError
    base = {'k': 'res', 'grade': [0, 1], 'msg': NOMSG, 'cls': 'none', 'eid': 0}
    try:
        r = call()
    except MITxError as e:
        text = str(e)
        out = dict(base, k='err')
        if type(e) is StudentFacingError and text.startswith('Invalid Input: Could not check input'):
            out['cls'] = 'generic'
            return out
        out['cls'] = 'lib'
        mm = re.search(r'E(\d\d)', text) or re.search(r'Expected answer to be a vector of length (\d+)', text)
        out['eid'] = int(mm.group(1)) if mm else -1
        return out
    except Exception as e:  # an exception that is not a library error must never reach the platform
        return dict(base, k='err', cls='escaped_' + type(e).__name__, eid=-1)
    if form in ('inlist', 'inlist2'):
        if not isinstance(r, dict) or 'input_list' not in r or len(r['input_list']) != 2:
            return dict(base, k='shape')
        fill = r['input_list'][1 if form == 'inlist' else 0]
        if fill.get('grade_decimal') != 1:
            return dict(base, k='shape')
        r = r['input_list'][0 if form == 'inlist' else 1]
    if not isinstance(r, dict) or not {'ok', 'grade_decimal', 'msg'} <= set(r):
        return dict(base, k='shape')
    g = r['grade_decimal']
    try:
        q = Fraction(float(g)).limit_denominator(4096)
    except (TypeError, ValueError, OverflowError):
        return dict(base, k='shape')
    if abs(float(g) - float(q)) > 1e-9:
        return dict(base, k='shape')
    tab = marker_table(alts, wrong)
    msg = r['msg']
    m = tab.get(msg)
    if m is None:
        m = {'id': -1, 'len': len(msg) if isinstance(msg, str) else -1}
    return dict(base, grade=[q.numerator, q.denominator], msg=m)


def run_case(gname, alts, wrong, form, short=False, variant=0, notation=None):
    """-> (projected observation, comparison order seen by TableGrader or None)"""
    rd = Rendering(gname, alts, short=short, variant=variant, notation=notation)
    holder = {}

    def call():
        outer, item, inp = rd.grader(marker('W', wrong), form)
        holder['item'] = item
        return outer(None, inp)
    obs = project(alts, wrong, form, call)
    calls = None
    if gname == 'table' and 'item' in holder:
        calls = [c[0] for c in holder['item'].calls if c[1] == 'IN']
    return obs, calls


def describe(gname, alts, wrong, form, short=False, variant=0, notation=None):
    """the concrete configuration as text, for violation reports"""
    from engine import repo
    repo.activate()
    rd = Rendering(gname, alts, short=short, variant=variant, notation=notation)
    cls, opts = rd.item_class_and_options(marker('W', wrong))
    opts = {k: v for k, v in opts.items() if k not in ('table', 'wrong_msg')}

    def show(x):
        if isinstance(x, dict):
            return {k: show(v) for k, v in x.items()}
        if isinstance(x, (list, tuple)):
            return type(x)(show(v) for v in x)
        return '<comparer>' if callable(x) else x
    def showopt(v):
        return '%s(%s)' % (type(v).__name__, ', '.join('%s=%r' % kv for kv in sorted(v.config.items())
                                                       if kv[0] in ('partial_credit', 'delimiter', 'strip', 'tolerance',
                                                                    'validation_pattern'))) if hasattr(v, 'config') else v
    return {'grader': '%s [%s]' % (cls.__name__, gname), 'host': gname, 'form': form, 'answers': repr(show(rd.answers)),
            'options': repr({k: showopt(v) for k, v in show(opts).items()}),
            'wrong_msg': marker('W', wrong), 'input': rd.input,
            'table': repr({k: (v if not (isinstance(v, tuple) and v[0] == 'raise') else ('raise', repr(v[1])))
                           for k, v in rd.table.items()}) if gname == 'table' else None}


def flat_positions(alts):
    return ['v%d_%d' % (i, j) for i, a in enumerate(alts, 1) for j in range(1, len(a['vals']) + 1)]


# ------------------------------------------------------------------ spec -> code
def classify(alts, allowed, obs):
    """stable class string of a disagreement"""
    res = [o for o in allowed if o['k'] == 'res']
    if obs['k'] == 'res' and res:
        if obs['grade'] != res[0]['grade']:
            return 'grade-not-maximum'
        if obs['msg']['id'] == -1:
            return 'message-from-elsewhere'
        if obs['msg']['id'] == 99 or any(o['msg']['id'] == 99 for o in res):
            return 'wrong-msg-rule'
        return 'message-not-longest-of-best'
    if obs['k'] == 'err':
        return 'unexpected-error' if not any(o['k'] == 'err' for o in allowed) else 'error-not-from-an-alternative'
    if obs['k'] == 'res':
        return 'graded-despite-error-everywhere'
    return 'malformed-result'


def replay_states(states, extra):
    from engine import repo
    repo.activate()
    part = extra['part']
    full = extra['full']
    n = 0
    evals = 0
    keys = set()
    bad = []
    drift = []
    sample = None
    mismatch = None
    for st in states:
        c = st['c']
        if c['kind'] != 'case':
            continue
        n += 1
        alts = concrete(c['alts'])
        out = st['out']
        kinds = sorted(kinds_of(alts))
        h = zlib.crc32(json.dumps(c['alts'], sort_keys=True).encode())      # stable per-case rotation key
        plan = []          # (host, form, wrong_msg settings)
        if part == 'table':
            plan = [('table', 'alone', (0, 1))]
        else:
            hosts = set(out['hosts'])
            if hosts != {x for x in HOSTS if supported(x, alts)}:
                mismatch = 'specification lists hosts %s, adapter can render %s (%s)' % (
                    sorted(hosts), sorted(x for x in HOSTS if supported(x, alts)), c['alts'])
            for fi, (primary, others) in enumerate(FAMILIES):
                others = [x for x in others if x in hosts]
                if full:
                    chosen = ([primary] if primary in hosts else []) + others
                else:       # quick tier: the primary context and one of the other option contexts, rotating
                    chosen = ([primary] if primary in hosts else []) + ([others[(h >> fi) % len(others)]] if others else [])
                for hi, host in enumerate(chosen):
                    plan.append((host, 'alone', (0, 1)))
                    if full:
                        plan.append((host, FORMS[1 + (h + hi + fi) % 3], (0, 1)))
                if chosen and not full:
                    plan.append((chosen[(h >> 3) % len(chosen)], FORMS[1 + (h >> 5) % 3], ((h >> 7) % 2,)))
        for wi, (wrong, akey, ckey) in enumerate(((NOMSG, 'none', 'code_none'), (WRONG, 'some', 'code_some'))):
            allowed = out[akey]
            for (g, form, wis) in plan:
                if wi not in wis:
                    continue
                short = (wi == 0)
                obs, calls = run_case(g, alts, wrong, form, short=short, variant=h % 6)
                evals += 1
                keys.add((g, form, akey, c['n'], obs['k'], tuple(kinds)))
                if sample is None and c['n'] > 1:
                    sample = {'case': c, 'grader': g, 'form': form, 'allowed': allowed, 'observed': obs}
                if obs not in allowed:
                    if len(bad) < 40:
                        bad.append({'descs': c['alts'], 'alts': alts, 'wrong': wrong, 'grader': g, 'form': form,
                                    'short': short, 'variant': h % 6, 'allowed': allowed, 'observed': obs})
                    else:
                        bad.append(None)
                    continue
                if obs != out[ckey] and len(drift) < 5:
                    drift.append('result %s differs from the modelled selection order %s (%s/%s, alternatives %s)'
                                 % (obs, out[ckey], g, form, c['alts']))
                if calls is not None and form == 'alone' and calls != flat_positions(alts)[:out['calls']] \
                        and len(drift) < 5:
                    drift.append('comparison order %s differs from the modelled listing order %s'
                                 % (calls, flat_positions(alts)[:out['calls']]))
    return {'n': n, 'evals': evals, 'keys': sorted(keys), 'bad': bad, 'drift': drift, 'sample': sample,
            'mismatch': mismatch}


def replay_loop_states(states, extra):
    """terminal states of the check-loop machine: comparison history and returned outcome against TableGrader (drift only)"""
    from engine import repo
    repo.activate()
    n = 0
    drift = []
    keys = set()
    for st in states:
        if st['pc'] not in ('done', 'failed'):
            continue
        n += 1
        alts, wrong = st['case']['alts'], st['case']['wrong']
        obs, calls = run_case('table', alts, wrong, 'alone', short=False)
        keys.add(('loop', st['pc'], len(alts), len(st['hist'])))
        want = ['v%d_%d' % (p[0], p[1]) for p in st['hist']]
        if calls != want and len(drift) < 3:
            drift.append('check loop: comparisons %s, model history %s' % (calls, want))
        if obs != st['ret'] and len(drift) < 3:
            drift.append('check loop: returned %s, model returned %s' % (brief([obs]), brief([st['ret']])))
    return {'n': n, 'drift': drift, 'keys': sorted(keys)}


def report(ctx, b):
    if b is None:
        return
    notation = b.get('notation') or make_notation(b['alts'], b['short'], b.get('variant', 0))
    sig = describe(b['grader'], b['alts'], b['wrong'], b['form'], short=b['short'], variant=b.get('variant', 0),
                   notation=notation)
    sig['alternatives'] = b.get('descs') or b['alts']
    sig['allowed'] = b['allowed']
    sig['observed'] = b['observed']
    sig['class'] = b.get('clause') or classify(b['alts'], b['allowed'], b['observed'])
    sig['case'] = {'id': 0, 'grader': b['grader'], 'host': b['grader'], 'form': b['form'], 'short': b['short'],
                   'variant': b.get('variant', 0), 'alts': b['alts'], 'wrong': b['wrong'], 'notation': notation}
    ctx.violation(sig, '%s (%s) answers=%s wrong_msg=%r on %r: spec allows %s, code gave %s [%s]' % (
        sig['grader'], sig['form'], sig['answers'], sig['wrong_msg'], sig['input'],
        brief(b['allowed']), brief([b['observed']]), sig['class']))


def brief(outs):
    if not isinstance(outs, list):
        return str(outs)
    items = []
    for o in outs:
        if o['k'] == 'res':
            items.append('grade %s msg#%d(len %d)' % (Fraction(*o['grade']), o['msg']['id'], o['msg']['len']))
        elif o['k'] == 'err':
            items.append('error %s#%d' % (o['cls'], o['eid']))
        else:
            items.append(o['k'])
    return '{' + '; '.join(items) + '}'


# ------------------------------------------------------------------ code -> spec (random driver)
def rand_case(rng, idx):
    gname = rng.choice(RANDOM_HOSTS)
    n = rng.choice([1, 2, 2, 3, 3, 4, 4, 5, 6, 6])
    credits = [[0, 1], [1, 8], [1, 4], [3, 8], [1, 2], [5, 8], [3, 4], [7, 8], [1, 1]]
    # few distinct credits and lengths per case, so that ties are frequent
    cpool = rng.sample(credits, rng.randint(1, 3)) + [[0, 1]] * rng.randint(0, 1) + [[1, 1]] * rng.randint(0, 1)
    lpool = [0] + [rng.randint(3, 40) for _ in range(rng.randint(1, 2))]
    fpool = [[1, 4], [1, 2], [3, 4]]
    kinds = ['miss', 'miss', 'hit', 'hit', 'part', 'part']
    if rng.random() < 0.25:
        kinds += ['lib', 'foreign']
    kinds = [k for k in kinds if k in HOSTS[gname]['kinds']]
    if GRAIN.get(gname) == 2:
        fpool = [[1, 2]]
    alts = []
    for i in range(1, n + 1):
        ln = rng.choice(lpool)
        vals = []
        for j in range(1, rng.choice([1, 1, 1, 2, 2, 3, 4]) + 1):
            k = rng.choice(kinds)
            eid = 10 * i + j
            if k == 'miss':
                v = {'k': 'miss', 'f': [0, 1], 'm': NOMSG, 'e': 'none', 'eid': 0}
            elif k == 'hit':
                v = {'k': 'hit', 'f': [1, 1], 'm': NOMSG, 'e': 'none', 'eid': 0}
            elif k == 'part':
                pl = rng.choice(lpool + [0])
                v = {'k': 'part', 'f': rng.choice(fpool), 'm': {'id': eid, 'len': pl} if pl else NOMSG,
                     'e': 'none', 'eid': 0}
            else:
                v = {'k': 'raise', 'f': [0, 1], 'm': NOMSG, 'e': k, 'eid': eid}
            vals.append(v)
        alts.append({'credit': rng.choice(cpool), 'msg': {'id': i, 'len': ln} if ln else NOMSG, 'vals': vals})
    wl = rng.choice([0, rng.randint(3, 40)])
    wrong = {'id': 99, 'len': wl} if wl else NOMSG
    form = rng.choice(FORMS)
    return {'id': idx, 'grader': gname, 'host': gname, 'form': form, 'short': rng.random() < 0.5,
            'variant': rng.randint(0, 5), 'alts': alts, 'wrong': wrong, 'notation': make_notation(alts, rng=rng)}


def observe_chunk(cases, extra):
    from engine import repo
    repo.activate()
    from engine import bystanders
    recs = []
    for k, c in enumerate(cases):
        if k % 100 == 0:        # unrelated grader objects work in between (shared class-level state must not leak)
            try:
                bystanders.stress()
            except Exception:  # noqa
                pass
        obs, _ = run_case(c['grader'], c['alts'], c['wrong'], c['form'], short=c['short'],
                          variant=c['variant'], notation=c['notation'])
        c = dict(c)
        c['obs'] = obs
        recs.append(c)
    return recs


def doc_example_records(start_id):
    """docs/item_grader.md, 'Specifying Answers': the documented StringGrader with five alternatives, abstracted by
    plain string equality (hit iff the submission equals a listed value) and judged like every other record"""
    from engine import repo
    repo.activate()
    from mitxgraders import StringGrader
    answers = ('wolf', 'canis lupus',
               {'expect': 'dog', 'grade_decimal': 0.5, 'msg': 'No, not dog!'},
               {'expect': 'unicorn', 'grade_decimal': 0, 'msg': 'No, not unicorn!'},
               {'expect': ('werewolf', 'vampire'), 'grade_decimal': 0, 'msg': 'Wrong universe!'})
    norm = [({'expect': a} if not isinstance(a, dict) else a) for a in answers]
    recs = []
    orders = [list(range(5)), [4, 3, 2, 1, 0], [2, 0, 4, 1, 3]]
    for order in orders:
        listing = tuple(answers[k] for k in order)
        for wrong_text in ('Try again!', ''):
            grader = StringGrader(answers=listing, wrong_msg=wrong_text)
            for inp in ('wolf', 'canis lupus', 'dog', 'unicorn', 'werewolf', 'vampire', 'cat', 'Wolf'):
                alts, texts, items = [], {'': NOMSG}, []
                for pos, k in enumerate(order, 1):
                    a = norm[k]
                    values = a['expect'] if isinstance(a['expect'], tuple) else (a['expect'],)
                    text = a.get('msg', '')
                    m = {'id': pos, 'len': len(text)} if text else NOMSG
                    texts[text] = m
                    q = Fraction(a.get('grade_decimal', 1)).limit_denominator(8)
                    alts.append({'credit': [q.numerator, q.denominator], 'msg': m,
                                 'vals': [{'k': 'hit' if v == inp else 'miss', 'f': [1, 1] if v == inp else [0, 1],
                                           'm': NOMSG, 'e': 'none', 'eid': 0} for v in values]})
                    isdict = isinstance(answers[k], dict)
                    items.append({'t': 'dict' if isdict else 'bare',
                                  'expect': {'t': 'many' if isinstance(a['expect'], tuple) else 'one', 'vs': alts[-1]['vals']},
                                  'hasCredit': isdict, 'credit': alts[-1]['credit'] if isdict else [1, 1],
                                  'hasMsg': isdict, 'msg': m if isdict else NOMSG})
                wrong = {'id': 99, 'len': len(wrong_text)} if wrong_text else NOMSG
                texts[wrong_text] = wrong
                r = grader(None, inp)
                q = Fraction(float(r['grade_decimal'])).limit_denominator(4096)
                obs = {'k': 'res', 'grade': [q.numerator, q.denominator],
                       'msg': texts.get(r['msg'], {'id': -1, 'len': len(r['msg'])}), 'cls': 'none', 'eid': 0}
                recs.append({'id': start_id + len(recs), 'grader': 'string', 'host': 'string_exact', 'form': 'docs',
                             'short': True, 'variant': 0, 'alts': alts, 'wrong': wrong, 'obs': obs,
                             'notation': {'t': 'tuple', 'items': items, 'item': items[0]},
                             'doc': {'answers': repr(listing), 'wrong_msg': wrong_text, 'input': inp}})
    return recs


# ------------------------------------------------------------------ entry point
def run(ctx):
    bounds = {}
    for part in ('table', 'real'):
        d = os.path.join(ctx.scratch, 'cases_' + part)
        r = ctx.tlc('graders/MC_BestAlternative.tla', 'graders/MC_BestAlternative_%s_%s.cfg' % (part, ctx.tier),
                    dump=d, timeout=6000)
        bounds['tlc_states_' + part] = r.distinct
        res = dump.parallel(d + '.dump', 'engine.adapters.c08', 'replay_states',
                            extra={'part': part, 'full': not ctx.quick})
        os.remove(d + '.dump')
        for x in res:
            ctx.traces_validated += x['evals']
            ctx.evaluations += x['evals']
            for k in x['keys']:
                ctx.nontrivial.add(tuple(map(str, k)))
            if x['sample']:
                ctx.sample(x['sample'], limit=3)
            if x['mismatch']:
                from engine.main import Machinery
                raise Machinery('host table of the specification and of the adapter disagree: ' + x['mismatch'])
            for b in x['bad']:
                report(ctx, b)
            for dr in x['drift']:
                ctx.note_drift(dr)
        bounds['cases_' + part] = sum(x['n'] for x in res)
    # implementation-shaped check-loop machine: refinement + termination by TLC, step history against the code as drift
    d = os.path.join(ctx.scratch, 'loop')
    r = ctx.tlc('graders/MC_BestAlternativeLoop.tla', 'graders/MC_BestAlternativeLoop_quick.cfg', dump=d, timeout=3000)
    bounds['tlc_states_loop'] = r.distinct
    res = dump.parallel(d + '.dump', 'engine.adapters.c08', 'replay_loop_states')
    os.remove(d + '.dump')
    for x in res:
        ctx.traces_validated += x['n']
        ctx.evaluations += x['n']
        for k in x['keys']:
            ctx.nontrivial.add(tuple(map(str, k)))
        for dr in x['drift']:
            ctx.note_drift(dr)
    bounds['loop_behaviours_replayed'] = sum(x['n'] for x in res)
    if not ctx.quick:
        r = ctx.tlc('graders/MC_BestAlternativeLoop.tla', 'graders/MC_BestAlternativeLoop_thorough.cfg', timeout=6000)
        bounds['tlc_states_loop_3'] = r.distinct
    # code -> spec
    n = 4000 if ctx.quick else 60000
    cases = []
    while len(cases) < n:
        c = rand_case(ctx.rng, len(cases))
        if supported(c['grader'], c['alts']):
            cases.append(c)
    recs = [r for chunk in dump.pmap('engine.adapters.c08', 'observe_chunk', cases) for r in chunk]
    recs += doc_example_records(len(recs))
    rej = traces.validate(ctx, 'graders/BestAlternativeTrace.tla', 'graders/BestAlternativeTrace.cfg', recs)
    ctx.evaluations += len(recs)
    byid = {r['id']: r for r in recs}
    for r in recs:
        ctx.nontrivial.add(('trace', r['grader'], r['form'], str(len(r['alts'])), r['obs']['k']))
    for r in recs[:2]:
        ctx.sample({'trace_record': r})
    for i, clause in rej.items():
        r = byid[i]
        if clause in ('malformed-record', 'notation-denotes-other-alternatives'):
            from engine.main import Machinery
            raise Machinery('the random driver produced a record outside the specification domain: %r' % (byid[i],))
        if clause == 'drift':
            ctx.note_drift('random case %d (%s/%s): result %s is allowed but not the modelled selection'
                           % (i, r['grader'], r['form'], brief([r['obs']])))
            continue
        if r['form'] == 'docs':
            sig = dict(r['doc'], grader='StringGrader (docs/item_grader.md example)', observed=r['obs'])
            sig['class'] = clause
            ctx.violation(sig, 'documented example %s wrong_msg=%r on %r: code gave %s [%s]' % (
                sig['answers'], sig['wrong_msg'], sig['input'], brief([r['obs']]), clause))
            continue
        report(ctx, {'alts': r['alts'], 'wrong': r['wrong'], 'grader': r['grader'], 'form': r['form'],
                     'short': r['short'], 'variant': r['variant'], 'notation': r['notation'],
                     'allowed': 'not in BestAlternative!AllowedOut (BestAlternativeTrace)', 'clause': clause,
                     'observed': r['obs']})
    bounds.update({'tier': ctx.tier, 'random_records': n, 'max_alternatives_exhaustive': 3 if ctx.quick else 4,
                   'max_alternatives_random': 6})
    ctx.extra['bounds'] = bounds
    ctx.assumptions += [
        'a comparison with one value is abstracted to miss / hit / partial-credit-by-comparer / raise; the rendering of '
        'these outcomes into each grader class (equivalent spellings, custom comparers, validation patterns) is trusted',
        'the statement is silent about alternatives whose comparison raises: failing with any of the raised errors and '
        'grading the remaining alternatives are both accepted; the modelled first-error behaviour is monitored as drift',
        "the 'ok' field of the result and the undocumented 'ok' key of an answer are outside this property (C01)",
        'credits and comparer fractions are dyadic so that float products are exact and ties are real ties',
    ]


def replay(ctx, rec):
    """re-run the recorded concrete case and let the trace specification judge it"""
    sig = rec['signature']
    if 'case' not in sig:       # a documented example: re-run all of them
        out = [r for r in doc_example_records(0)
               if r['doc']['input'] == sig['input'] and r['doc']['answers'] == sig['answers']
               and r['doc']['wrong_msg'] == sig['wrong_msg']]
    else:
        out = observe_chunk([sig['case']], None)
    print('configuration:', {k: sig.get(k) for k in ('grader', 'form', 'answers', 'options', 'wrong_msg', 'input')})
    print('observed now :', brief([out[0]['obs']]))
    rej = traces.validate(ctx, 'graders/BestAlternativeTrace.tla', 'graders/BestAlternativeTrace.cfg', out)
    rej = {k: v for k, v in rej.items() if v != 'drift'}
    if rej:
        print('rejected by the specification:', list(rej.values())[0])
    return not rej
