"""C05 -- ListGrader gives the best consistent assignment and reports it per input box.

spec -> code: TLC enumerates every case of MC_ListGrading (parts flat / group / nested) together with the set of result
              vectors ListGrading allows; every case is replayed into a real ListGrader whose subgraders are
              table-driven ItemGraders (engine.fixtures.TableGrader) with a unique marker message per (answer, input)
              cell, so that the adapter knows which cell every reported entry came from; the observed vector must be a
              member of the allowed set.  Flat unordered cases are replayed under input permutations as well.
code -> spec: random larger layouts (up to 8 boxes, 1-3 answer lists, answers with alternatives, nested ListGraders up
              to three levels, groupings, SingleListGrader cells whose credit is what the real SingleListGrader returns
              when called directly) are graded by the real code, recorded as ndjson and validated by ListGradingTrace;
              unordered nodes with more than 4 groups carry an LP-duality certificate the trace spec checks.
"""
import itertools
import os
import random
import re
from fractions import Fraction

from engine import dump, traces

PALETTE = [Fraction(0), Fraction(1, 10), Fraction(1, 3), Fraction(1, 2), Fraction(7, 10), Fraction(1)]
OKS = {True: 'true', False: 'false', 'partial': 'partial'}
MARK = re.compile(r'M:([AS])([\d.]+)(?:~(\d+)|#(\d+)):in(\d+)(?:x(\d+))?;')


def ok_name(v):
    for k, n in ((True, 'true'), (False, 'false')):
        if v is k:
            return n
    return 'partial' if v == 'partial' else 'other:%r' % (v,)


def frac_of(x):
    """observed float -> exact small rational [n, d]; [-1, 1] when it is not one"""
    try:
        f = Fraction(x).limit_denominator(20000)
    except (TypeError, ValueError):
        return [-1, 1]
    if abs(float(f) - float(x)) > 1e-9:
        return [-1, 1]
    return [f.numerator, f.denominator]


def fr(q):
    return [q.numerator, q.denominator]


# ------------------------------------------------------------------------------------------------ flat replay (fast path)
class FlatRig(object):
    """One real ListGrader per (n, A, ordered, pc, style), reused for all cases of that shape: only the credit table of
    its TableGrader(s) changes between cases.  style 'single': one subgrader; 'list': one subgrader per answer."""

    def __init__(self, n, A, ordered, pc, style):
        from mitxgraders import ListGrader
        from engine.fixtures import TableGrader
        self.n, self.A = n, A
        self.ans = [['A%d.%d~1' % (a + 1, j + 1) for j in range(n)] for a in range(A)]
        self.inputs = ['in%d' % (i + 1) for i in range(n)]
        if style == 'list':
            subs = [TableGrader(table={}) for _ in range(n)]
            self.tables = [s.config['table'] for s in subs]
        else:
            subs = TableGrader(table={})
            self.tables = [subs.config['table']]
        self.subs = subs if isinstance(subs, list) else [subs]
        answers = [list(a) for a in self.ans]
        self.grader = ListGrader(answers=answers[0] if A == 1 else tuple(answers), subgraders=subs, ordered=ordered,
                                 partial_credit=pc)

    def load(self, tensor, den, numpy_numbers=False):
        """numpy_numbers: the subgraders report their credits as numpy scalars (what an author's numpy-computed
        grade_decimal or a numpy-backed custom ItemGrader delivers) instead of Python floats"""
        import numpy as np
        num = np.float64 if numpy_numbers else float
        for t in self.tables:
            t.clear()
        for a in range(self.A):
            for i in range(self.n):
                for j in range(self.n):
                    t = self.tables[j] if len(self.tables) > 1 else self.tables[0]
                    t[(self.ans[a][j], self.inputs[i])] = (num(tensor[a][i][j] / float(den)), 'M:A%d.%d~1:in%d;' % (a + 1, j + 1, i + 1))
        for s in self.subs:
            del s.calls[:]


def observe_flat(rig, den, perm):
    """perm: 0-based list, box P holds input perm[P].  Returns the vector in the spec's encoding, indexed by INPUT, or
    a string describing why the observation is outside every allowed vector."""
    inputs = [rig.inputs[perm[P]] for P in range(rig.n)]
    try:
        res = rig.grader(None, inputs)
    except Exception as e:  # noqa
        return 'raised %s: %s' % (type(e).__name__, str(e)[:80])
    il = res.get('input_list') if isinstance(res, dict) else None
    if not isinstance(il, list) or len(il) != rig.n:
        return 'result shape %r' % (res,)
    vec = [None] * rig.n
    for P, e in enumerate(il):
        m = MARK.fullmatch(e.get('msg', ''))
        if not m or m.group(1) != 'A':
            return 'box %d: no cell marker in message %r' % (P + 1, e.get('msg'))
        a, j = [int(x) for x in m.group(2).split('.')]
        inp = int(m.group(5))
        if inp != perm[P] + 1:
            return 'box %d holds input %d but reports the result of input %d' % (P + 1, perm[P] + 1, inp)
        u = e['grade_decimal'] * den
        if abs(u - round(u)) > 1e-9:
            return 'box %d: credit %r is not a cell credit' % (P + 1, e['grade_decimal'])
        vec[perm[P]] = [a, j, int(round(u)), ok_name(e['ok'])]
    return vec


def flat_perms(n, k, full):
    ident = list(range(n))
    if full:
        return [list(p) for p in itertools.permutations(range(n))]
    out = [ident]
    if n >= 2:
        r = random.Random(k)
        p = ident[:]
        while p == ident:
            r.shuffle(p)
        out.append(p)
    return out


def replay_flat(states, extra):
    from engine import repo
    repo.activate()
    rigs = {}
    n_cases = n_calls = 0
    keys = set()
    bad = []
    sample = None
    full = extra['full_perms']
    for k, st in enumerate(states):
        c = st['c']
        if c['kind'] != 'flat':
            continue
        n_cases += 1
        tensor = st['aux']
        allowed = st['out']
        styles = ['single', 'list'] if c['ordered'] else ['single']
        for style in styles:
            key = (c['n'], c['A'], c['ordered'], c['pc'], style)
            if key not in rigs:
                rigs[key] = FlatRig(*key)
            rig = rigs[key]
            if k % 97 == 0:                      # now and then a freshly constructed grader instead of the reused one
                rig = FlatRig(*key)
            rig.load(tensor, c['den'], numpy_numbers=(k % 3 == 1))      # every third case with numpy-scalar credits
            perms = [list(range(c['n']))] if c['ordered'] else flat_perms(c['n'], k, full and (c['n'] <= 3 or k % 4 == 0))
            for perm in perms:
                n_calls += 1
                obs = observe_flat(rig, c['den'], perm)
                if obs not in allowed:
                    b = {'kind': 'flat', 'n': c['n'], 'A': c['A'], 'den': c['den'], 'ordered': c['ordered'], 'pc': c['pc'],
                         'style': style, 'numpy_numbers': k % 3 == 1, 'tensor': tensor, 'perm': [p + 1 for p in perm], 'observed': obs, 'allowed': allowed}
                    bad.append(b if len(bad) < 40 else None)
                keys.add(('flat', c['n'], c['A'], c['ordered'], c['pc'], len(allowed) > 1, perm == sorted(perm)))
                if sample is None:
                    sample = {'case': {k2: c[k2] for k2 in ('n', 'A', 'den', 'ordered', 'pc')}, 'tensor': tensor,
                              'allowed': allowed[:3], 'observed': obs}
    return {'n': n_cases, 'calls': n_calls, 'keys': sorted(keys), 'bad': bad, 'sample': sample}


# ------------------------------------------------------------------------------------------------ layouts (general builder)
# descriptor:  {'kind': 'leaf', 'g': 'table' | 'slg', 'nalts': k, ...}
#              {'kind': 'list', 'ordered', 'pc', 'groups': [[relative positions, 1-based] per group], 'A': lists,
#               'subs': 'single' | 'list', 'children': [descriptor per answer slot]}
def leaf(nalts=1, g='table', **kw):
    d = {'kind': 'leaf', 'g': g, 'nalts': nalts}
    d.update(kw)
    return d


def lst(ordered, pc, groups, children, A=1, subs='single', grouping_cfg=None):
    return {'kind': 'list', 'ordered': ordered, 'pc': pc, 'groups': groups, 'A': A, 'subs': subs, 'children': children,
            'grouping_cfg': grouping_cfg}


def npos(d):
    return 1 if d['kind'] == 'leaf' else sum(len(g) for g in d['groups'])


def grouping_list(d):
    g = [0] * npos(d)
    for k, grp in enumerate(d['groups']):
        for p in grp:
            g[p - 1] = k + 1
    return g


def needs_grouping(d):
    return any(len(g) > 1 for g in d['groups']) or [g[0] for g in d['groups']] != list(range(1, len(d['groups']) + 1))


class Built(object):
    """real graders + abstract tree for one layout"""

    def __init__(self, desc, credit, item_credit=None, gd=None):
        """credit(coords, alt, p) -> Fraction: table credit of input p against alternative alt of the leaf answer at
        coords;  item_credit(coords, i, p, x) -> Fraction for SingleListGrader cells;  gd(coords, alt) -> Fraction:
        the answer alternative's own grade_decimal"""
        self.desc = desc
        self.credit = credit
        self.item_credit = item_credit
        self.gd = gd or (lambda coords, alt: Fraction(1))
        self.table = {}
        self.n = npos(desc)
        self.grader = self._grader(desc, top=True)
        ans = self._answers(desc, [], list(range(1, self.n + 1)))
        self.inputs = [self._input_text(p) for p in range(1, self.n + 1)]
        self._fill(desc, [], list(range(1, self.n + 1)))
        from mitxgraders import ListGrader
        kw = dict(answers=ans, subgraders=self.grader_subs, ordered=desc['ordered'], partial_credit=desc['pc'])
        if needs_grouping(desc) or desc.get('grouping_cfg'):
            kw['grouping'] = grouping_list(desc)
        self.top = ListGrader(**kw)

    # -- graders
    def _grader(self, d, top=False):
        from mitxgraders import ListGrader, SingleListGrader
        from engine.fixtures import TableGrader
        if d['kind'] == 'leaf':
            if d['g'] == 'slg':
                return SingleListGrader(subgrader=self.new_table_grader(), ordered=d.get('slg_ordered', False),
                                        partial_credit=d.get('slg_pc', True))
            return self.new_table_grader()
        if d['subs'] == 'list':
            subs = [self._grader(ch) for ch in d['children']]
        else:
            subs = self._grader(d['children'][0])
        if top:
            self.grader_subs = subs
            return None
        kw = dict(subgraders=subs, ordered=d['ordered'], partial_credit=d['pc'])
        if needs_grouping(d) or d.get('grouping_cfg'):
            kw['grouping'] = grouping_list(d)
        return ListGrader(**kw)

    def new_table_grader(self):
        # every TableGrader instance has its own table (the constructor copies it); all get the same content afterwards
        from engine.fixtures import TableGrader
        tg = TableGrader(table={})
        self.tgs = getattr(self, 'tgs', [])
        self.tgs.append(tg)
        return tg

    # -- texts
    def _slg_boxes(self):
        if not hasattr(self, '_slgp'):
            self._slgp = {}
        return self._slgp

    def _input_text(self, p):
        m = self._slg_boxes().get(p)
        if m is None:
            return 'in%d' % p
        return ','.join('in%dx%d' % (p, x + 1) for x in range(m))

    @staticmethod
    def ans_text(coords, alt):
        return 'A%s~%d' % ('.'.join(str(x) for x in coords), alt)

    @staticmethod
    def item_text(coords, i):
        return 'S%s#%d' % ('.'.join(str(x) for x in coords), i)

    # -- answers configuration (and which boxes are SingleListGrader boxes)
    def _answers(self, d, prefix, positions):
        """config value for the answers of list node d whose inputs are `positions` (global, in node order)"""
        lists = []
        for a in range(1, d['A'] + 1):
            one = []
            for h, ch in enumerate(d['children'], start=1):
                coords = prefix + [a, h]
                if ch['kind'] == 'leaf' and ch['g'] == 'table':
                    alts = tuple({'expect': self.ans_text(coords, x), 'grade_decimal': float(self.gd(coords, x)), 'msg': ''}
                                 for x in range(1, ch['nalts'] + 1))
                    if ch['nalts'] == 1 and self.gd(coords, 1) == 1 and (a + h) % 2 == 0:
                        one.append(self.ans_text(coords, 1))          # plain string form of an answer
                    else:
                        one.append(alts if len(alts) > 1 else alts[0])
                elif ch['kind'] == 'leaf':
                    one.append({'expect': [self.item_text(coords, i) for i in range(1, ch['items'] + 1)], 'msg': ''})
                else:
                    one.append(self._answers(ch, coords, None))
            lists.append(one)
        # remember SingleListGrader boxes
        if positions is not None:
            self._mark_slg(d, positions)
        return lists[0] if d['A'] == 1 else tuple(lists)

    def _mark_slg(self, d, positions):
        for k, grp in enumerate(d['groups']):
            # the child grading group k: ordered -> slot k; unordered -> the single child
            ch = d['children'][k]
            pos = [positions[r - 1] for r in grp]
            if ch['kind'] == 'leaf':
                if ch['g'] == 'slg':
                    self._slg_boxes()[pos[0]] = ch.get('given', ch['items'])
            else:
                self._mark_slg(ch, pos)

    # -- credit tables
    def _fill(self, d, prefix, positions):
        """fill every table cell an evaluation of node d can touch (all answer slots x all of the node's inputs)"""
        table = self.table
        for a in range(1, d['A'] + 1):
            for h, ch in enumerate(d['children'], start=1):
                coords = prefix + [a, h]
                if ch['kind'] == 'leaf' and ch['g'] == 'table':
                    for x in range(1, ch['nalts'] + 1):
                        for p in positions:
                            table[(self.ans_text(coords, x), 'in%d' % p)] = (
                                float(self.credit(coords, x, p)), 'M:%s:in%d;' % (self.ans_text(coords, x), p))
                elif ch['kind'] == 'leaf':
                    for i in range(1, ch['items'] + 1):
                        for p in positions:
                            for x in range(1, (self._slg_boxes().get(p) or 0) + 1):
                                table[(self.item_text(coords, i), 'in%dx%d' % (p, x))] = (
                                    float(self.item_credit(coords, i, p, x)), 'M:%s:in%dx%d;' % (self.item_text(coords, i), p, x))
                else:
                    self._fill(ch, coords, positions)
        if not prefix:
            for tg in self.tgs:
                tg.config['table'].update(table)

    # -- abstract tree
    def tree(self):
        return self._tree(self.desc, [], list(range(1, self.n + 1)), self.top)

    def _tree(self, d, prefix, positions, grader):
        from mitxgraders import ListGrader
        G = len(d['groups'])
        cells = []
        subs = grader.config['subgraders']
        for a in range(1, d['A'] + 1):
            rows = []
            for k in range(1, G + 1):
                row = []
                pos = [positions[r - 1] for r in d['groups'][k - 1]]
                for h in range(1, G + 1):
                    if d['ordered'] and h != k:
                        row.append({'kind': 'none'})
                        continue
                    ch = d['children'][h - 1]
                    sub = subs[h - 1] if isinstance(subs, list) else subs
                    coords = prefix + [a, h]
                    if ch['kind'] == 'leaf' and ch['g'] == 'table':
                        row.append({'kind': 'leaf', 'alts': [fr(self.credit(coords, x, pos[0]) * self.gd(coords, x))
                                                             for x in range(1, ch['nalts'] + 1)]})
                    elif ch['kind'] == 'leaf':
                        # credit of a cell graded by another real grader = what that grader returns when called directly
                        ans = self._validated_answer(coords)
                        r = sub.check(ans, self._input_text(pos[0]))
                        row.append({'kind': 'leaf', 'alts': [frac_of(r['grade_decimal'])]})
                    else:
                        row.append(self._tree(ch, coords, pos, sub))
                rows.append(row)
            cells.append(rows)
        node = {'kind': 'list', 'ordered': d['ordered'], 'pc': d['pc'], 'gm': [list(g) for g in d['groups']], 'cells': cells,
                'cert': []}
        if not d['ordered'] and G > 4:
            node['cert'] = [certificate([[value(cells[a][k][h]) * len(d['groups'][k]) for h in range(G)] for k in range(G)])
                            for a in range(d['A'])]
        return node

    def _validated_answer(self, coords):
        """the validated configuration value of the answer at coords = [a1, h1, a2, h2, ...]"""
        ans = self.top.config['answers']
        for i in range(0, len(coords), 2):
            ans = ans[coords[i] - 1][coords[i + 1] - 1]
        return ans

    # -- observation
    def parse_entry(self, e):
        """one reported entry -> {'path', 'inp', 'g', 'ok'}"""
        out = {'path': [], 'inp': 0, 'g': frac_of(e.get('grade_decimal')), 'ok': ok_name(e.get('ok'))}
        msg = e.get('msg', '')
        ms = list(MARK.finditer(msg))
        rest = MARK.sub('', msg).replace('<br/>', '').replace('\n', '')
        if not ms or rest:
            return out
        kinds = set(m.group(1) for m in ms)
        coordss = set(m.group(2) for m in ms)
        inps = set(m.group(5) for m in ms)
        if len(kinds) != 1 or len(coordss) != 1 or len(inps) != 1:
            return out
        m = ms[0]
        coords = [int(x) for x in m.group(2).split('.')]
        out['inp'] = int(m.group(5))
        if m.group(1) == 'A':
            if len(ms) != 1:
                return out
            out['path'] = coords + [int(m.group(3))]
        else:
            out['path'] = coords + [1]
        return out

    def observe(self, inputs=None):
        try:
            res = self.top(None, list(inputs or self.inputs))
        except Exception as e:  # noqa
            return None, 'raised %s: %s' % (type(e).__name__, str(e)[:100])
        il = res.get('input_list') if isinstance(res, dict) else None
        if not isinstance(il, list):
            return None, 'result shape %r' % (res,)
        return [self.parse_entry(e) for e in il], None

    def direct(self, a):
        """ordered top-level grader: results of the subgraders called directly on (answer k of list a, inputs of group k)"""
        d = self.desc
        subs = self.top.config['subgraders']
        flat = [None] * self.n
        for k, grp in enumerate(d['groups']):
            sub = subs[k] if isinstance(subs, list) else subs
            ans = self.top.config['answers'][a - 1][k]
            inp = [self.inputs[p - 1] for p in grp]
            r = sub.check(ans, inp[0] if len(inp) == 1 else inp)
            entries = flatten_result(r)
            if len(entries) != len(grp):
                return []
            for p, e in zip(grp, entries):
                flat[p - 1] = self.parse_entry(e)
        return flat


def flatten_result(r):
    if isinstance(r, dict) and 'input_list' in r:
        out = []
        for x in r['input_list']:
            out.extend(flatten_result(x))
        return out
    if isinstance(r, list):
        out = []
        for x in r:
            out.extend(flatten_result(x))
        return out
    return [r]


# ---- python twin of ListGrading!Value, used only to PRODUCE certificates (the trace spec re-computes and checks them)
def q(x):
    return Fraction(x[0], x[1])


def value(t):
    if t['kind'] == 'leaf':
        return max(q(x) for x in t['alts'])
    G = len(t['gm'])
    n = sum(len(g) for g in t['gm'])
    best = None
    for a in range(len(t['cells'])):
        if t['ordered']:
            tot = sum(value(t['cells'][a][k][k]) * len(t['gm'][k]) for k in range(G))
        else:
            W = [[value(t['cells'][a][k][h]) * len(t['gm'][k]) for h in range(G)] for k in range(G)]
            tot = hungarian_max(W)[3]
        best = tot if best is None or tot > best else best
    return best / n if (t['pc'] or best == n) else Fraction(0)


def hungarian_max(W):
    """maximum-weight perfect assignment with dual potentials (exact Fractions).  Returns (u, v, sigma 1-based, total)
    with u[k] + v[h] >= W[k][h] everywhere and equality along sigma."""
    n = len(W)
    INF = 10 ** 9
    cost = [[-x for x in row] for row in W]          # entries: Fractions or integers (units)
    u = [0] * (n + 1)
    v = [0] * (n + 1)
    p = [0] * (n + 1)
    way = [0] * (n + 1)
    for i in range(1, n + 1):
        p[0] = i
        j0 = 0
        minv = [INF] * (n + 1)
        used = [False] * (n + 1)
        while True:
            used[j0] = True
            i0 = p[j0]
            delta = INF
            j1 = 0
            for j in range(1, n + 1):
                if not used[j]:
                    cur = cost[i0 - 1][j - 1] - u[i0] - v[j]
                    if cur < minv[j]:
                        minv[j] = cur
                        way[j] = j0
                    if minv[j] < delta:
                        delta = minv[j]
                        j1 = j
            for j in range(n + 1):
                if used[j]:
                    u[p[j]] += delta
                    v[j] -= delta
                else:
                    minv[j] -= delta
            j0 = j1
            if p[j0] == 0:
                break
        while True:
            j1 = way[j0]
            p[j0] = p[j1]
            j0 = j1
            if j0 == 0:
                break
    sigma = [0] * n
    for j in range(1, n + 1):
        sigma[p[j] - 1] = j
    U = [-u[i] for i in range(1, n + 1)]
    V = [-v[j] for j in range(1, n + 1)]
    total = sum(W[k][sigma[k] - 1] for k in range(n))
    return U, V, sigma, total


def certificate(W):
    U, V, sigma, _ = hungarian_max(W)
    return {'u': [fr(Fraction(x)) for x in U], 'v': [fr(Fraction(x)) for x in V], 'sigma': sigma}


def max_int(x):
    if isinstance(x, dict):
        return max([0] + [max_int(v) for v in x.values()])
    if isinstance(x, list):
        return max([0] + [max_int(v) for v in x])
    if isinstance(x, bool):
        return 0
    if isinstance(x, int):
        return abs(x)
    return 0


# ------------------------------------------------------------------------------------------------ group / nested replay
def two_level_desc(g, out_ord, in_ord, pc_out, pc_in):
    G = max(g)
    groups = [[p + 1 for p, x in enumerate(g) if x == k] for k in range(1, G + 1)]

    def child(size):
        if size == 1:
            return leaf()
        return lst(in_ord, pc_in, [[i] for i in range(1, size + 1)], [leaf()] * size, subs='single')
    if out_ord:
        return lst(True, pc_out, groups, [child(len(gr)) for gr in groups], subs='list', grouping_cfg=True), groups
    return lst(False, pc_out, groups, [child(len(groups[0]))] * G, subs='single', grouping_cfg=True), groups


def leaf_index(groups, path):
    off = sum(len(gr) for gr in groups[:path[1] - 1])
    return off + (1 if len(path) == 3 else path[3])


def observe_two_level(c, aux):
    g, C = aux['g'], aux['C']
    den = 2 if c['kind'] == 'group' else c.get('den', 1)
    pc_in = True if c['kind'] == 'group' else c['pcIn']
    desc, groups = two_level_desc(g, c['outOrd'], c['inOrd'], c['pcOut'], pc_in)

    def credit(coords, alt, p):
        return Fraction(C[p - 1][leaf_index(groups, coords + [1]) - 1], den)
    try:
        b = Built(desc, credit)
    except Exception as e:  # noqa
        return 'construction raised %s: %s' % (type(e).__name__, str(e)[:100])
    obs, err = b.observe()
    if err:
        return err
    if len(obs) != len(g):
        return 'result has %d entries for %d inputs' % (len(obs), len(g))
    vec = []
    for P, e in enumerate(obs, start=1):
        if len(e['path']) not in (3, 5):
            return 'box %d: no cell marker' % P
        if e['inp'] != P:
            return 'box %d reports the result of input %d' % (P, e['inp'])
        u = Fraction(e['g'][0], e['g'][1]) * den
        if u.denominator != 1 or e['g'][0] < 0:
            return 'box %d: credit %r is not a cell credit' % (P, e['g'])
        if e['path'][0] != 1 or (len(e['path']) == 5 and e['path'][2] != 1) or e['path'][-1] != 1:
            return 'box %d: path %r' % (P, e['path'])
        vec.append([leaf_index(groups, e['path']), int(u), e['ok']])
    return vec


def replay_layouts(states, extra):
    from engine import repo
    repo.activate()
    n = 0
    keys = set()
    bad = []
    sample = None
    for st in states:
        c = st['c']
        if c['kind'] not in ('group', 'nested', 'rect'):
            continue
        n += 1
        obs = observe_two_level(c, st['aux'])
        g = st['aux']['g']
        if obs not in st['out']:
            b = {'kind': c['kind'], 'grouping': g, 'outOrd': c['outOrd'], 'inOrd': c['inOrd'], 'pcOut': c['pcOut'],
                 'pcIn': c.get('pcIn', True), 'den': c.get('den', 1), 'C': st['aux']['C'], 'observed': obs, 'allowed': st['out']}
            bad.append(b if len(bad) < 40 else None)
        sizes = tuple(sorted(g.count(k) for k in set(g)))
        keys.add((c['kind'], sizes if c['kind'] != 'nested' else len(st['out']), c['outOrd'], c['inOrd'], c['pcOut']))
        if sample is None:
            sample = {'grouping': g, 'case': {k: v for k, v in c.items() if k in ('outOrd', 'inOrd', 'pcOut', 'pcIn', 'pat')},
                      'allowed': st['out'][:3], 'observed': obs}
    return {'n': n, 'calls': n, 'keys': sorted(keys), 'bad': bad, 'sample': sample}


def replay_gmap(states, extra):
    """part gmap: TLC's group map for every valid grouping.  (1) drift monitor: the implementation's own helper
    functions agree with GroupMap / Groupify / Ungroupify (internal names: a mismatch is drift, never a verdict);
    (2) verdict level, on a sample: a real two-level ordered ListGrader with this grouping must report, at every box, the
    result of the leaf answer the spec's group map assigns to that box."""
    from engine import repo
    repo.activate()
    from mitxgraders import ListGrader
    n = calls = 0
    drift = []
    bad = []
    keys = set()
    sample = None
    every = extra['sample_every']
    observable = all(hasattr(ListGrader, a) for a in ('create_grouping_map', 'groupify_list', 'ungroupify_list'))
    for st in states:
        c = st['c']
        if c['kind'] != 'gmap':
            continue
        n += 1
        g = st['aux']['g']
        gm = st['out']
        keys.add(('gmap', len(g), len(gm)))
        if observable:
            try:
                real = ListGrader.create_grouping_map(list(g))
                labels = ['x%d' % i for i in range(len(g))]
                grouped = ListGrader.groupify_list(real, labels)
                back = ListGrader.ungroupify_list(real, grouped)
                want = [[labels[p - 1] for p in grp] if len(grp) > 1 else labels[grp[0] - 1] for grp in gm]
                if [[p + 1 for p in grp] for grp in real] != gm or grouped != want or back != labels:
                    if len(drift) < 3:
                        drift.append('grouping %r: create_grouping_map/groupify_list/ungroupify_list give %r / %r / %r, '
                                     'the specification has group map %r' % (g, real, grouped, back, gm))
            except Exception as e:  # noqa
                if len(drift) < 3:
                    drift.append('grouping %r: helper raised %s' % (g, type(e).__name__))
        if (sum((i + 1) * x for i, x in enumerate(g)) + len(g)) % every == 0:
            calls += 1
            N = len(g)
            rank = {}
            off = 0
            for grp in gm:
                for i, p in enumerate(grp):
                    rank[p] = off + i + 1
                off += len(grp)
            C = [[1 if q == rank[p] else 0 for q in range(1, N + 1)] for p in range(1, N + 1)]
            cc = {'kind': 'nested', 'outOrd': True, 'inOrd': True, 'pcOut': True, 'pcIn': True}
            obs = observe_two_level(cc, {'g': g, 'C': C})
            want = [[rank[p], 1, 'true'] for p in range(1, N + 1)]
            if obs != want:
                b = {'kind': 'nested', 'grouping': g, 'outOrd': True, 'inOrd': True, 'pcOut': True, 'pcIn': True, 'C': C,
                     'observed': obs, 'allowed': [want]}
                bad.append(b if len(bad) < 40 else None)
            if sample is None:
                sample = {'grouping': g, 'group_map': gm, 'observed': obs}
    return {'n': n, 'calls': calls, 'keys': sorted(keys), 'bad': bad, 'sample': sample, 'drift': drift,
            'observable': observable}


# ------------------------------------------------------------------------------------------------ random driver
def rand_partition_groups(rng, n, sizes):
    pos = list(range(1, n + 1))
    rng.shuffle(pos)
    groups = []
    i = 0
    for s in sizes:
        groups.append(sorted(pos[i:i + s]))
        i += s
    return groups


def rand_inner(rng, size, depth, allow_slg):
    """descriptor of the grader for one group of `size` inputs"""
    if size == 1:
        r = rng.random()
        if allow_slg and r < 0.25:
            items = rng.randint(1, 3)
            given = max(1, items + rng.choice([0, 0, 0, -1, 1]))
            return leaf(g='slg', items=items, given=given, slg_ordered=rng.random() < .3, slg_pc=rng.random() < .8)
        return leaf(nalts=rng.choice([1, 1, 2, 3]))
    ordered = rng.random() < .4
    pc = rng.random() < .7
    A = rng.choice([1, 1, 2])
    if depth < 2 and size >= 3 and rng.random() < .6:
        # a grouped inner ListGrader (third level)
        if ordered or size == 3:
            ordered = True
            sizes = rng.choice([[2, size - 2], [1, size - 1], [size - 2, 1, 1]] if size >= 4 else [[1, 2], [2, 1]])
            groups = rand_partition_groups(rng, size, sizes)
            return lst(True, pc, groups, [rand_inner(rng, len(g), depth + 1, allow_slg) for g in groups], A=A, subs='list',
                       grouping_cfg=True)
        if size % 2 == 0:
            groups = rand_partition_groups(rng, size, [2] * (size // 2))
            ch = rand_inner(rng, 2, depth + 1, False)
            return lst(False, pc, groups, [ch] * len(groups), A=A, subs='single', grouping_cfg=True)
    groups = [[i] for i in range(1, size + 1)]
    if ordered and rng.random() < .5:
        return lst(True, pc, groups, [rand_inner(rng, 1, depth + 1, allow_slg) for _ in groups], A=A, subs='list')
    ch = rand_inner(rng, 1, depth + 1, allow_slg)
    return lst(ordered, pc, groups, [ch] * size, A=A, subs='single')


def rand_layout(rng, max_n):
    """top-level descriptor"""
    kind = rng.choice(['flat', 'flat', 'flat_ordered', 'grouped_unordered', 'grouped_ordered', 'grouped_ordered', 'big'])
    pc = rng.random() < .7
    A = rng.choice([1, 1, 2, 3])
    if kind == 'big':
        n = rng.randint(5, max_n)
        ch = leaf(nalts=rng.choice([1, 1, 2]))
        return lst(False, pc, [[i] for i in range(1, n + 1)], [ch] * n, A=A, subs='single')
    if kind == 'flat':
        n = rng.randint(2, min(6, max_n))
        ch = rand_inner(rng, 1, 1, True)
        return lst(False, pc, [[i] for i in range(1, n + 1)], [ch] * n, A=A, subs='single')
    if kind == 'flat_ordered':
        n = rng.randint(2, min(6, max_n))
        groups = [[i] for i in range(1, n + 1)]
        if rng.random() < .5:
            ch = rand_inner(rng, 1, 1, True)
            return lst(True, pc, groups, [ch] * n, A=A, subs='single')
        if rng.random() < .4:
            order = list(range(1, n + 1))
            rng.shuffle(order)
            groups = [[i] for i in order]
        return lst(True, pc, groups, [rand_inner(rng, 1, 1, True) for _ in range(n)], A=A, subs='list')
    if kind == 'grouped_unordered':
        G, s = rng.choice([(2, 2), (2, 3), (3, 2), (2, 4), (4, 2), (3, 2), (2, 2)])
        while G * s > max_n:
            G, s = rng.choice([(2, 2), (2, 3), (3, 2)])
        groups = rand_partition_groups(rng, G * s, [s] * G)
        ch = rand_inner(rng, s, 1, False)
        return lst(False, pc, groups, [ch] * G, A=rng.choice([1, 1, 2]), subs='single', grouping_cfg=True)
    # grouped_ordered: arbitrary grouping, one subgrader per group
    n = rng.randint(3, max_n)
    G = rng.randint(2, min(n, 5))
    sizes = [1] * G
    for _ in range(n - G):
        sizes[rng.randrange(G)] += 1
    groups = rand_partition_groups(rng, n, sizes)
    rng.shuffle(groups)
    return lst(True, pc, groups, [rand_inner(rng, len(g), 1, True) for g in groups], A=rng.choice([1, 1, 2]), subs='list',
               grouping_cfg=True)


FINE_UNITS = [115, 125, 128, 130, 134, 4, 7, 12, 333, 334, 338, 500]


class RandomCredits(object):
    """credit table of a random case: palette values, optionally with a planted perfect answer"""

    def __init__(self, rng, style):
        self.rng, self.style = rng, style
        self.memo = {}
        self.gdm = {}
        self.plant = {}

    def draw(self):
        r = self.rng
        if self.style == 'binary':
            return Fraction(r.choice([0, 0, 1]))
        if self.style == 'fine':                           # thousandths: closer than 0.005, sums differ after several cells
            return Fraction(r.choice(FINE_UNITS), 1000)
        if self.style == 'sparse':                         # low totals: small credits decide the assignment
            return r.choice([Fraction(0)] * 5 + [Fraction(1, 2), Fraction(1)])
        if self.style == 'ties':
            return r.choice([Fraction(0), Fraction(1, 2), Fraction(1, 2), Fraction(1)])
        return r.choice(PALETTE)

    def credit(self, coords, alt, p):
        k = (tuple(coords), alt, p)
        if k not in self.memo:
            self.memo[k] = Fraction(1) if self.plant.get((tuple(coords), p)) and alt == 1 else self.draw()
        return self.memo[k]

    def item_credit(self, coords, i, p, x):
        k = (tuple(coords), 'item', i, p, x)
        if k not in self.memo:
            self.memo[k] = Fraction(1) if self.plant.get((tuple(coords), p)) and i == x else self.draw()
        return self.memo[k]

    def gd(self, coords, alt):
        k = (tuple(coords), alt)
        if k not in self.gdm:
            self.gdm[k] = Fraction(1) if alt == 1 or self.style == 'fine' else self.rng.choice([Fraction(1), Fraction(1, 2), Fraction(7, 10)])
        return self.gdm[k]

    def plant_perfect(self, d, prefix, positions):
        """choose one answer list and one assignment at every node and give those cells full credit"""
        r = self.rng
        a = r.randint(1, d['A'])
        G = len(d['groups'])
        sig = list(range(1, G + 1))
        if not d['ordered']:
            r.shuffle(sig)
        for k in range(G):
            h = sig[k]
            ch = d['children'][h - 1]
            pos = [positions[x - 1] for x in d['groups'][k]]
            coords = prefix + [a, h]
            if ch['kind'] == 'leaf':
                self.plant[(tuple(coords), pos[0])] = True
            else:
                self.plant_perfect(ch, coords, pos)


def make_random_case(seed, i, max_n):
    rng = random.Random('%s-%d' % (seed, i))
    desc = rand_layout(rng, max_n)
    style = rng.choice(['palette', 'palette', 'binary', 'ties', 'sparse', 'fine'])
    if style == 'fine' and 's1' in shape_key(desc):
        style = 'palette'          # SingleListGrader cells average items: keeps every rational of a fine case a small multiple of 1/1000
    cr = RandomCredits(rng, style)
    if rng.random() < .35:
        cr.plant_perfect(desc, [], list(range(1, npos(desc) + 1)))
    return desc, cr


def shape_key(d):
    if d['kind'] == 'leaf':
        return d['g'][0] + str(d['nalts'])
    return '%s%s%d[%s]' % ('O' if d['ordered'] else 'U', 'p' if d['pc'] else 'z', d['A'],
                           ','.join(sorted(set(shape_key(c) + 'x%d' % len(g) for c, g in zip(d['children'], d['groups'])))))


def observe_random(i, seed, max_n):
    desc, cr = make_random_case(seed, i, max_n)
    b = Built(desc, cr.credit, cr.item_credit, cr.gd)
    tree = b.tree()
    obs, err = b.observe()
    rec = {'id': i, 'tree': tree, 'obs': [], 'direct': []}
    if err:
        rec['obs'] = []
        rec['error'] = err
    else:
        rec['obs'] = obs
        if desc['ordered'] and obs and all(len(e['path']) >= 2 for e in obs) and len(set(e['path'][0] for e in obs)) == 1:
            a = obs[0]['path'][0]
            if 1 <= a <= desc['A']:
                rec['direct'] = b.direct(a)
    rec['shape'] = shape_key(desc)
    rec['n'] = b.n
    rec['features'] = features(desc, tree, rec)
    return rec


def depth(d):
    return 0 if d['kind'] == 'leaf' else 1 + max(depth(c) for c in d['children'])


def features(desc, tree, rec):
    """which behaviours of the property this record exercises (vacuity guard: every feature must occur)"""
    f = set()
    obs = rec['obs']
    if has_cert(tree):
        f.add('certificate')
    sk = shape_key(desc)
    if 's1' in sk:
        f.add('singlelist_cell')
    if depth(desc) >= 3:
        f.add('three_levels')
    if depth(desc) == 2:
        f.add('two_levels')
    if rec['direct']:
        f.add('ordered_direct')
    if obs and all(len(e['path']) >= 2 for e in obs):
        if obs[0]['path'][0] > 1:
            f.add('later_answer_list_chosen')
        if not desc['ordered']:
            sig = [obs[g[0] - 1]['path'][1] for g in desc['groups']]
            if sig != list(range(1, len(sig) + 1)):
                f.add('non_identity_assignment')
        if any(len(e['path']) % 2 == 1 and e['path'][-1] > 1 for e in obs):
            f.add('later_alternative_chosen')
        gs = [Fraction(e['g'][0], e['g'][1]) for e in obs]
        if not desc['pc']:
            f.add('no_partial_credit_perfect' if all(x == 1 for x in gs) else 'no_partial_credit_zeroed')
            if all(x == 0 for x in gs) and value({**tree, 'pc': True}) > 0:
                f.add('zeroing_changed_something')
        if any(0 < x < 1 for x in gs):
            f.add('partial_credit_entry')
        if needs_grouping(desc):
            f.add('grouping')
    return sorted(f)


def observe_chunk(items, extra):
    from engine import repo
    repo.activate()
    out = []
    for i in items:
        try:
            rec = observe_random(i, extra['seed'], extra['max_n'])
        except Exception as e:  # noqa  -- construction problems are the driver's, reported as machinery
            rec = {'id': i, 'broken': '%s: %s' % (type(e).__name__, str(e)[:200])}
        out.append(rec)
    return out


# ------------------------------------------------------------------------------------------------ matching-core stream
# A dense, cheap stream of flat unordered problems aimed at the assignment core (the solver both ListGrader and
# SingleListGrader use): random credit matrices with 4..7 inputs over small palettes, graded by real ListGraders with
# TableGrader subgraders and judged by the trace spec (n! enumeration for 4 inputs, LP-duality certificate above).
CORE_SIZES = [4] * 2 + [5] * 6 + [6] * 7 + [7] * 5
CORE_DENS = [2, 2, 1, 3, 4, 1000]
CORE_FINE = [[115, 125, 130], [115, 125, 128, 130, 134], [4, 7, 12], [333, 334, 338, 341], [120, 124, 127, 500]]


def core_case(seed, i):
    r = random.Random('%s-core-%d' % (seed, i))
    n = r.choice(CORE_SIZES)
    den = r.choice(CORE_DENS)
    A = 2 if r.random() < .15 else 1
    pc = r.random() < .9
    style = r.random()
    if den == 1000:
        pal = r.choice(CORE_FINE)                            # thousandths, closer than half a percent
    elif style < .6:
        pal = list(range(den + 1))
    elif style < .8:
        pal = [0] * 2 + list(range(den + 1))                 # sparse
    else:
        pal = list(range(den + 1)) + [den] * 2               # dense in full credit
    tensor = [[[r.choice(pal) for _ in range(n)] for _ in range(n)] for _ in range(A)]
    return n, den, A, pc, tensor


def observe_core(rig, den):
    """raw observation of a flat rig: per box [a, j, units, ok, inp] (zeros when the entry carries no cell marker)"""
    res = rig.grader(None, list(rig.inputs))
    out = []
    for e in res['input_list']:
        m = MARK.fullmatch(e.get('msg', ''))
        a = j = inp = 0
        if m and m.group(1) == 'A':
            a, j = [int(x) for x in m.group(2).split('.')]
            inp = int(m.group(5))
        u = e['grade_decimal'] * den
        out.append([a, j, int(round(u)) if abs(u - round(u)) <= 1e-9 else -1, ok_name(e['ok']), inp])
    return out


def core_chunk(items, extra):
    from engine import repo
    repo.activate()
    rigs = {}
    recs = []
    for i in items:
        n, den, A, pc, tensor = core_case(extra['seed'], i)
        key = (n, A, False, pc, 'single')
        if key not in rigs:
            rigs[key] = FlatRig(*key)
        rig = rigs[key]
        rig.load(tensor, den)
        rec = {'id': i, 'kind': 'flat', 'den': den, 'M': tensor, 'ordered': False, 'pc': pc, 'cert': [], 'n': n}
        if n > 4:
            rec['cert'] = []
            for a in range(A):
                U, V, sigma, _ = hungarian_max(tensor[a])
                rec['cert'].append({'u': U, 'v': V, 'sigma': sigma})
        try:
            rec['obs'] = observe_core(rig, den)
        except Exception as e:  # noqa
            rec['error'] = 'raised %s: %s' % (type(e).__name__, str(e)[:100])
        recs.append(rec)
    return recs


class _ShimCtx(object):
    """stand-in for the check context so that several trace files can be validated by concurrent TLC runs; the
    counters are merged into the real context afterwards, in the main thread"""

    def __init__(self, ctx):
        self.scratch = ctx.scratch
        self.traces_validated = 0
        self.runs = []

    def tlc(self, module, cfg=None, must_hold=True, **kw):
        from engine import tlc
        from engine.main import Machinery
        kw.setdefault('scratch', self.scratch)
        try:
            r = tlc.run(module, cfg, **kw)
        except tlc.TLCError as e:
            raise Machinery(str(e))
        self.runs.append({'module': module, 'cfg': cfg, 'distinct': r.distinct, 'generated': r.generated,
                          'wall_s': round(r.wall, 1), 'violated': r.violated})
        return r


def validate_parallel(ctx, records, name, jobs=6, per_file=6000):
    """trace-validate many independent records with several concurrent single-worker TLC runs"""
    from concurrent.futures import ThreadPoolExecutor
    files = [records[i:i + per_file] for i in range(0, len(records), per_file)]
    shims = [_ShimCtx(ctx) for _ in files]

    def one(k):
        return traces.validate(shims[k], 'graders/ListGradingTrace.tla', 'graders/ListGradingTrace.cfg', files[k],
                               name='%s%d' % (name, k), timeout=3000)
    with ThreadPoolExecutor(max_workers=jobs) as ex:
        results = list(ex.map(one, range(len(files))))
    rej = {}
    for sh, r in zip(shims, results):
        rej.update(r)
        ctx.traces_validated += sh.traces_validated
        for run in sh.runs:
            ctx.states += run['distinct']
            ctx.transitions += run['generated']
            ctx.tlc_runs.append(run)
    return rej


# ------------------------------------------------------------------------------------------------ verdicts
CLAUSE_TEXT = {
    'position': 'an entry is reported at a box other than that of the input it grades',
    'length': 'number of reported entries differs from the number of inputs',
    'shape': 'an entry does not come from any cell of the layout',
    'list': 'entries come from different answer lists',
    'group': 'inputs of one group were graded against different answer slots',
    'bijection': 'two inputs (groups) were graded against the same answer',
    'order': 'ordered grader did not grade input i against answer i',
    'assignment': 'the assignment of inputs to answers does not have maximal total credit',
    'bestlist': 'another answer list gives a higher total credit',
    'alternative': 'the reported alternative is not a best alternative of the answer',
    'grade': 'reported credit differs from the cell credit (or partial_credit=False zeroing is wrong)',
    'ok': "reported 'ok' does not match the credit",
    'direct': 'ordered grader result differs from the direct subgrader results',
    'raised': 'grader raised',
}


def flat_class(b):
    obs = b['observed']
    if isinstance(obs, str):
        if 'reports the result of input' in obs:
            return 'position'
        if obs.startswith('raised'):
            return 'raised'
        return 'entry'
    allowed = b['allowed']
    if allowed and [e[:2] for e in obs] in [[e[:2] for e in v] for v in allowed]:
        return 'grade'
    js = [e[1] for e in obs]
    if len(set(js)) != len(js):
        return 'bijection'
    if len(set(e[0] for e in obs)) == 1 and obs[0][0] not in set(v[0][0] for v in allowed):
        return 'bestlist'
    if b.get('ordered') or b.get('outOrd'):
        return 'order'
    return 'assignment'


def layout_class(b):
    obs = b['observed']
    if isinstance(obs, str):
        if 'reports the result of input' in obs:
            return 'position'
        if 'raised' in obs:
            return 'raised'
        return 'entry'
    if [e[0] for e in obs] in [[e[0] for e in v] for v in b['allowed']]:
        return 'grade'
    qs = [e[0] for e in obs]
    if len(set(qs)) != len(qs):
        return 'bijection'
    return 'order' if b.get('outOrd') and b.get('inOrd') else 'assignment'


def run(ctx):
    from engine.main import Machinery
    total_calls = 0
    parts = [('flat', 'replay_flat'), ('group', 'replay_layouts'), ('nested', 'replay_layouts'), ('rect', 'replay_layouts'),
             ('gmap', 'replay_gmap')]
    for part, fn in parts:
        d = os.path.join(ctx.scratch, 'cases_' + part)
        ctx.tlc('graders/MC_ListGrading.tla', 'graders/MC_ListGrading_%s_%s.cfg' % (part, ctx.tier), dump=d, timeout=3000)
        res = dump.parallel(d + '.dump', 'engine.adapters.c05', fn,
                            extra={'full_perms': not ctx.quick, 'sample_every': 4 if ctx.quick else 24})
        os.remove(d + '.dump')
        for r in res:
            for msg in r.get('drift', []):
                ctx.note_drift(msg)
            if r.get('observable') is False:
                ctx.extra['grouping_helpers'] = 'not observable (helper functions renamed); drift monitor skipped'
            ctx.traces_validated += r['n']
            ctx.evaluations += r['calls']
            total_calls += r['calls']
            for k in r['keys']:
                ctx.nontrivial.add(tuple(k))
            if r['sample']:
                ctx.sample(r['sample'], limit=4)
            for b in r['bad']:
                if b is None:
                    continue
                sig = dict(b)
                sig['class'] = 'C05-' + (flat_class(b) if part == 'flat' else layout_class(b))
                ctx.violation(sig, 'ListGrader %s case %s: observed %r is not an allowed result (allowed e.g. %r)' % (
                    part, {k: v for k, v in b.items() if k in ('n', 'A', 'ordered', 'pc', 'style', 'perm', 'grouping', 'outOrd', 'inOrd', 'pcOut', 'pcIn')},
                    b['observed'], b['allowed'][:2]))
    # code -> spec
    n = 1500 if ctx.quick else 10000
    max_n = 8
    extra = {'seed': ctx.seed, 'max_n': max_n}
    recs = [r for chunk in dump.pmap('engine.adapters.c05', 'observe_chunk', list(range(n)), extra) for r in chunk]
    broken = [r for r in recs if 'broken' in r]
    if broken:
        raise Machinery('random driver could not build %d layouts, e.g. case %s: %s' % (len(broken), broken[0]['id'], broken[0]['broken']))
    good = []
    skipped = 0
    for r in recs:
        if 'error' in r:
            sig = {'kind': 'random', 'case': r['id'], 'case_seed': ctx.seed, 'shape': r['shape'], 'error': r['error'], 'class': 'C05-raised'}
            ctx.violation(sig, 'ListGrader on random layout %s (case %d): %s' % (r['shape'], r['id'], r['error']))
            continue
        if max_int(r['tree']) > 40000 or max_int(r['obs']) > 40000:
            skipped += 1
            continue
        good.append(r)
    shapes = {}
    for r in good:
        shapes[r['shape']] = shapes.get(r['shape'], 0) + 1
        ctx.nontrivial.add(('random', r['shape']))
    trace_recs = [{'id': r['id'], 'kind': 'layout', 'tree': r['tree'], 'obs': r['obs'], 'direct': r['direct']} for r in good]
    rej = traces.validate(ctx, 'graders/ListGradingTrace.tla', 'graders/ListGradingTrace.cfg', trace_recs, timeout=3000)
    ctx.evaluations += len(good)
    byid = {r['id']: r for r in good}
    for r in good[:2]:
        ctx.sample({'trace_record': {'id': r['id'], 'shape': r['shape'], 'obs': r['obs']}}, limit=6)
    for i, clause in rej.items():
        r = byid[i]
        if clause in ('layout', 'cert'):
            raise Machinery('trace record %s rejected for machinery reason %r (shape %s)' % (i, clause, r['shape']))
        sig = {'kind': 'random', 'case': i, 'case_seed': ctx.seed, 'max_n': max_n, 'shape': r['shape'], 'clause': clause,
               'class': 'C05-' + clause, 'obs': r['obs']}
        ctx.violation(sig, 'ListGrader on random layout %s (case %d, %d boxes): %s' % (
            r['shape'], i, r['n'], CLAUSE_TEXT.get(clause, clause)))
    feats = {}
    for r in good:
        for f in r['features']:
            feats[f] = feats.get(f, 0) + 1
    ctx.extra['random_features'] = feats
    missing = [f for f in FEATURES if not feats.get(f)]
    if missing:
        raise Machinery('random driver never exercised: %s (vacuity guard)' % ', '.join(missing))
    # dense stream aimed at the matching core
    n_core = 30000 if ctx.quick else 150000
    crecs = [r for chunk in dump.pmap('engine.adapters.c05', 'core_chunk', list(range(n_core)), {'seed': ctx.seed}) for r in chunk]
    cgood = []
    for r in crecs:
        if 'error' in r:
            sig = {'kind': 'core', 'case': r['id'], 'case_seed': ctx.seed, 'n': r['n'], 'den': r['den'], 'tensor': r['M'],
                   'pc': r['pc'], 'error': r['error'], 'class': 'C05-raised'}
            ctx.violation(sig, 'unordered ListGrader on %dx%d credits %r: %s' % (r['n'], r['n'], r['M'], r['error']))
        else:
            cgood.append(r)
    crej = validate_parallel(ctx, [{k: v for k, v in r.items() if k != 'n'} for r in cgood], 'core')
    ctx.evaluations += len(cgood)
    cby = {r['id']: r for r in cgood}
    for r in cgood:
        ctx.nontrivial.add(('core', r['n'], r['den'], len(r['M']), r['pc']))
    for i, clause in sorted(crej.items()):
        r = cby[i]
        if clause in ('layout', 'cert'):
            raise Machinery('core record %s rejected for machinery reason %r' % (i, clause))
        sig = {'kind': 'core', 'case': i, 'case_seed': ctx.seed, 'n': r['n'], 'den': r['den'], 'tensor': r['M'], 'pc': r['pc'],
               'clause': clause, 'class': 'C05-' + clause, 'obs': r['obs']}
        ctx.violation(sig, 'unordered ListGrader, %d inputs, credits (units of 1/%d) %r: reported %r -- %s' % (
            r['n'], r['den'], r['M'], [e[:4] for e in r['obs']], CLAUSE_TEXT.get(clause, clause)))
    ctx.sample({'core_record': {k: v for k, v in cgood[0].items() if k != 'cert'}}, limit=7)
    big = sum(1 for r in good if has_cert(r['tree']))
    ctx.extra['bounds'] = {'tier': ctx.tier, 'random_records': len(good), 'random_skipped_large_rationals': skipped,
                           'random_with_certificate': big, 'max_inputs_random': max_n,
                           'flat': 'n=2,3 over {0,1/2,1}, n=4 over {0,1} (quick: subsets), 1-3 answer lists; n=2,3,4 over thousandths '
                                   '{.115,.125,.128,.13} (pairs closer than 0.005, totals differing only after 2-4 cells)',
                           'groupings_real_graders': 'all valid groupings of <= %s inputs through two-level real graders' % (
                               '5 (6 with <= 3 groups)' if ctx.quick else '6 (7 with <= 3 groups, 8 with 2 groups)'),
                           'groupings_group_map': 'all valid groupings of <= %d inputs: laws + helper drift monitor + 1/%d through a real grader' % (
                               6 if ctx.quick else 8, 4 if ctx.quick else 24),
                           'rectangular_groups': 'unordered 2x3, 2x4, 3x2 groups, contiguous and interleaved, banded 0/1 and 0/half/1 '
                                                 'credits with every low cell credit, inner ordered/unordered, partial credit on/off',
                           'grader_calls_replayed': total_calls,
                           'matching_core_records': '%d random flat unordered problems, 4..7 inputs, credits k/den for den in 1..4 and thousandths closer than 0.005, '
                                                    'n! enumeration at 4 inputs, checked LP-duality certificate above' % len(cgood)}
    ctx.extra['random_shapes'] = len(shapes)
    ctx.assumptions += [
        'credits are realised through a table-driven ItemGrader; cells graded by SingleListGrader take the credit the real '
        'SingleListGrader returns when called directly (its formula is property C07)',
        'total credit of a result list = sum of the credits of its entries (what edX awards); for unordered groups of equal '
        'size this is the sum of the group averages the implementation optimises',
        'unordered grouped ListGraders with groups of one input, and configurations the constructor rejects, are outside the case space',
        'float credits are compared with exact rationals within 1e-9; generated credits differ by >= 1/3000 whenever they differ',
    ]


FEATURES = ['certificate', 'singlelist_cell', 'three_levels', 'two_levels', 'ordered_direct', 'later_answer_list_chosen',
            'non_identity_assignment', 'later_alternative_chosen', 'no_partial_credit_perfect', 'no_partial_credit_zeroed',
            'zeroing_changed_something', 'partial_credit_entry', 'grouping']


def has_cert(t):
    if t.get('kind') != 'list':
        return False
    if t['cert']:
        return True
    return any(has_cert(c) for a in t['cells'] for row in a for c in row)


def replay(ctx, rec):
    from engine import repo
    repo.activate()
    sig = rec['signature']
    print('signature:', {k: v for k, v in sig.items() if k not in ('allowed',)})
    if sig.get('kind') == 'flat':
        rig = FlatRig(sig['n'], sig['A'], sig['ordered'], sig['pc'], sig['style'])
        rig.load(sig['tensor'], sig['den'], numpy_numbers=sig.get('numpy_numbers', False))
        obs = observe_flat(rig, sig['den'], [p - 1 for p in sig['perm']])
        print('observed now:', obs)
        print('was observed:', sig['observed'])
        print('allowed (first):', sig['allowed'][:6])
        return obs in sig['allowed']
    if sig.get('kind') in ('group', 'nested', 'rect'):
        c = {'kind': sig['kind'], 'outOrd': sig['outOrd'], 'inOrd': sig['inOrd'], 'pcOut': sig['pcOut'], 'pcIn': sig['pcIn'], 'den': sig.get('den', 1)}
        obs = observe_two_level(c, {'g': sig['grouping'], 'C': sig['C']})
        print('observed now:', obs)
        print('allowed (first):', sig['allowed'][:6])
        return obs in sig['allowed']
    if sig.get('kind') == 'core':
        recs = core_chunk([sig['case']], {'seed': sig['case_seed']})
        print('observed now:', recs[0].get('obs'), recs[0].get('error'))
        if 'error' in recs[0]:
            return False
        rej = traces.validate(ctx, 'graders/ListGradingTrace.tla', 'graders/ListGradingTrace.cfg',
                              [{k: v for k, v in recs[0].items() if k != 'n'}])
        print('trace spec:', rej or 'accepted')
        return not rej
    if sig.get('kind') == 'random':
        r = observe_random(sig['case'], sig['case_seed'], sig.get('max_n', 8))
        print('observed now:', r.get('obs'), r.get('error'))
        if 'error' in r:
            return False
        t = [{'id': r['id'], 'kind': 'layout', 'tree': r['tree'], 'obs': r['obs'], 'direct': r['direct']}]
        rej = traces.validate(ctx, 'graders/ListGradingTrace.tla', 'graders/ListGradingTrace.cfg', t)
        print('trace spec:', rej or 'accepted')
        return not rej
    return False
