"""C20 -- configuration validation enforces documented option domains and fills defaults.

spec -> code: TLC enumerates the cases of MC_ConfigSchema (parts single, mathx, answers, lgroup, nested, square); each
              abstract configuration (option -> value kind) is turned into concrete Python values, the real constructor
              is run in dictionary and keyword form, and accept / reject, the filled-in defaults, the canonical answers,
              kwargs == dict and (graders) Cls(obj.config) == obj are compared with the oracle of ConfigSchema.tla.
code -> spec: random multi-option configurations, larger answers structures, larger ListGrader groupings, longer nested
              SingleListGrader chains and larger SquareMatrices are constructed, recorded as ndjson and judged by
              ConfigSchemaTrace (TLC evaluates the same oracle on every record).

The option tables live in the specification (written from the documentation); this module only owns the map
value kind -> concrete, unambiguous Python value and the projection concrete value -> default token.
"""
import os
import random

from engine import dump, traces

GRADERS = ('StringGrader', 'FormulaGrader', 'NumericalGrader', 'MatrixGrader', 'SingleListGrader', 'ListGrader',
           'IntervalGrader', 'IntegralGrader', 'SumGrader')
MSG = 'FEEDBACK-71c'


# ---------------------------------------------------------------- concrete values
def f1(x):
    return x


def f1b(x):
    return x + 1


def f3(a, b, c):
    return a


def lib():
    """import the library (inside workers only)"""
    import mitxgraders as m
    from mitxgraders.comparers import EqualityComparer, MatrixEntryComparer, LinearComparer
    from mitxgraders.helpers.calc.specify_domain import SpecifyDomain
    ns = dict(vars(m))
    ns.update(EqualityComparer=EqualityComparer, MatrixEntryComparer=MatrixEntryComparer, LinearComparer=LinearComparer,
              SpecifyDomain=SpecifyDomain)
    return ns


def value(kind, cls, L):
    """fresh concrete value of an abstract kind (cls: the class being configured, for class-specific dictionaries)"""
    summ = 'summand' if cls == 'SumGrader' else 'integrand'
    var = 'summation_variable' if cls == 'SumGrader' else 'integration_variable'
    v = 'n' if cls == 'SumGrader' else 'x'
    simple = {
        'none': None, 'bool_true': True, 'bool_false': False,
        'int_neg': -3, 'int_zero': 0, 'int_one': 1, 'int_two': 2, 'int_pos': 7,
        'float_neg': -0.5, 'float_zero': 0.0, 'float_frac': 0.25, 'float_one': 1.0, 'float_gt1': 2.5, 'complex': 1 + 2j,
        'pct_ok': '5%', 'pct_neg': '-5%', 'str': 'abc', 'str_empty': '', 'str_char': ';', 'str_comma': ',',
        'enum_err': 'err', 'enum_msg': 'msg', 'enum_type': 'type', 'enum_shape': 'shape', 'enum_proportional': 'proportional',
        'enum_upper': 'upper', 'enum_lower': 'lower', 'enum_diagonal': 'diagonal', 'enum_symmetric': 'symmetric',
        'enum_antisymmetric': 'antisymmetric', 'enum_hermitian': 'hermitian', 'enum_antihermitian': 'antihermitian',
        'callable_1': f1, 'callable_3': f3,
        'tuple_empty': (), 'tuple_str': ('x', 'y'), 'tuple_num': (1, 2.5), 'tuple_int1': (3,), 'tuple_int2': (2, 3),
        'tuple_int3': (2, 3, 4),
    }
    if kind in simple:
        return simple[kind]
    if kind.startswith('dict_fn_') and kind[8:] in ('adj', 'cross', 'ctrans', 'det', 'norm', 'trace', 'trans'):
        return {kind[8:]: f1}         # a name that is a default function of MatrixGrader only
    fresh = {
        'list_empty': lambda: [], 'list_xy': lambda: ['x', 'y'], 'list_ab': lambda: ['a', 'b'], 'list_const': lambda: ['pi'],
        'list_fn': lambda: ['sin', 'cos'], 'list_none1': lambda: [None], 'list_mixed': lambda: ['x', 3],
        'list_int12': lambda: [1, 2], 'list_int13': lambda: [1, 3], 'list_float2': lambda: [0.5, 2.5],
        'list_num3': lambda: [1, 2, 3], 'list_num1': lambda: [3], 'list_callable': lambda: [f1, f1b],
        'list_graders': lambda: [L['StringGrader'](), L['StringGrader']()],
        'list_shapes': lambda: [1, [3, 2], 2, 'square'],
        'dict_empty': lambda: {}, 'dict_int_key': lambda: {1: 3.5}, 'dict_fn_f': lambda: {'f': f1}, 'dict_fn_sin': lambda: {'sin': f1},
        'dict_fn_rand': lambda: {'f': L['RandomFunction']()}, 'dict_fn_list': lambda: {'f': [f1, f1b]},
        'dict_const_c': lambda: {'c': 3.5}, 'dict_const_x': lambda: {'x': 3.5}, 'dict_const_pi': lambda: {'pi': 3.5},
        'list_infty': lambda: ['infty'], 'dict_const_infty': lambda: {'infty': 3.5},
        'dict_const_del': lambda: {'pi': None}, 'dict_const_arr': lambda: {'A': L['MathArray']([[1, 2], [3, 4]])}, 'dict_str_str': lambda: {'c': 'abc'}, 'dict_sample_x': lambda: {'x': [1, 3]},
        'dict_range': lambda: {'start': 2, 'stop': 4},
        'dict_asm': lambda: {'is_raised': False, 'msg_detail': 'shape'}, 'dict_asm_part': lambda: {'is_raised': False},
        'dict_asm_bad': lambda: {'is_raised': 'abc'}, 'dict_asm_unknown': lambda: {'zz': 1},
        'dict_quad': lambda: {'limit': 50},
        'ans_ok': lambda: {'lower': '1', 'upper': '3', summ: v, var: v},
        'ans_missing': lambda: {'lower': '1', summ: v, var: v},
        'ans_extra': lambda: {'lower': '1', 'upper': '3', summ: v, var: v, 'zz': '1'},
        'ans_nonstr': lambda: {'lower': 1, 'upper': '3', summ: v, var: v},
        'pos_partial': lambda: {'lower': 1, 'upper': 2, summ: 3},
        'pos_none': lambda: {'lower': 1, 'upper': 2, summ: 3, var: None},
        'pos_gap': lambda: {'lower': 1, 'upper': 3}, 'pos_repeat': lambda: {'lower': 1, 'upper': 1},
        'pos_unknown': lambda: {'lower': 1, 'zz': 2},
        'lans_ab': lambda: ['a', 'b'],
        'grader_string': lambda: L['StringGrader'](), 'grader_formula': lambda: L['FormulaGrader'](),
        'grader_numerical': lambda: L['NumericalGrader'](), 'grader_matrix': lambda: L['MatrixGrader'](),
        'grader_single': lambda: L['SingleListGrader'](subgrader=L['StringGrader'](), delimiter=';'),
        'grader_list': lambda: L['ListGrader'](subgraders=L['StringGrader']()),
        'sampler_real': lambda: L['RealInterval'](), 'sampler_discrete': lambda: L['DiscreteSet']((1, 2)),
        'sampler_fn': lambda: L['RandomFunction'](), 'sampler_dependent': lambda: L['DependentSampler'](formula='x'),
        'credit_obj': lambda: L['ReciprocalCredit'](), 'comparer_obj': lambda: L['LinearComparer'](),
        'matharray': lambda: L['MathArray']([1.0, 2.0]),
    }
    return fresh[kind]()


# ---------------------------------------------------------------- projections
def deq(a, b):
    """deep equality that never asks numpy for the truth value of an array"""
    import numpy as np
    if a is b:
        return True
    if isinstance(a, np.ndarray) or isinstance(b, np.ndarray):
        return isinstance(a, np.ndarray) and isinstance(b, np.ndarray) and type(a) is type(b) and a.shape == b.shape \
            and bool(np.all(np.asarray(a) == np.asarray(b)))
    if hasattr(a, 'config') and hasattr(b, 'config'):
        return type(a) is type(b) and deq(a.config, b.config)
    if isinstance(a, dict) and isinstance(b, dict):
        return set(a) == set(b) and all(deq(a[k], b[k]) for k in a)
    if isinstance(a, (list, tuple)) and isinstance(b, (list, tuple)):
        return type(a) is type(b) and len(a) == len(b) and all(deq(x, y) for x, y in zip(a, b))
    if isinstance(a, bool) != isinstance(b, bool):
        return False
    try:
        return bool(a == b)
    except Exception:
        return False


def fmt_num(x):
    if isinstance(x, complex):
        return 'c%s' % x
    if float(x) == int(x) and abs(x) < 1e15:
        return str(int(x))
    return '%.5g' % x


_ESC = [('[', '_LSQB_'), (']', '_RSQB_'), ('{', '_LCUB_'), ('}', '_RCUB_'), ('<', '_LT_'), ('>', '_GT_'), ('|', '_BAR_'),
        ('\n', '_NL_'), ('"', '_DQ_'), ('\\', '_BSL_')]


def esc(s):
    for a, b in _ESC:
        s = s.replace(a, b)
    return s


def tok(opt, v, L):
    """default token of a validated configuration value (the vocabulary of ConfigSchema!Options[..].def)"""
    import numbers
    if v is None:
        return 'None'
    if isinstance(v, bool):
        return 'True' if v else 'False'
    if isinstance(v, numbers.Number):
        return 'n:' + fmt_num(v)
    if isinstance(v, str):
        if opt == 'tolerance' and v.endswith('%'):
            try:
                return 'pct:' + fmt_num(float(v[:-1]))
            except ValueError:
                pass
        return 's:' + esc(v)
    if opt == 'answers' and isinstance(v, (list, tuple)) and len(v) == 0:
        return 'answers_empty'
    if isinstance(v, list):
        if not v:
            return 'list_empty'
        if len(v) == 2 and all(isinstance(x, numbers.Number) and not isinstance(x, bool) for x in v):
            return 'range:%s:%s' % (fmt_num(v[0]), fmt_num(v[1]))
        return 'list:%d' % len(v)
    if isinstance(v, tuple):
        if not v:
            return 'tuple_empty'
        if all(isinstance(x, int) and not isinstance(x, bool) for x in v):
            return 'shape:' + ','.join(str(x) for x in v)
        return 'tuple:%d' % len(v)
    if isinstance(v, dict):
        if not v:
            return 'dict_empty'
        if opt == 'sample_from' and all(isinstance(x, L['RealInterval']) and x.config == {'start': 1, 'stop': 5} for x in v.values()):
            return 'dict_empty'     # "By default, each variable samples from RealInterval([1, 5]) (default {})"
        if set(v) == {'start', 'stop'}:
            return 'range:%s:%s' % (fmt_num(v['start']), fmt_num(v['stop']))
        if set(v) == {'is_raised', 'msg_detail'}:
            return 'asm:%s:%s' % (v['is_raised'], v['msg_detail'])
        if opt == 'input_positions':
            order = ['lower', 'upper', 'integrand' if 'integrand' in v else 'summand',
                     'integration_variable' if 'integration_variable' in v else 'summation_variable']
            return 'pos:' + ''.join('-' if v.get(k) is None else str(v.get(k)) for k in order)
        if opt == 'integrator_options' and v == {'full_output': 1}:
            return 'quad_default'
        return 'dict:%d' % len(v)
    if isinstance(v, L['RealInterval']):
        return 'RealInterval:%s:%s' % (fmt_num(v.config['start']), fmt_num(v.config['stop']))
    if opt == 'subgrader' and isinstance(v, L['NumericalGrader']):
        if deq(v, L['NumericalGrader'](tolerance=1e-13, allow_inf=True)):
            return 'interval_subgrader'
    if opt == 'transform' and callable(v):
        probe = object()
        try:
            if v(probe) is probe:      # "default None": no transformation; the code stores the identity function
                return 'None'
        except Exception:
            pass
    return '?:' + type(v).__name__


# ---------------------------------------------------------------- construction
def make_args(cls, pairs, L):
    """(positional value or None, dict of options) with fresh concrete values"""
    cfg = {}
    pos = None
    for opt, kind in pairs:
        if opt == '_value':
            pos = ('v', value(kind, cls, L))
        else:
            cfg[opt] = value(kind, cls, L)
    return pos, cfg


def attempt(fn, L):
    """-> (status, exception name, object)   status: 'accept' | 'reject' | 'other'"""
    import voluptuous
    try:
        return 'accept', None, fn()
    except L['ConfigError'] as e:
        return 'reject', type(e).__name__, None
    except voluptuous.Error as e:
        return 'reject', type(e).__name__, None
    except Exception as e:  # neither success nor a configuration / validation error
        msg = str(e)
        root = ('range-validator' if "'>=' not supported" in msg or "'<=' not supported" in msg else
                'length-validator' if 'has no len()' in msg else
                'interval-ordering' if "'>' not supported" in msg or "'<' not supported" in msg else 'unclassified')
        return 'other', '%s:%s' % (type(e).__name__, root), None


def construct_both(cls, pairs, L):
    """dictionary form and keyword form of the same abstract configuration"""
    C = L[cls]
    pos, cfg = make_args(cls, pairs, L)
    if pos is not None:
        s, e, o = attempt(lambda: C(pos[1]), L)
        return (s, e, o), None
    first = attempt(lambda: C(cfg), L)
    pos2, cfg2 = make_args(cls, pairs, L)
    second = attempt(lambda: C(**cfg2), L)
    return first, second


def check_object(cls, obj, L):
    """facts about a constructed object that do not depend on the case: -> dict"""
    facts = {'idempotent': None}
    if cls in GRADERS:
        s, e, again = attempt(lambda: L[cls](obj.config), L)
        if s != 'accept':
            facts['idempotent'] = False
            facts['idem_detail'] = 'Cls(obj.config) raised %s' % e
        else:
            try:
                eq = bool(again == obj)
            except Exception as ex:  # == itself fails (array-valued entries): fall back to structural equality
                eq = None
                facts['eq_raised'] = type(ex).__name__
            same = deq(again.config, obj.config) and type(again) is type(obj)
            facts['idempotent'] = bool(same if eq is None else (eq and same))
            if not facts['idempotent']:
                facts['idem_detail'] = '== gives %r, structural equality %r' % (eq, same)
    return facts


def observed_defaults(pairs, obj, L):
    """token of every entry of the exposed configuration (the specification picks the ones it has a documented default for:
    the omitted options and the options supplied with an explicit "use the default" value)"""
    if not isinstance(getattr(obj, 'config', None), dict):
        return None
    return {k: tok(k, v, L) for k, v in obj.config.items() if isinstance(k, str)}


def judge_config(part, cls, pairs, expect, defaults, L, equiv=()):
    """run one abstract configuration through the code; -> (problems, observation)
    problems: list of (aspect, class, expected, observed)"""
    first, second = construct_both(cls, pairs, L)
    probs = []
    obs = {'status': first[0], 'exc': first[1]}
    if expect == 'skip':        # the documentation does not decide this configuration: observed for the evidence only
        return probs, obs
    for form, r in (('dict', first), ('kwargs', second)):
        if r is None:
            continue
        if r[0] == 'other':
            probs.append(('exception', 'non-config-exception:%s' % r[1], 'success or configuration/validation error',
                          '%s form raised %s' % (form, r[1])))
        elif expect == 'accept' and r[0] != 'accept':
            probs.append(('verdict', 'rejects-in-domain', 'accept', '%s form raised %s' % (form, r[1])))
        elif expect == 'reject' and r[0] != 'reject':
            probs.append(('verdict', 'accepts-out-of-domain', 'reject', '%s form accepted' % form))
        # expect == 'marker': refused with a configuration error, or accepted exactly like omission (checked below)
    if second is not None and first[0] != 'other' and second[0] != 'other':
        if first[0] != second[0]:
            probs.append(('kwargs', 'kwargs-dict-differ', 'same outcome', 'dict %s, kwargs %s' % (first[0], second[0])))
        elif first[0] == 'accept' and not deq(first[2].config, second[2].config):
            probs.append(('kwargs', 'kwargs-dict-differ', 'equal configurations', 'configurations differ'))
    obs['kwargs_equal'] = not any(p[0] == 'kwargs' for p in probs)
    if first[0] == 'accept':
        obj = first[2]
        od = observed_defaults(pairs, obj, L)
        obs['defaults'] = od
        if od is not None:
            for opt, token in defaults:
                if token in ('OPTIONAL', 'REQUIRED'):
                    continue
                if opt not in od:
                    probs.append(('defaults', 'option-missing-from-config', '%s present' % opt, 'absent'))
                elif token != 'NOCHECK' and od[opt] != token:
                    probs.append(('defaults', 'default-mismatch', '%s = %s' % (opt, token), od[opt]))
        facts = check_object(cls, obj, L)
        obs.update(facts)
        if facts['idempotent'] is False:
            probs.append(('idempotent', 'not-idempotent', 'Cls(obj.config) == obj', facts.get('idem_detail')))
        if equiv:       # options supplied with an explicit "use the default" value: the object must equal the one built without them
            rest = [p for p in pairs if p[0] not in equiv]
            base, _ = construct_both(cls, rest, L)
            if base[0] != 'accept':
                probs.append(('omission', 'explicit-default-differs-from-omission', 'same object as with %s omitted' % sorted(equiv),
                              'construction without them raised %s' % base[1]))
            elif not (type(base[2]) is type(obj) and deq(base[2].config, obj.config)):
                diff = sorted(k for k in set(obj.config) | set(base[2].config)
                              if isinstance(obj.config, dict) and not deq(obj.config.get(k), base[2].config.get(k))) \
                    if isinstance(obj.config, dict) and isinstance(base[2].config, dict) else ['(whole configuration)']
                probs.append(('omission', 'explicit-default-differs-from-omission', 'same object as with %s omitted' % sorted(equiv),
                              'configurations differ in %s' % diff))
    return probs, obs


# ---------------------------------------------------------------- answers of item graders
ATOMS = {
    'StringGrader': {'e1': 'cat', 'e2': 'dog', 'e3': 'emu'},
    'FormulaGrader': {'e1': 'a+1', 'e2': '2*b', 'e3': 'c^2'},
    'NumericalGrader': {'e1': '1+1', 'e2': '2*3', 'e3': '4^2'},
    'MatrixGrader': {'e1': '[1,2]', 'e2': '[3,4]', 'e3': '[5,6]'},
}
BAD_ATOMS = {'b_int': lambda: 5, 'b_none': lambda: None, 'b_list': lambda: ['cat']}
GRADE = {'g0': 0, 'ghalf': 0.5, 'g1': 1, 'gneg': -0.5, 'g2': 2, 'gstr': '1'}
MSGV = {'m_text': MSG, 'm_empty': '', 'm_int': 5}
OKV = {'computed': 'computed', 'true': True, 'false': False, 'partial': 'partial', 'bogus': 'maybe'}


def atom_value(cls, a):
    return ATOMS[cls][a] if a in ATOMS[cls] else BAD_ATOMS[a]()


def item_value(cls, it):
    if it['form'] == 'atom':
        return atom_value(cls, it['expect'][0])
    d = {}
    if it['etup']:
        d['expect'] = tuple(atom_value(cls, a) for a in it['expect'])
    elif it['expect']:
        d['expect'] = atom_value(cls, it['expect'][0])
    if it['grade'] != 'absent':
        d['grade_decimal'] = GRADE[it['grade']]
    if it['msg'] != 'absent':
        d['msg'] = MSGV[it['msg']]
    if it['ok'] != 'absent':
        d['ok'] = OKV[it['ok']]
    if it['extra']:
        d['zz'] = 1
    return d


def answers_value(cls, ans):
    items = [item_value(cls, it) for it in ans['items']]
    return tuple(items) if ans['tup'] else items[0]


def project_answers(cls, answers):
    """validated config['answers'] -> canonical records in the spec's vocabulary, or ('bad', reason)"""
    back = {v: k for k, v in ATOMS[cls].items()}
    if not isinstance(answers, tuple):
        return 'bad', 'answers is %s, not a tuple' % type(answers).__name__
    out = []
    for a in answers:
        if not isinstance(a, dict) or set(a) != {'expect', 'grade_decimal', 'msg', 'ok'}:
            return 'bad', 'entry is not a dictionary with keys expect, grade_decimal, msg, ok'
        if not isinstance(a['expect'], tuple):
            return 'bad', 'expect is %s, not a tuple' % type(a['expect']).__name__
        ex = []
        for e in a['expect']:
            if isinstance(e, dict) and isinstance(e.get('comparer_params'), list) and len(e['comparer_params']) == 1:
                e = e['comparer_params'][0]
            ex.append(back.get(e, '?') if isinstance(e, str) else '?')
        g = a['grade_decimal']
        grade = 'g0' if g == 0 else 'g1' if g == 1 else 'ghalf' if g == 0.5 else '?'
        msg = 'm_empty' if a['msg'] == '' else 'm_text' if a['msg'] == MSG else '?'
        ok = 'true' if a['ok'] is True else 'false' if a['ok'] is False else 'partial' if a['ok'] == 'partial' else '?'
        out.append({'expect': ex, 'grade': grade, 'msg': msg, 'ok': ok})
    return 'ok', out


def project_comparer(answers, L):
    """the comparer the validated answers pair their (string) expect values with: (seen, {kind, credit, msg})"""
    found = []
    if isinstance(answers, tuple):
        for a in answers:
            for e in (a.get('expect', ()) if isinstance(a, dict) else ()):
                if isinstance(e, dict) and 'comparer' in e:
                    cmp = e['comparer']
                    if isinstance(cmp, L['MatrixEntryComparer']):
                        found.append({'kind': 'entry', 'credit': tok('entry_partial_credit', cmp.config['entry_partial_credit'], L),
                                      'msg': tok('entry_partial_msg', cmp.config['entry_partial_msg'], L)})
                    elif isinstance(cmp, L['EqualityComparer']) and tok('transform', cmp.config['transform'], L) == 'None':
                        found.append({'kind': 'equality', 'credit': '-', 'msg': '-'})
                    else:
                        found.append({'kind': '?' + type(cmp).__name__, 'credit': '-', 'msg': '-'})
                elif isinstance(e, str):
                    found.append({'kind': 'none', 'credit': '-', 'msg': '-'})
    if not found:
        return False, {'kind': 'none', 'credit': '-', 'msg': '-'}
    if any(f != found[0] for f in found):
        return True, {'kind': 'mixed', 'credit': '-', 'msg': '-'}
    return True, found[0]


def observe_answers(cls, ans, L, ctx=()):
    """-> observation dict for an answers case; ctx: the other options of the configuration as (option, kind) pairs"""
    C = L[cls]

    def cfg():
        d = make_args(cls, ctx, L)[1]
        d['answers'] = answers_value(cls, ans)
        return d
    s1, e1, o1 = attempt(lambda: C(cfg()), L)
    s2, e2, o2 = attempt(lambda: C(**cfg()), L)
    obs = {'status': s1, 'exc': e1, 'status_kw': s2, 'exc_kw': e2, 'canon': [], 'canon_ok': True, 'kwargs_equal': s1 == s2,
           'idempotent': True, 'detail': '', 'cmp_seen': False, 'cmp': {'kind': 'none', 'credit': '-', 'msg': '-'},
           'cmp_kw': {'kind': 'none', 'credit': '-', 'msg': '-'}}
    if s1 == 'accept':
        obs['cmp_seen'], obs['cmp'] = project_comparer(o1.config['answers'], L)
        obs['cmp_kw'] = project_comparer(o2.config['answers'], L)[1] if s2 == 'accept' else obs['cmp']
        st, proj = project_answers(cls, o1.config['answers'])
        if st == 'bad':
            obs['canon_ok'] = False
            obs['detail'] = proj
        else:
            obs['canon'] = proj
        if s2 == 'accept':
            obs['kwargs_equal'] = deq(o1.config, o2.config)
        facts = check_object(cls, o1, L)
        obs['idempotent'] = facts['idempotent'] is not False
        if not obs['idempotent']:
            obs['detail'] = facts.get('idem_detail')
    return obs


def judge_answers(expect, canon, obs, cmp=None):
    probs = []
    if expect == 'skip':
        return probs
    if cmp is not None and obs['status'] == 'accept' and obs.get('cmp_seen'):
        for form, got in (('dict', obs['cmp']), ('kwargs', obs['cmp_kw'])):
            if got != cmp:
                probs.append(('comparer', 'answers-normalised-with-wrong-comparer', cmp, '%s form: %s' % (form, got)))
    for form, s, e in (('dict', obs['status'], obs['exc']), ('kwargs', obs['status_kw'], obs['exc_kw'])):
        if s == 'other':
            probs.append(('exception', 'non-config-exception:%s' % e, 'success or configuration/validation error',
                          '%s form raised %s' % (form, e)))
        elif expect == 'accept' and s != 'accept':
            probs.append(('verdict', 'rejects-documented-answers-format', 'accept', '%s form raised %s' % (form, e)))
        elif expect == 'reject' and s != 'reject':
            probs.append(('verdict', 'accepts-invalid-answers', 'reject', '%s form accepted' % form))
    if obs['status'] == 'accept':
        if not obs['canon_ok']:
            probs.append(('canonical', 'answers-not-canonical', 'tuple of dictionaries', obs['detail']))
        elif expect == 'accept' and obs['canon'] != canon:
            probs.append(('canonical', 'answers-not-canonical', canon, obs['canon']))
        if not obs['kwargs_equal']:
            probs.append(('kwargs', 'kwargs-dict-differ', 'equal configurations', 'configurations differ'))
        if not obs['idempotent']:
            probs.append(('idempotent', 'not-idempotent', 'Cls(obj.config) == obj', obs['detail']))
    return probs


# ---------------------------------------------------------------- answers of list graders
def listans_value(la):
    delim = DELIM[la.get('delim', 'comma')]

    def alt_value(alt):
        entries = [answers_value('StringGrader', e) for e in alt['entries']]
        if alt['form'] == 'string':
            return delim.join(entries)
        if alt['form'] == 'list':
            return entries
        lists = [entries] + [[answers_value('StringGrader', e) for e in lst] for lst in alt.get('more', [])]
        if alt.get('estr'):
            lists = [delim.join(x) for x in lists]
        d = {'expect': tuple(lists) if len(lists) > 1 else lists[0]}
        if alt['grade'] != 'absent':
            d['grade_decimal'] = GRADE[alt['grade']]
        if alt['msg'] != 'absent':
            d['msg'] = MSGV[alt['msg']]
        return d
    vals = [alt_value(a) for a in la['alts']]
    return vals[0] if la['bare'] else tuple(vals)


def project_listans(cls, answers):
    if not isinstance(answers, tuple):
        return 'bad', 'answers is %s, not a tuple' % type(answers).__name__

    def entries(lst):
        if not isinstance(lst, list):
            raise ValueError('expected a list of answers, found %s' % type(lst).__name__)
        out = []
        for e in lst:
            st, proj = project_answers('StringGrader', e)
            if st == 'bad':
                raise ValueError('list entry: ' + proj)
            out.append(proj)
        return out
    res = []
    try:
        for a in answers:
            if cls == 'ListGrader':
                res.append(entries(a))
                continue
            if not isinstance(a, dict) or set(a) != {'expect', 'grade_decimal', 'msg', 'ok'}:
                return 'bad', 'entry is not a dictionary with keys expect, grade_decimal, msg, ok'
            if not isinstance(a['expect'], tuple):
                return 'bad', 'expect is %s, not a tuple of lists' % type(a['expect']).__name__
            g = a['grade_decimal']
            res.append({'expect': [entries(x) for x in a['expect']],
                        'grade': 'g0' if g == 0 else 'g1' if g == 1 else 'ghalf' if g == 0.5 else '?',
                        'msg': 'm_empty' if a['msg'] == '' else 'm_text' if a['msg'] == MSG else '?',
                        'ok': 'true' if a['ok'] is True else 'false' if a['ok'] is False else 'partial' if a['ok'] == 'partial' else '?'})
    except ValueError as e:
        return 'bad', str(e)
    return 'ok', res


def observe_listans(cls, la, L):
    C = L[cls]
    sub = 'subgraders' if cls == 'ListGrader' else 'subgrader'

    def cfg():
        d = {sub: L['StringGrader'](), 'answers': listans_value(la)}
        if cls == 'SingleListGrader':
            if la.get('lenerr'):
                d['length_error'] = True
            if la.get('delim', 'comma') != 'comma':
                d['delimiter'] = DELIM[la['delim']]
        return d
    s1, e1, o1 = attempt(lambda: C(cfg()), L)
    s2, e2, o2 = attempt(lambda: C(**cfg()), L)
    obs = {'status': s1, 'exc': e1, 'status_kw': s2, 'exc_kw': e2, 'canon': [], 'canon_ok': True, 'kwargs_equal': s1 == s2,
           'idempotent': True, 'detail': ''}
    if s1 == 'accept':
        st, proj = project_listans(cls, o1.config['answers'])
        if st == 'bad':
            obs['canon_ok'] = False
            obs['detail'] = proj
        else:
            obs['canon'] = proj
        if s2 == 'accept':
            obs['kwargs_equal'] = deq(o1.config, o2.config)
        facts = check_object(cls, o1, L)
        obs['idempotent'] = facts['idempotent'] is not False
        if not obs['idempotent']:
            obs['detail'] = facts.get('idem_detail')
    return obs


# ---------------------------------------------------------------- ListGrader groupings
def lg_subgraders(c, L):
    def sub(kind):
        return L['StringGrader']() if kind == 'item' else L['ListGrader'](subgraders=L['StringGrader']())
    return sub(c['subs'][0]) if c['one'] else [sub(k) for k in c['subs']]


def lg_alist(c, n, t):
    """a list of n answers, each shaped for the subgrader it is paired with"""
    subs = c['subs']
    out = []
    for i in range(n):
        kind = subs[0] if c['one'] else (subs[i] if i < len(subs) else 'item')
        out.append('a%s%d' % (t, i) if kind == 'item' else ['p%s%d' % (t, i), 'q%s%d' % (t, i)])
    return out


def lg_config(c, L):
    cfg = {'ordered': bool(c['ordered']), 'subgraders': lg_subgraders(c, L)}
    cfg['answers'] = lg_alist(c, c['nans'], 0) if c['ntup'] == 0 else tuple(lg_alist(c, c['nans'], t) for t in range(c['ntup']))
    if c['grouping']:
        cfg['grouping'] = list(c['grouping'])
    return cfg


def lnest_build(c, L, kw):
    """outer ListGrader around an inner ListGrader that gets its answers from the outer one"""
    inner = c['inner']
    icfg = {'subgraders': lg_subgraders(inner, L)}
    if inner['ordered']:
        icfg['ordered'] = True            # unordered: left at its default
    if inner['grouping']:
        icfg['grouping'] = list(inner['grouping'])
    ig = L['ListGrader'](**icfg) if kw else L['ListGrader'](icfg)
    m = len(inner['grouping']) if inner['grouping'] else c['nin']
    if c['oform'] == 'single':
        ocfg = {'subgraders': ig, 'answers': [lg_alist(inner, c['nin'], 'g%d' % g) for g in range(c['ngroups'])],
                'grouping': [g + 1 for g in range(c['ngroups']) for _ in range(m)]}
    else:
        ocfg = {'subgraders': [ig, L['StringGrader']()], 'answers': [lg_alist(inner, c['nin'], 'g0'), 'z'],
                'grouping': [1] * m + [2]}
    ocfg['ordered'] = bool(c['oordered'])
    return L['ListGrader'](**ocfg) if kw else L['ListGrader'](ocfg)


def observe_lnest(c, L):
    s1, e1, o1 = attempt(lambda: lnest_build(c, L, False), L)
    s2, e2, o2 = attempt(lambda: lnest_build(c, L, True), L)
    obs = {'status': s1, 'exc': e1, 'status_kw': s2, 'exc_kw': e2, 'canon_ok': True, 'kwargs_equal': s1 == s2,
           'idempotent': True, 'detail': ''}
    if s1 == 'accept':
        if not (isinstance(o1.config['answers'], tuple) and all(isinstance(x, list) for x in o1.config['answers'])):
            obs['canon_ok'] = False
            obs['detail'] = 'answers is not a tuple of lists'
        if s2 == 'accept':
            obs['kwargs_equal'] = deq(o1.config, o2.config)
        facts = check_object('ListGrader', o1, L)
        obs['idempotent'] = facts['idempotent'] is not False
        if not obs['idempotent']:
            obs['detail'] = facts.get('idem_detail')
    return obs


def lg_canonical(c, answers):
    """is config['answers'] a tuple of lists of canonical item answers (item subgraders) / tuples (list subgraders)?"""
    if not isinstance(answers, tuple):
        return 'answers is %s, not a tuple' % type(answers).__name__
    if len(answers) != (max(c['ntup'], 1) if c['nans'] or c['ntup'] else 0):
        return 'tuple of %d lists' % len(answers)
    for lst in answers:
        if not isinstance(lst, list) or len(lst) != c['nans']:
            return 'entry is not a list of %d answers' % c['nans']
        for i, ent in enumerate(lst):
            if not isinstance(ent, tuple) or not ent:
                return 'answer %d is not a tuple' % i
            kind = c['subs'][0] if c['one'] else c['subs'][i]
            if kind == 'item':
                d = ent[0]
                if not (isinstance(d, dict) and set(d) == {'expect', 'grade_decimal', 'msg', 'ok'}
                        and isinstance(d['expect'], tuple) and d['grade_decimal'] == 1 and d['ok'] is True and d['msg'] == ''):
                    return 'answer %d is not a canonical dictionary' % i
            elif not isinstance(ent[0], list):
                return 'answer %d of a ListGrader subgrader is not a tuple of lists' % i
    return None


def observe_lg(c, L):
    C = L['ListGrader']
    s1, e1, o1 = attempt(lambda: C(lg_config(c, L)), L)
    s2, e2, o2 = attempt(lambda: C(**lg_config(c, L)), L)
    obs = {'status': s1, 'exc': e1, 'status_kw': s2, 'exc_kw': e2, 'canon_ok': True, 'kwargs_equal': s1 == s2,
           'idempotent': True, 'detail': ''}
    if s1 == 'accept':
        why = lg_canonical(c, o1.config['answers'])
        if why:
            obs['canon_ok'] = False
            obs['detail'] = why
        if s2 == 'accept':
            obs['kwargs_equal'] = deq(o1.config, o2.config)
        facts = check_object('ListGrader', o1, L)
        obs['idempotent'] = facts['idempotent'] is not False
        if not obs['idempotent']:
            obs['detail'] = facts.get('idem_detail')
    return obs


# ---------------------------------------------------------------- nested SingleListGraders, SquareMatrices
DELIM = {'comma': ',', 'semi': ';', 'colon': ':', 'slash': '/', 'amp': '&'}


def observe_nested(chain, L, tail='none'):
    def build(kw):
        if tail == 'none':
            g = L['StringGrader']()
        else:       # an IntervalGrader (subclass of SingleListGrader) as the innermost list grader
            icfg = {} if tail == 'default' else {'delimiter': DELIM[tail]}
            g = L['IntervalGrader'](**icfg) if kw else L['IntervalGrader'](icfg)
        for d in reversed(chain):
            cfg = {'subgrader': g, 'delimiter': DELIM[d]}
            g = L['SingleListGrader'](**cfg) if kw else L['SingleListGrader'](cfg)
        return g
    s1, e1, o1 = attempt(lambda: build(False), L)
    s2, e2, o2 = attempt(lambda: build(True), L)
    obs = {'status': s1, 'exc': e1, 'status_kw': s2, 'exc_kw': e2, 'canon_ok': True, 'kwargs_equal': s1 == s2,
           'idempotent': True, 'detail': ''}
    if s1 == 'accept':
        if s2 == 'accept':
            obs['kwargs_equal'] = deq(o1.config, o2.config)
        facts = check_object('SingleListGrader', o1, L)
        obs['idempotent'] = facts['idempotent'] is not False
        obs['detail'] = facts.get('idem_detail') or ''
    return obs


BRACKET = {'lsq': '[', 'lpar': '(', 'lcub': '{', 'rsq': ']', 'rpar': ')', 'rcub': '}'}


def interval_config(c):
    op = '[(' if c['open'] == 'two' else BRACKET[c['open']]
    cl = '])' if c['close'] == 'two' else BRACKET[c['close']]
    bounds = ['1', '2', '3', '4', '5'][:c['nbounds']]
    val = op + ','.join(bounds) + cl if c['form'] == 'string' else [op] + bounds + [cl]
    if c['wrap'] == 'tuple':
        val = (val,)
    elif c['wrap'] == 'dict':
        val = {'expect': val, 'msg': MSG}
    cfg = {'answers': val}
    if c.get('sub') == 'none':
        cfg['subgrader'] = None          # the explicit "use the default" marker
    if c['curly']:
        cfg.update(opening_brackets='[({', closing_brackets='])}')
    return cfg


def interval_canonical(answers):
    if not isinstance(answers, tuple) or len(answers) != 1:
        return 'answers is not a tuple of one dictionary'
    a = answers[0]
    if not isinstance(a, dict) or set(a) != {'expect', 'grade_decimal', 'msg', 'ok'} or not isinstance(a['expect'], tuple):
        return 'entry is not a canonical dictionary'
    for lst in a['expect']:
        if not isinstance(lst, list) or len(lst) != 4:
            return 'expect is not a tuple of four-entry lists'
        for ent in lst:
            if not (isinstance(ent, tuple) and ent and all(isinstance(d, dict) and set(d) == {'expect', 'grade_decimal', 'msg', 'ok'}
                                                            and isinstance(d['expect'], tuple) for d in ent)):
                return 'interval entry is not a canonical answers tuple'
    return None


def observe_interval(c, L):
    C = L['IntervalGrader']
    s1, e1, o1 = attempt(lambda: C(interval_config(c)), L)
    s2, e2, o2 = attempt(lambda: C(**interval_config(c)), L)
    obs = {'status': s1, 'exc': e1, 'status_kw': s2, 'exc_kw': e2, 'canon_ok': True, 'kwargs_equal': s1 == s2,
           'idempotent': True, 'detail': ''}
    if s1 == 'accept':
        why = interval_canonical(o1.config['answers'])
        if why:
            obs['canon_ok'] = False
            obs['detail'] = why
        if s2 == 'accept':
            obs['kwargs_equal'] = deq(o1.config, o2.config)
        facts = check_object('IntervalGrader', o1, L)
        obs['idempotent'] = facts['idempotent'] is not False
        if not obs['idempotent']:
            obs['detail'] = facts.get('idem_detail')
    return obs


def square_config(c):
    return {'symmetry': None if c['symmetry'] == 'none' else c['symmetry'], 'traceless': bool(c['traceless']),
            'determinant': {'none': None, 'zero': 0, 'one': 1}[c['determinant']], 'complex': bool(c['complex']),
            'dimension': int(c['dimension'])}


def observe_square(c, L):
    C = L['SquareMatrices']
    s1, e1, o1 = attempt(lambda: C(square_config(c)), L)
    s2, e2, o2 = attempt(lambda: C(**square_config(c)), L)
    obs = {'status': s1, 'exc': e1, 'status_kw': s2, 'exc_kw': e2, 'canon_ok': True, 'kwargs_equal': s1 == s2,
           'idempotent': True, 'detail': ''}
    if s1 == 'accept' and s2 == 'accept':
        obs['kwargs_equal'] = deq(o1.config, o2.config)
    return obs


def judge_simple(expect, obs, what):
    """lgroup / nested / square: verdict, exception family, kwargs, canonical answers, idempotence"""
    probs = []
    if expect == 'skip':
        return probs
    for form, s, e in (('dict', obs['status'], obs['exc']), ('kwargs', obs['status_kw'], obs['exc_kw'])):
        if s == 'other':
            probs.append(('exception', 'non-config-exception:%s' % e, 'success or configuration/validation error',
                          '%s form raised %s' % (form, e)))
        elif expect == 'accept' and s != 'accept':
            probs.append(('verdict', '%s-rejects-valid' % what, 'accept', '%s form raised %s' % (form, e)))
        elif expect == 'reject' and s != 'reject':
            probs.append(('verdict', '%s-accepts-invalid' % what, 'reject', '%s form accepted' % form))
    if obs['status'] == 'accept':
        if not obs['canon_ok']:
            probs.append(('canonical', 'answers-not-canonical', 'tuple of lists of canonical answers', obs['detail']))
        if not obs['kwargs_equal']:
            probs.append(('kwargs', 'kwargs-dict-differ', 'equal configurations', 'configurations differ'))
        if not obs['idempotent']:
            probs.append(('idempotent', 'not-idempotent', 'Cls(obj.config) == obj', obs['detail']))
    elif obs['status'] != obs['status_kw'] and 'other' not in (obs['status'], obs['status_kw']):
        probs.append(('kwargs', 'kwargs-dict-differ', 'same outcome', 'dict %s, kwargs %s' % (obs['status'], obs['status_kw'])))
    return probs


# ---------------------------------------------------------------- spec -> code replay
def replay_states(states, extra):
    from engine import repo
    repo.activate()
    L = lib()
    res = {'n': 0, 'keys': set(), 'bad': [], 'sample': None, 'table': {}, 'skips': {}, 'eq_raised': 0}
    for st in states:
        c, out = st['c'], st['out']
        kind = c['kind']
        if kind == 'seed':
            continue
        res['n'] += 1
        expect = out['expect']
        if kind in ('base', 'single', 'mathx'):
            cls = c['cls']
            pairs = sorted(tuple(p) for p in out['cfg'])
            probs, obs = judge_config(kind, cls, pairs, expect, [tuple(d) for d in out['defaults']], L, set(out.get('equiv') or ()))
            case = {'part': kind, 'cls': cls, 'cfg': [list(p) for p in pairs]}
            if out.get('equiv'):
                case['equiv'] = sorted(out['equiv'])
            if kind == 'single':
                res['table'].setdefault(cls, {}).setdefault(c['opt'], []).append([c['val'], expect])
                res['keys'].add((cls, c['opt'], expect))
                if expect == 'skip':
                    res['skips']['%s.%s=%s' % (cls, c['opt'], c['val'])] = obs['status']
            else:
                res['keys'].add((kind, cls, expect, obs['status']))
            if obs.get('eq_raised'):
                res['eq_raised'] += 1
        elif kind == 'answers':
            ctx = sorted(tuple(p) for p in out['ctx'])
            obs = observe_answers(c['cls'], c['ans'], L, ctx)
            probs = judge_answers(expect, out['canon'], obs, out['cmp'])
            case = {'part': kind, 'cls': c['cls'], 'ctx': [list(p) for p in ctx], 'ans': c['ans']}
            res['keys'].add((kind, c['cls'], c['ctx'], expect, len(c['ans']['items']), c['ans']['tup']))
        elif kind == 'listans':
            obs = observe_listans(c['cls'], c['la'], L)
            probs = judge_answers(expect, out['canon'], obs)
            case = {'part': kind, 'cls': c['cls'], 'ans': c['la']}
            res['keys'].add((kind, c['cls'], expect, len(c['la']['alts']), c['la']['alts'][0]['form'],
                             len(c['la']['alts'][0]['more']), c['la']['lenerr'], c['la']['delim']))
        elif kind == 'lgroup':
            obs = observe_lg(c, L)
            probs = judge_simple(expect, obs, 'listgrader')
            case = {'part': kind, 'case': {k: c[k] for k in ('ordered', 'subs', 'one', 'grouping', 'nans', 'ntup')}}
            res['keys'].add((kind, expect, c['one'], c['ordered'], len(c['grouping']) > 0))
        elif kind == 'lnest':
            obs = observe_lnest(c, L)
            probs = judge_simple(expect, obs, 'nested-listgrader')
            case = {'part': kind, 'case': {k: c[k] for k in ('inner', 'nin', 'oform', 'oordered', 'ngroups')}}
            res['keys'].add((kind, expect, c['oform'], c['inner']['one'], c['inner']['ordered'], len(c['inner']['grouping']) > 0))
        elif kind == 'nested':
            obs = observe_nested(c['chain'], L, c['tail'])
            probs = judge_simple(expect, obs, 'nested-delimiters')
            case = {'part': kind, 'chain': c['chain'], 'tail': c['tail']}
            res['keys'].add((kind, expect, len(c['chain']), c['tail'] != 'none'))
        elif kind == 'interval':
            obs = observe_interval(c, L)
            probs = judge_simple(expect, obs, 'intervalgrader-answers')
            case = {'part': kind, 'case': {k: c[k] for k in ('form', 'open', 'close', 'nbounds', 'curly', 'wrap', 'sub')}}
            res['keys'].add((kind, expect, c['form'], c['wrap'], c['nbounds']))
        elif kind == 'square':
            obs = observe_square(c, L)
            probs = judge_simple(expect, obs, 'squarematrices')
            case = {'part': kind, 'case': {k: c[k] for k in ('symmetry', 'traceless', 'determinant', 'complex', 'dimension')}}
            res['keys'].add((kind, expect, c['symmetry'], c['determinant']))
        else:
            raise ValueError(kind)
        if res['sample'] is None and expect != 'skip':
            res['sample'] = {'case': case, 'spec': expect, 'observed': obs.get('status')}
        for aspect, klass, exp, got in probs:
            if len(res['bad']) < 300:
                res['bad'].append({'case': case, 'aspect': aspect, 'class': klass, 'expected': exp, 'observed': got})
    res['keys'] = sorted(map(list, res['keys']), key=str)
    return res


def refine(klass, case):
    """stable sub-class for known root causes"""
    kinds = {k for _, k in case.get('cfg', [])}
    if klass == 'not-idempotent' and 'dict_const_del' in kinds:
        return 'not-idempotent:removed-default-constant'
    return klass


def report(ctx, b):
    sig = dict(b['case'])
    sig.update({'aspect': b['aspect'], 'class': refine(b['class'], b['case']), 'expected': b['expected'],
                'observed': b['observed']})
    where = sig.get('cls') or sig.get('part')
    ctx.violation(sig, '%s %s: %s -- documented: %s, code: %s' % (
        where, describe(sig), b['aspect'], b['expected'], b['observed']))


def describe(sig):
    if 'cfg' in sig:
        return '(' + ', '.join('%s=<%s>' % (o, k) for o, k in sig['cfg']) + ')'
    if 'ans' in sig:
        return 'answers=%s' % (sig['ans'],)
    return str(sig.get('case') or sig.get('chain'))


# ---------------------------------------------------------------- code -> spec: random driver
def rand_item(rng, wide):
    atoms = ['e1', 'e2', 'e3'] + (['b_int', 'b_none', 'b_list'] if rng.random() < .15 else [])
    if rng.random() < .3:
        return {'form': 'atom', 'expect': [rng.choice(atoms)], 'etup': False, 'grade': 'absent', 'msg': 'absent',
                'ok': 'absent', 'extra': False}
    etup = rng.random() < .4
    n = rng.randint(1, 3) if etup else (0 if rng.random() < .05 else 1)
    bad = rng.random() < .25

    def pick(good, badv):
        return rng.choice(badv) if bad and rng.random() < .4 else rng.choice(good)
    return {'form': 'dict', 'expect': [rng.choice(atoms) for _ in range(n)], 'etup': etup,
            'grade': pick(['absent', 'g0', 'ghalf', 'g1'], ['gneg', 'g2', 'gstr']),
            'msg': pick(['absent', 'm_text', 'm_empty'], ['m_int']),
            'ok': pick(['absent', 'computed', 'true', 'false', 'partial'], ['bogus']),
            'extra': bad and rng.random() < .2}


def rand_records(rng, n, table):
    """abstract cases beyond the exhaustive bounds"""
    recs = []
    classes = sorted(table)
    for i in range(n):
        r = rng.random()
        if r < .55:
            cls = rng.choice(classes)
            opts = [o for o in sorted(table[cls]) if o not in ('-', '_value', 'zz_unknown_option')]
            k = min(len(opts), rng.randint(1, 6))
            pairs = []
            for o in rng.sample(opts, k):
                good = [v for v, e in table[cls][o] if e in ('accept', 'marker') and v != 'ABSENT']
                bad = [v for v, e in table[cls][o] if e == 'reject' and v != 'ABSENT']
                pool = good if (good and (not bad or rng.random() < .93)) else bad
                if pool:
                    pairs.append([o, rng.choice(pool)])
            if rng.random() < .04 and 'zz_unknown_option' in table[cls]:
                pairs.append(['zz_unknown_option', 'int_one'])
            have = {o for o, _ in pairs}
            for o, vals in table[cls].items():        # keep required options unless this case drops one on purpose
                if any(v == 'ABSENT' for v, _ in vals) and o not in have and o != '_value' and rng.random() < .95:
                    good = [v for v, e in vals if e == 'accept' and v != 'ABSENT']
                    if good:
                        pairs.append([o, rng.choice(good)])
            if '_value' in table[cls] and not any(o != '_value' for o in table[cls] if o != '-'):
                pairs = [['_value', rng.choice([v for v, e in table[cls]['_value'] if v != 'ABSENT'])]]
            recs.append({'id': i, 'ev': 'construct', 'cls': cls, 'cfg': sorted(pairs)})
        elif r < .75:
            cls = rng.choice(sorted(ATOMS))
            tup = rng.random() < .7
            items = [rand_item(rng, True) for _ in range(rng.randint(0, 5) if tup else 1)]
            ctx = []
            if rng.random() < .5:
                ctx.append(['wrong_msg', rng.choice(['str', 'str_empty'])])
            if cls != 'StringGrader' and rng.random() < .3:
                ctx.append(['tolerance', rng.choice(['pct_ok', 'float_frac', 'int_zero'])])
            if cls == 'MatrixGrader' or (cls != 'StringGrader' and rng.random() < .03):   # out of place for the other classes
                if rng.random() < .5:
                    ctx.append(['entry_partial_credit', rng.choice(['enum_proportional', 'float_frac', 'float_one', 'float_zero',
                                                                    'int_zero', 'int_one'])])
                if rng.random() < .4:
                    ctx.append(['entry_partial_msg', rng.choice(['str', 'str_empty', 'str_char'])])
            recs.append({'id': i, 'ev': 'answers', 'cls': cls, 'ctx': sorted(ctx), 'ans': {'tup': tup, 'items': items}})
        elif r < .82:
            cls = rng.choice(['ListGrader', 'SingleListGrader'])
            n = rng.randint(1, 5)

            def entry():
                tup = rng.random() < .3
                return {'tup': tup, 'items': [rand_item(rng, True) for _ in range(rng.randint(1, 3) if tup else 1)]}

            def atom_entry():
                return {'tup': False, 'items': [{'form': 'atom', 'expect': [rng.choice(['e1', 'e2', 'e3'])], 'etup': False,
                                                 'grade': 'absent', 'msg': 'absent', 'ok': 'absent', 'extra': False}]}

            def alt():
                form = rng.choice(['list', 'list', 'dict', 'string'] if cls == 'SingleListGrader' else ['list'] * 8 + ['dict', 'string'])
                if form == 'string':
                    ents = [atom_entry() for _ in range(n)]
                else:
                    ents = [entry() for _ in range(n if rng.random() < .9 else rng.randint(1, 5))]
                more, estr = [], False
                if form == 'dict' and cls == 'SingleListGrader' and rng.random() < .5:
                    estr = rng.random() < .4
                    for _ in range(rng.randint(1, 3)):
                        m = n if rng.random() < .6 else rng.randint(1, 5)
                        more.append([atom_entry() for _ in range(m)] if estr else [entry() for _ in range(m)])
                    if estr:
                        ents = [atom_entry() for _ in range(len(ents))]
                return {'form': form, 'entries': ents, 'more': more, 'estr': estr,
                        'grade': rng.choice(['absent', 'absent', 'ghalf', 'g0', 'g1', 'g2']) if form == 'dict' else 'absent',
                        'msg': rng.choice(['absent', 'm_text', 'm_empty', 'm_int']) if form == 'dict' else 'absent'}
            bare = rng.random() < .4
            single = cls == 'SingleListGrader'
            recs.append({'id': i, 'ev': 'listans', 'cls': cls,
                         'la': {'bare': bare, 'alts': [alt() for _ in range(1 if bare else rng.randint(1, 3))],
                                'lenerr': single and rng.random() < .5,
                                'delim': rng.choice(['comma', 'semi', 'colon']) if single else 'comma'}})
        elif r < .9:
            one = rng.random() < .4
            subs = [rng.choice(['item', 'list']) for _ in range(1 if one else rng.randint(2, 4))]
            ngroups = rng.randint(1, 4)
            grouping = [] if rng.random() < .3 else [rng.randint(1, ngroups) for _ in range(rng.randint(1, 8))]
            nans = rng.choice([0, 1, 2, 3, 4, len(subs), len(subs), len(set(grouping)) or 2])
            recs.append({'id': i, 'ev': 'lgroup', 'ordered': rng.random() < .6, 'subs': subs, 'one': one, 'grouping': grouping,
                         'nans': nans, 'ntup': rng.choice([0, 0, 1, 2, 3])})
        elif r < .915:
            one = rng.random() < .4
            subs = [rng.choice(['item', 'item', 'list']) for _ in range(1 if one else rng.randint(2, 4))]
            ng = rng.randint(1, 3)
            grouping = [] if rng.random() < .5 else [rng.randint(1, ng) for _ in range(rng.randint(1, 5))]
            recs.append({'id': i, 'ev': 'lnest', 'inner': {'ordered': rng.random() < .5, 'subs': subs, 'one': one, 'grouping': grouping},
                         'nin': rng.choice([1, 2, 3, 4, len(subs), len(subs)]), 'oform': rng.choice(['single', 'pair']),
                         'oordered': rng.random() < .6, 'ngroups': rng.randint(2, 4)})
        elif r < .93:
            form = rng.choice(['string', 'list'])
            syms = ['lsq', 'lpar', 'lcub', 'rsq', 'rpar', 'rcub'] + (['two'] if form == 'list' else [])
            recs.append({'id': i, 'ev': 'interval', 'form': form, 'open': rng.choice(['lsq', 'lpar'] * 3 + syms),
                         'close': rng.choice(['rsq', 'rpar'] * 3 + syms), 'nbounds': rng.choice([2, 2, 2, 1, 3, 4, 5]),
                         'curly': rng.random() < .5, 'wrap': rng.choice(['bare', 'tuple', 'dict']),
                         'sub': rng.choice(['omitted', 'omitted', 'none'])})
        elif r < .96:
            recs.append({'id': i, 'ev': 'nested', 'chain': [rng.choice(sorted(DELIM)) for _ in range(rng.randint(1, 5))],
                         'tail': rng.choice(['none', 'none', 'default'] + sorted(DELIM))})
        else:
            recs.append({'id': i, 'ev': 'square', 'symmetry': rng.choice(['none', 'diagonal', 'symmetric', 'antisymmetric',
                                                                           'hermitian', 'antihermitian']),
                         'traceless': rng.random() < .5, 'determinant': rng.choice(['none', 'zero', 'one']),
                         'complex': rng.random() < .5, 'dimension': rng.randint(2, 7)})
    return recs


def observe_chunk(recs, extra):
    """run abstract cases through the code and attach the observation (code -> spec records)"""
    from engine import repo
    repo.activate()
    L = lib()
    out = []
    for r in recs:
        r = dict(r)
        ev = r['ev']
        if ev == 'construct':
            pairs = [tuple(p) for p in r['cfg']]
            first, second = construct_both(r['cls'], pairs, L)
            r['status'] = first[0]
            r['status_kw'] = second[0] if second is not None else first[0]
            r['exc'] = first[1] or (second[1] if second else None) or ''
            r['kwargs_equal'] = True
            r['idempotent'] = True
            r['defaults'] = []
            r['dictcfg'] = False
            if first[0] == 'accept':
                if second is not None and second[0] == 'accept':
                    r['kwargs_equal'] = deq(first[2].config, second[2].config)
                od = observed_defaults(pairs, first[2], L)
                if od is not None:
                    r['dictcfg'] = True
                    r['defaults'] = sorted([k, v] for k, v in od.items())
                r['idempotent'] = check_object(r['cls'], first[2], L)['idempotent'] is not False
        elif ev in ('answers', 'listans'):
            o = observe_answers(r['cls'], r['ans'], L, [tuple(p) for p in r['ctx']]) if ev == 'answers' \
                else observe_listans(r['cls'], r['la'], L)
            if ev == 'answers':
                r.update(cmp_seen=o['cmp_seen'], cmp=o['cmp'], cmp_kw=o['cmp_kw'])
            r.update(status=o['status'], status_kw=o['status_kw'], exc=o['exc'] or o['exc_kw'] or '', canon=o['canon'],
                     canon_ok=o['canon_ok'], kwargs_equal=o['kwargs_equal'], idempotent=o['idempotent'])
        else:
            o = observe_lg(r, L) if ev == 'lgroup' else observe_lnest(r, L) if ev == 'lnest' \
                else observe_nested(r['chain'], L, r.get('tail', 'none')) if ev == 'nested' \
                else observe_interval(r, L) if ev == 'interval' else observe_square(r, L)
            r.update(status=o['status'], status_kw=o['status_kw'], exc=o['exc'] or o['exc_kw'] or '', canon_ok=o['canon_ok'],
                     kwargs_equal=o['kwargs_equal'], idempotent=o['idempotent'])
        out.append(r)
    return out


CLAUSE_CLASS = {
    'exception': None, 'accepts': 'accepts-out-of-domain', 'rejects': 'rejects-in-domain', 'kwargs': 'kwargs-dict-differ',
    'idempotent': 'not-idempotent', 'canonical': 'answers-not-canonical', 'default': 'default-mismatch',
    'comparer': 'answers-normalised-with-wrong-comparer',
    'missing': 'option-missing-from-config',
}


def report_trace(ctx, r, clause):
    clause = str(clause)
    head = clause.split(':')[0]
    klass = refine(CLAUSE_CLASS.get(head) or 'non-config-exception:%s' % r.get('exc'), r)
    case = {k: r[k] for k in r if k in ('cls', 'cfg', 'ctx', 'ans', 'la', 'chain', 'tail', 'ordered', 'subs', 'one', 'grouping', 'nans', 'ntup',
                                        'form', 'open', 'close', 'nbounds', 'curly', 'wrap', 'sub', 'inner', 'nin', 'oform',
                                        'oordered', 'ngroups',
                                        'symmetry', 'traceless', 'determinant', 'complex', 'dimension')}
    sig = {'part': 'trace:' + r['ev']}
    sig.update(case)
    sig.update({'aspect': head, 'class': klass, 'expected': clause, 'observed': {k: r.get(k) for k in (
        'status', 'status_kw', 'exc', 'kwargs_equal', 'idempotent')}})
    ctx.violation(sig, 'recorded %s case %s: trace specification refuses it: %s (code: %s/%s %s)' % (
        r['ev'], describe(sig) if ('cfg' in sig or 'ans' in sig) else case, clause, r['status'], r['status_kw'], r['exc']))


# ---------------------------------------------------------------- driver
PARTS = ['single', 'mathx', 'answers', 'listans', 'lgroup', 'lnest', 'nested', 'interval', 'square']
DOC_CONFLICTS = [
    'SumGrader.samples: docstring "default changed to 2", docs/grading_math/sum_grader.md "default 1"',
    'SumGrader.infty_val_fact: docs/grading_math/sum_grader.md spells it inftY_val_fact',
    'AbstractGrader.wrong_msg: docs/graders.md lists wrong_msg for all graders, docstrings define it for ItemGraders only',
    'GeometricCredit.factor: docstring default 0.75, docs/graders.md "defaults to 0.5"',
    'LinearComparer.equals: docstring (None | number), docs/grading_math/comparer_functions.md float',
    'LinearComparer.equals_msg/offset_msg/linear_msg: docstring (str) default "", comparer_functions.md (None | str) default None',
    'SingleListGrader.delimiter: docstring "Single character", single_list_grader.md "do not disallow" multi-character',
    'MatrixGrader.allow_inf: matrix_grader.md "does not have" it, docstring "options as per FormulaGrader"',
    'MatrixGrader.identity_dim: docstring (?int), matrix_grader.md "positive integer"',
    'IntervalGrader.delimiter: interval_grader.md "must be one character" (multi-character values left out)',
]


def run(ctx):
    table = {}
    skips = {}
    eq_raised = 0
    for part in PARTS:
        d = os.path.join(ctx.scratch, 'cases_' + part)
        ctx.tlc('graders/MC_ConfigSchema.tla', 'graders/MC_ConfigSchema_%s_%s.cfg' % (part, ctx.tier), dump=d, timeout=3000)
        res = dump.parallel(d + '.dump', 'engine.adapters.c20', 'replay_states')
        os.remove(d + '.dump')
        for r in res:
            ctx.traces_validated += r['n']
            ctx.evaluations += r['n']
            for k in r['keys']:
                ctx.nontrivial.add(tuple(map(str, k)))
            if r['sample']:
                ctx.sample(r['sample'], limit=8)
            for cls, opts in r['table'].items():
                for o, vals in opts.items():
                    table.setdefault(cls, {}).setdefault(o, []).extend(vals)
            skips.update(r['skips'])
            eq_raised += r['eq_raised']
            for b in r['bad']:
                report(ctx, b)
    for opts in table.values():          # TLC's dump order depends on worker scheduling: make the random driver deterministic
        for o in opts:
            opts[o] = sorted(opts[o])
    # code -> spec
    n = 2500 if ctx.quick else 40000
    cases = rand_records(ctx.rng, n, table)
    recs = [r for chunk in dump.pmap('engine.adapters.c20', 'observe_chunk', cases) for r in chunk]
    rej = traces.validate(ctx, 'graders/ConfigSchemaTrace.tla', 'graders/ConfigSchemaTrace.cfg', recs)
    ctx.evaluations += len(recs)
    byid = {r['id']: r for r in recs}
    for r in recs[:2]:
        ctx.sample({'trace_record': r}, limit=10)
    for i, clause in rej.items():
        report_trace(ctx, byid[i], clause)
    nskip = len(skips)
    # growth beyond the listed properties: course-wide registered defaults (docs/plugins.md); disagreements are drift
    from engine.adapters import defaults
    defaults.run_part(ctx)
    ctx.extra['doc_conflict'] = DOC_CONFLICTS
    ctx.extra['undecided_by_documentation'] = {
        'count': nskip, 'accepted_by_code': sorted(k for k, v in skips.items() if v == 'accept')[:400],
        'refused_by_code': sorted(k for k, v in skips.items() if v == 'reject')[:400]}
    ctx.extra['observations'] = [
        'SquareMatrixSamplingSet family is not re-constructible from obj.config (shape rewritten to (d, d)); samplers are '
        'outside the idempotence clause of the statement',
        'EqualityComparer / MatrixEntryComparer store the identity function for the documented default transform=None; '
        'accepted as the same default',
        'grader == raised during the idempotence comparison in %d cases (structural equality used instead)' % eq_raised]
    ctx.extra['bounds'] = {'tier': ctx.tier, 'classes': len(table), 'single_deviation_cases': sum(
        len(v) for o in table.values() for v in o.values()), 'random_records': n}
    ctx.assumptions += [
        'one concrete Python value represents each abstract value kind',
        'values whose membership in the documented domain is debatable (None where not mentioned, bool for int, int for float, '
        'complex for number, multi-character delimiters, callable objects for functions) are judged only for the error family',
        'default tokens compare numbers by value (1 == 1.0), percentages numerically, ranges [a, b] and {start, stop} alike']


def replay(ctx, rec):
    """re-run the recorded failing case against the current tree; True iff the recorded aspect now holds"""
    from engine import repo
    repo.activate()
    L = lib()
    sig = rec['signature']
    part = str(sig.get('part', '')).replace('trace:', '')
    aspect = str(sig.get('aspect'))
    expected = sig.get('expected')
    want = 'accept' if (expected == 'accept' or aspect == 'rejects') else 'reject' if (expected == 'reject' or aspect == 'accepts') else None
    print('case    :', part, describe(sig) if ('cfg' in sig or 'ans' in sig or 'la' in sig) else {k: sig[k] for k in sig if k not in (
        'aspect', 'class', 'expected', 'observed', 'part')})
    print('recorded:', aspect, '-- documented:', expected, '-- code:', sig.get('observed'))
    if 'cfg' in sig and 'cls' in sig:
        pairs = [tuple(p) for p in sig['cfg']]
        first, second = construct_both(sig['cls'], pairs, L)
        statuses = [first[0]] + ([second[0]] if second else [])
        print('now     : dict form', first[:2], ' kwargs form', second[:2] if second else None)
        if aspect == 'exception':
            return 'other' not in statuses
        if aspect in ('verdict', 'accepts', 'rejects'):
            return all(x == want for x in statuses)
        if first[0] != 'accept':
            return False
        if aspect == 'idempotent':
            facts = check_object(sig['cls'], first[2], L)
            print('now     :', facts)
            return facts['idempotent'] is not False
        if aspect == 'kwargs':
            return second is None or (second[0] == 'accept' and deq(first[2].config, second[2].config))
        if aspect == 'omission':
            base, _ = construct_both(sig['cls'], [p for p in pairs if p[0] not in set(sig.get('equiv', []))], L)
            print('now     : without %s -> %s' % (sig.get('equiv'), base[:2]))
            return base[0] == 'accept' and type(base[2]) is type(first[2]) and deq(base[2].config, first[2].config)
        if aspect in ('defaults', 'default', 'missing'):
            od = observed_defaults(pairs, first[2], L) or {}
            text = str(expected)
            if ' = ' in text:                       # replay form:  "opt = token"
                opt, token = text.split(' = ', 1)
            elif text.startswith('default:'):        # trace clause: "default:opt documented token"
                opt, token = text[len('default:'):].split(' documented ', 1)
            else:                                    # "opt present" / "missing:opt"
                opt, token = text.replace('missing:', '').replace(' present', ''), None
            print('now     : %s -> %s' % (opt, od.get(opt, 'absent')))
            return opt in od and (token is None or od[opt] == token)
        return False
    if part == 'answers':
        obs = observe_answers(sig['cls'], sig['ans'], L, [tuple(p) for p in sig.get('ctx', [])])
        if aspect == 'comparer':
            print('now     :', obs['cmp'], obs['cmp_kw'])
            return obs['status'] == 'accept' and isinstance(expected, dict) and obs['cmp'] == expected and obs['cmp_kw'] == expected
    elif part == 'listans':
        obs = observe_listans(sig['cls'], sig.get('la') or sig['ans'], L)
    else:
        case = sig.get('case') or sig
        obs = observe_lg(case, L) if part == 'lgroup' else observe_lnest(case, L) if part == 'lnest' else observe_nested(sig.get('chain') or case['chain'], L, sig.get('tail', 'none')) if part == 'nested' \
            else observe_interval(case, L) if part == 'interval' else observe_square(case, L)
    print('now     :', {k: obs[k] for k in ('status', 'exc', 'status_kw', 'exc_kw', 'canon_ok', 'kwargs_equal', 'idempotent', 'detail')
                       if k in obs})
    statuses = [obs['status'], obs['status_kw']]
    if aspect == 'exception':
        return 'other' not in statuses
    if aspect in ('verdict', 'accepts', 'rejects'):
        return all(x == want for x in statuses)
    if aspect == 'canonical':
        return obs['status'] == 'accept' and obs['canon_ok'] and (not isinstance(expected, list) or obs.get('canon') == expected)
    if aspect == 'idempotent':
        return obs['status'] == 'accept' and obs['idempotent']
    if aspect == 'kwargs':
        return obs['kwargs_equal']
    return False
