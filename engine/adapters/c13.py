"""C13 -- sampled variable sets are complete and dependent values are consistent.

spec level : sampling/DepResolve.tla -- property-level oracle (Required, SampleOK, WellFounded), numbered-variable
             instances, the abstract resolution machine (nondeterministic order) and the pass-loop machine of
             gen_symbols_samples.  MC_DepResolve parts "abs" and "loop" are model-checked over every dependency graph
             on <= 3 (quick) / <= 4 (thorough) symbols: confluence, completeness, consistency, failure iff
             cyclic/dangling, refinement loop => abstract, termination (variant + liveness under weak fairness).
spec->code : parts "cases" (every graph, with the allowed outcome) and "num" (numbered-variable cases) are dumped and
             replayed through gen_symbols_samples(...) directly and through real FormulaGrader calls whose
             user_functions record the values they receive.
code->spec : random configurations (<= 8 variables; chains, diamonds, fans, random DAGs; cyclic / dangling variants;
             constants shadowed or not; numbered variables with negative / multi-digit / non-canonical indices and
             heads colliding with plain names; dependent heads; sibling variables in an ordered ListGrader; several
             samples) are run through the same bindings, recorded as ndjson and validated by DepResolveTrace.

Verdicts: completeness, draws from the declared sets, constants kept, dependent = formula on the same sample,
configuration error for cyclic/dangling configurations.  Drift only: which diagnosis, which names it lists, the
resolution order, names beyond the required ones.
"""
import cmath
import math
import os
import signal

from engine import dump, traces

LIMIT = 5           # CPU seconds per observed call ("instead of looping"); a normal call takes milliseconds
WALL_LIMIT = 600    # wall-clock backstop (the machine may be heavily shared: only CPU time is a fair measure)
MAX_TIMEOUTS = 3    # per worker process: afterwards the worker stops observing (a looping mutant would take hours)
TIMEOUTS = [0]
VEC_ID = 10 ** 6    # id offset of the second-component record of a vector-valued case
NS = 2              # samples per enumerated case (MC_DepResolve cfg files)


class Timeout(BaseException):
    """raised by the alarm; not an Exception, so that the graders' own 'except Exception' cannot swallow it"""


def _alarm(signum, frame):
    raise Timeout()


class Rec(object):
    """author-defined function of fixed arity that records the values it receives"""

    def __init__(self, nin, log, key, ret):
        self.nin, self.log, self.key, self.ret = nin, log, key, ret

    def __call__(self, *args):
        self.log.append((self.key, args))
        return self.ret(args)


# ---------------------------------------------------------------- values
# default constants are not integers: they travel as integer codes far outside every value a formula can reach
# (TLC only compares them); to_int refuses observed values >= 2**28 so that a code can never be a legitimate value
DEFAULT_CONSTS = {'pi': (math.pi, 500000314), 'e': (math.e, 500000271), 'i': (1j, 500001001), 'j': (1j, 500001002)}


# every default constant of every math grader class (infty: SumGrader, IntegralGrader, FormulaGrader with allow_inf)
CONST_CODES = dict(DEFAULT_CONSTS, infty=(float('inf'), 500009999))


def same(a, b, tol=1e-9):
    """numeric equality of two observed values (scalars or arrays; inf equals inf)"""
    try:
        import numpy as np
        x, y = np.asarray(a, dtype=complex), np.asarray(b, dtype=complex)
        with np.errstate(invalid='ignore'):
            return x.shape == y.shape and bool(np.all((x == y) | (np.abs(x - y) <= tol)))
    except Exception:
        return False


def to_int(v, comp=0):
    """observed value -> (int, ok); of a 2-vector the component comp is taken"""
    if getattr(v, 'shape', None) == (2,):
        v = v[comp]
    try:
        z = complex(v)
    except Exception:  # arrays, strings ...
        return 0, False
    if abs(z.imag) > 1e-9 or cmath.isnan(z) or cmath.isinf(z):
        return 0, False
    r = round(z.real)
    if abs(z.real - r) > 1e-9 * max(1.0, abs(r)) or abs(r) >= 2 ** 28:
        return 0, False
    return int(r), True


def encode_value(name, v, codes, comp=0):
    """codes: name -> (concrete value, integer code) for constants whose value is not a small integer"""
    if name in codes:
        conc, code = codes[name]
        if same(v, conc, 1e-12):
            return code, True
        # a shadowing variable holds an ordinary integer
    return to_int(v, comp)


def encode_samples(samples, codes, comp=0):
    out, bad = [], ''
    for s in samples:
        row = []
        for n in sorted(s):
            iv, ok = encode_value(n, s[n], codes, comp)
            if not ok:
                bad = bad or 'value-not-an-integer:%s' % n
            row.append({'n': n, 'v': iv})
        out.append(row)
    return out, bad


def parse_config_error(msg):
    u = 'DependentSamplers depend on undefined quantities: '
    c = 'Circularly dependent DependentSamplers detected: '
    if msg.startswith(u):
        return 'undefined', [x.strip() for x in msg[len(u):].split(',')]
    if msg.startswith(c):
        return 'circular', [x.strip() for x in msg[len(c):].split(',')]
    return 'other', []


# ---------------------------------------------------------------- formulas
def make_sampler_table(cfg, style, log):
    """cfg entries (vars + heads) -> {name: sampling set}, {function name: recorder}"""
    from engine.fixtures import ScriptedSampler
    from mitxgraders import DependentSampler
    table, funcs = {}, {}
    vec = cfg.get('vec')                   # second component: every value is a 2-vector, formulas [1, 1] + sum
    entries = [(v['n'], v) for v in cfg['vars']] + [(h['h'], h) for h in cfg.get('heads', [])]
    for idx, (name, e) in enumerate(entries):
        if name in table:
            continue                       # a head that is also a plain variable: one sample_from entry
        if e['k'] == 'ind':
            if vec:
                from mitxgraders import MathArray
                table[name] = ScriptedSampler(script=[MathArray([a, b]) for a, b in zip(e['draws'], vec['draws'][name])])
            else:
                table[name] = ScriptedSampler(script=list(e['draws']))
            continue
        deps = sorted(e['deps'])
        if vec:
            formula = ' + '.join(['[1, 1]'] + deps) if idx % 2 else ' + '.join(deps + ['[1, 1]'])
        elif style == 'tap':
            fname = 'tp' + 'abcdefghijklmnopqrstuvwxyz'[idx % 26] + str(idx // 26 if idx >= 26 else '')
            args = deps if deps else ['0']
            funcs[fname] = Rec(len(args), log, ('tap', name, tuple(deps)), lambda a: 1 + sum(a))
            formula = '%s(%s)' % (fname, ', '.join(args))
        else:
            v = idx % 3
            if not deps:
                formula = ['1', '2 - 1', '(1)'][v]
            elif v == 0:
                formula = '1 + ' + ' + '.join(deps)
            elif v == 1:
                formula = ' + '.join(deps) + ' + 1'
            else:
                formula = '(' + '+'.join(deps) + ')+1'
        table[name] = DependentSampler(formula=formula)
    return table, funcs


def split_orders(log, cfg, samples):
    """tap log -> resolution order per sample, and a check that every formula saw the values of its own sample"""
    taps = [(k[1], k[2], a) for k, a in log if k[0] == 'tap']
    ns = len(samples)
    if any(h['k'] == 'dep' for h in cfg.get('heads', [])):
        return None, ''                    # instances share the head's formula: the log cannot tell them apart
    if ns == 0 or len(taps) % ns:
        return None, ''
    per = len(taps) // ns
    orders, bad = [], ''
    for j in range(ns):
        chunk = taps[j * per:(j + 1) * per]
        orders.append([c[0] for c in chunk])
        for name, deps, args in chunk:
            if deps and any(not same(a, samples[j].get(d, float('nan'))) for d, a in zip(deps, args)):
                bad = 'formula-saw-values-of-another-sample:%s' % name
    return orders, bad


# ---------------------------------------------------------------- bindings
def base_obs():
    return {'res': 'ok', 'diag': 'none', 'names': [], 'samples': [], 'samples1': [], 'orders': [], 'has_order': False,
            'bad': ''}


def constants_of(cfg, names=None):
    """constant dictionary (2-vectors in vector mode)"""
    vec = cfg.get('vec')
    out = {}
    for q in cfg['consts']:
        if names is not None and q['n'] not in names:
            continue
        if vec:
            from mitxgraders import MathArray
            out[q['n']] = MathArray([q['v'], vec['consts'][q['n']]])
        else:
            out[q['n']] = q['v']
    return out


def set_samples(obs, cfg, samples, codes):
    obs['samples'], obs['bad'] = encode_samples(samples, codes, 0)
    if cfg.get('vec'):
        obs['samples1'], bad = encode_samples(samples, codes, 1)
        obs['bad'] = obs['bad'] or bad


def guarded(fn):
    """run fn() under an alarm; returns (value, exception)"""
    signal.signal(signal.SIGVTALRM, _alarm)
    signal.signal(signal.SIGALRM, _alarm)
    signal.setitimer(signal.ITIMER_VIRTUAL, LIMIT)
    signal.alarm(WALL_LIMIT)
    try:
        return fn(), None
    except BaseException as e:  # noqa -- classified by the caller
        if isinstance(e, (KeyboardInterrupt, SystemExit)):
            raise
        return None, e
    finally:
        signal.setitimer(signal.ITIMER_VIRTUAL, 0)
        signal.alarm(0)


def classify_exception(obs, e):
    from mitxgraders.exceptions import ConfigError
    if isinstance(e, Timeout):
        TIMEOUTS[0] += 1
        obs['res'], obs['bad'] = 'other', 'timeout'
    elif isinstance(e, ConfigError):
        obs['res'] = 'config_error'
        obs['diag'], obs['names'] = parse_config_error(str(e))
    else:
        obs['res'], obs['bad'] = 'other', 'raised:%s' % type(e).__name__
    return obs


def after_sampling(e):
    """an exception raised once the samples exist (the wrapper records them only when sampling has returned) concerns
    the evaluation of the expressions, not the sample: the captured samples are judged, the exception is not"""
    return isinstance(e, Exception)          # Timeout is a BaseException: looping is never excused


def observe_direct(cfg, style):
    """gen_symbols_samples(...) called directly"""
    from mitxgraders.sampling import gen_symbols_samples
    obs = base_obs()
    log = []
    try:
        table, funcs = make_sampler_table(cfg, style, log)
    except Exception as e:  # noqa
        return classify_exception(obs, e)
    constants = constants_of(cfg)
    symbols = [v['n'] for v in cfg['vars']]
    samples, e = guarded(lambda: gen_symbols_samples(symbols, cfg['ns'], table, funcs, {}, constants))
    if e is not None:
        return classify_exception(obs, e)
    if not isinstance(samples, list) or not all(isinstance(s, dict) for s in samples):
        obs['res'], obs['bad'] = 'other', 'result-is-not-a-list-of-dicts'
        return obs
    set_samples(obs, cfg, samples, {})
    if style == 'tap':
        orders, bad = split_orders(log, cfg, samples)
        if orders is not None:
            obs['orders'], obs['has_order'] = orders, True
        obs['bad'] = obs['bad'] or bad
    return obs


def grader_config(cfg, style, log):
    """cfg -> keyword arguments of a FormulaGrader that uses every name of the configuration"""
    table, funcs = make_sampler_table(cfg, style, log)
    user_consts = constants_of(cfg, [q['n'] for q in cfg['consts'] if q['n'] not in DEFAULT_CONSTS])
    names = [v['n'] for v in cfg['vars']] + sorted(user_consts)
    removed = set()
    for u in cfg.get('uops', []):             # default constants overridden ("set") or removed (None) by the author
        user_consts[u['n']] = u['v'] if u['op'] == 'set' else None
        if u['op'] == 'remove':
            removed.add(u['n'])
    names += [n for n in sorted(DEFAULT_CONSTS) if n not in names and n not in removed]
    occ = [o['key'] for o in cfg.get('occ', [])]
    in_answer = [o for x, o in enumerate(occ) if x % 2 == 0]
    in_student = [o for x, o in enumerate(occ) if x % 2 == 1]
    a_args = names + in_answer
    s_args = (in_student + names)[:max(1, len(in_student) + 1)]
    funcs['probe'] = Rec(len(a_args), log, ('probe', tuple(a_args)), lambda a: 1.0)
    funcs['sprobe'] = Rec(len(s_args), log, ('sprobe', tuple(s_args)), lambda a: 1.0)
    kw = dict(answers='probe(%s)' % ', '.join(a_args),
              variables=[v['n'] for v in cfg['vars']],
              numbered_vars=[h['h'] for h in cfg.get('heads', [])],
              sample_from=table, user_constants=user_consts, user_functions=funcs, samples=cfg['ns'],
              suppress_warnings=True)
    return kw, 'sprobe(%s)' % ', '.join(s_args)


def check_probes(log, samples):
    """the values the author-defined functions received during grading are those of the sample"""
    for tag in ('probe', 'sprobe'):
        calls = [(k[1], a) for k, a in log if k[0] == tag]
        if len(calls) != len(samples):
            continue
        for j, (names, args) in enumerate(calls):
            for n, a in zip(names, args):
                if n not in samples[j]:
                    return 'grading-used-a-value-missing-from-the-sample:%s' % n
                if not same(a, samples[j][n]):
                    return 'grading-used-another-value:%s' % n
    return ''


def samples_from_probe(log, ns):
    calls = [(k[1], a) for k, a in log if k[0] == 'probe']
    if len(calls) != ns:
        return None
    return [dict(zip(names, args)) for names, args in calls]


def observe_grader(cfg, style):
    """a real FormulaGrader call; the samples are seen by recording user functions (and by a wrapper around the
    grader instance's gen_var_and_func_samples, which also works when grading stops at an undefined name)"""
    from mitxgraders import FormulaGrader
    obs = base_obs()
    log, captured = [], []
    try:
        construct_predecessor(cfg.get('pred'))
        kw, student = grader_config(cfg, style, log)
        grader = FormulaGrader(**kw)
    except Exception as e:  # noqa
        return classify_exception(obs, e)
    orig = getattr(grader, 'gen_var_and_func_samples', None)
    if callable(orig):
        def wrapped(*a, **k):
            r = orig(*a, **k)
            captured.append(r[0])
            return r
        grader.gen_var_and_func_samples = wrapped
    _, e = guarded(lambda: grader(None, student))
    samples = captured[0] if captured else None
    if e is not None and not (samples is not None and after_sampling(e)):
        return classify_exception(obs, e)
    if samples is None:
        samples = samples_from_probe(log, cfg['ns'])
        if samples is None:
            obs['res'], obs['bad'] = 'other', 'no-sample-observable'
            return obs
    codes = CONST_CODES
    set_samples(obs, cfg, samples, codes)
    obs['bad'] = obs['bad'] or check_probes(log, samples)
    if style == 'tap':
        orders, bad = split_orders(log, cfg, samples)
        if orders is not None:
            obs['orders'], obs['has_order'] = orders, True
        obs['bad'] = obs['bad'] or bad
    return obs


def observe_list(cfg, style):
    """ordered ListGrader with two FormulaGrader boxes: the variable cfg['sibling'] is realised as sibling_1, i.e.
    its formula is the student's first input"""
    from mitxgraders import FormulaGrader, ListGrader
    obs = base_obs()
    log, captured = [], []
    sib = [v for v in cfg['vars'] if v['n'] == 'sibling_1'][0]
    inner = dict(cfg)
    inner['vars'] = [v for v in cfg['vars'] if v['n'] != 'sibling_1']
    try:
        construct_predecessor(cfg.get('pred'))
        kw, student = grader_config(inner, style, log)
        # the second box's answer uses sibling_1 as well
        args = kw['answers'][len('probe('):-1]
        kw['user_functions']['probe'] = Rec(kw['user_functions']['probe'].nin + 1, log,
                                            ('probe', kw['user_functions']['probe'].key[1] + ('sibling_1',)),
                                            lambda a: 1.0)
        answer2 = 'probe(%s, sibling_1)' % args
        del kw['answers']
        box1 = ' + '.join(sorted(sib['deps']) + ['1'])
        sub1 = FormulaGrader(**kw)
        sub2 = FormulaGrader(**kw)
        grader = ListGrader(answers=[box1, answer2], subgraders=[sub1, sub2], ordered=True)
    except Exception as e:  # noqa
        return classify_exception(obs, e)
    orig = getattr(sub2, 'gen_var_and_func_samples', None)
    if callable(orig):
        def wrapped(*a, **k):
            r = orig(*a, **k)
            captured.append(r[0])
            return r
        sub2.gen_var_and_func_samples = wrapped
    _, e = guarded(lambda: grader(None, [box1, student]))
    samples = captured[0] if captured else None
    if e is not None and not (samples is not None and after_sampling(e)):
        return classify_exception(obs, e)
    if samples is None:
        obs['res'], obs['bad'] = 'other', 'no-sample-observable'
        return obs
    codes = CONST_CODES
    obs['samples'], obs['bad'] = encode_samples(samples, codes)
    return obs


# ---------------------------------------------------------------- construction histories
USER_OPS = {          # mirror of MC_DepResolve!UserOps
    'none': [], 'add': [('kappa', 'set', 7)], 'ovr_pi': [('pi', 'set', 3)], 'rm_pi': [('pi', 'remove', 0)],
    'mixed': [('e', 'set', 2), ('j', 'remove', 0), ('kappa', 'set', 7)], 'rm_infty': [('infty', 'remove', 0)],
    'ovr_infty': [('infty', 'set', 1000), ('i', 'set', 5)],
    'rm_all': [(n, 'remove', 0) for n in ('pi', 'e', 'i', 'j', 'infty')],
}


def build_grader(cls, op, answer, ns, funcs=None, metric=False):
    """one math grader of class cls whose user_constants are the operations op; returns (grader, call)"""
    import mitxgraders as mg
    uc = {n: (v if o == 'set' else None) for n, o, v in USER_OPS[op]}
    common = dict(user_constants=uc, suppress_warnings=True, user_functions=dict(funcs or {}), metric_suffixes=metric)
    if cls in ('FG', 'FGinf'):
        g = mg.FormulaGrader(answers=answer, samples=ns, allow_inf=(cls == 'FGinf'), **common)
    elif cls == 'NG':
        g = mg.NumericalGrader(answers=answer, **common)
    elif cls == 'MG':
        g = mg.MatrixGrader(answers=answer, samples=ns, **common)
    elif cls == 'SG':
        g = mg.SumGrader(answers={'lower': '1', 'upper': '3', 'summand': answer, 'summation_variable': 'n'},
                         samples=ns, **common)
        return g, (lambda: g(None, ['1', '3', answer, 'n']))
    elif cls == 'IG':                              # scipy is absent: constructed, never called
        g = mg.IntegralGrader(answers={'lower': '0', 'upper': '1', 'integrand': answer, 'integration_variable': 'x'},
                              **common)
        return g, (lambda: None)
    else:
        raise ValueError(cls)
    return g, (lambda: g(None, answer))


def construct_predecessor(pred):
    """an earlier grader of the same process: constructed with its own constant edits, called once"""
    if not pred or pred['cls'] == 'none':
        return
    _, call = build_grader(pred['cls'], pred['op'], '1', 2, metric=(pred['op'] == 'add'))
    try:
        call()
    except Exception:  # noqa -- only the LAST grader is under observation
        pass


def observe_history(c, expected_names):
    """construct the predecessors, then the last grader; its samples are observed as in observe_grader"""
    obs = base_obs()
    log, captured = [], []
    ns = 1 if c['cl'] == 'NG' else NS
    try:
        construct_predecessor(c['p2'])
        construct_predecessor(c['p1'])
        names = [n for n in sorted(expected_names) if n != 'infty']
        funcs = {'probe': Rec(len(names), log, ('probe', tuple(names)), lambda a: 1.0)} if names else {}
        answer = 'probe(%s)' % ', '.join(names) if names else '1'
        grader, call = build_grader(c['cl'], c['ol'], answer, ns, funcs)
    except Exception as e:  # noqa
        return classify_exception(obs, e)
    orig = getattr(grader, 'gen_var_and_func_samples', None)
    if callable(orig):
        def wrapped(*a, **k):
            r = orig(*a, **k)
            captured.append(r[0])
            return r
        grader.gen_var_and_func_samples = wrapped
    _, e = guarded(call)
    samples = captured[0] if captured else None
    if e is not None and not (samples is not None and after_sampling(e)):
        return classify_exception(obs, e)
    if samples is None:
        samples = samples_from_probe(log, ns)
        if samples is None:
            obs['res'], obs['bad'] = 'other', 'no-sample-observable'
            return obs
    obs['samples'], obs['bad'] = encode_samples(samples, CONST_CODES)
    obs['bad'] = obs['bad'] or check_probes(log, samples)
    return obs


def hist_summary(c):
    def one(k, o):
        return '%s(user_constants=%s)' % (k, {n: (v if op == 'set' else None) for n, op, v in USER_OPS[o]})
    parts = [one(p['cls'], p['op']) for p in (c['p2'], c['p1']) if p['cls'] != 'none']
    return ' ; then '.join(parts + [one(c['cl'], c['ol'])])


def replay_hist(states, extra):
    from engine import repo
    repo.activate()
    n = 0
    keys, bad = set(), []
    sample = None
    for st in states:
        c = st['c']
        if c['kind'] != 'hist':
            continue
        if TIMEOUTS[0] >= MAX_TIMEOUTS:
            break
        out = st['out']
        expected = set()
        for a in out['alts']:
            for row in a.get('samples', []):
                expected |= set(row)
        obs = observe_history(c, expected)
        n += 1
        clause, alt = compare(out['alts'], obs, {}, {})
        keys.add(('hist', c['cl'], c['ol'], 'ok', c['p1']['cls'], 1 + (c['p1']['cls'] != 'none') + (c['p2']['cls'] != 'none')))
        if sample is None and c['p1']['cls'] != 'none' and c['ol'] == 'mixed':
            sample = {'history': hist_summary(c), 'allowed': out['alts'], 'observed': obs['samples']}
        if clause:
            cfg = {'vars': [], 'heads': [], 'occ': [], 'consts': [], 'ns': NS, 'history': c}
            if len(bad) < 40:
                bad.append({'case': c, 'binding': 'history', 'scheme': 'hist', 'style': 'plain', 'cfg': cfg,
                            'allowed': out['alts'], 'obs': obs, 'clause': clause})
            else:
                bad.append(None)
    return {'n': n, 'keys': sorted(keys), 'bad': bad, 'drift': [], 'sample': sample}


OBSERVERS = {'direct': observe_direct, 'grader': observe_grader, 'list': observe_list}


def observe(cfg, binding, style):
    return OBSERVERS[binding](cfg, style)


# ---------------------------------------------------------------- spec -> code: graph cases
SYMS = ['s1', 's2', 's3', 's4']
SCALE = [1, 10, 100, 1000]
SCHEMES = {
    # direct binding: any strings are names; constants k = 7, s1 = 91, s3 = 93 as in MC_DepResolve
    ('direct', 0): {'s1': 'x', 's2': 'y', 's3': 'z', 's4': 'w', 'k': 'k', 'u': 'u'},
    ('direct', 1): {'s1': 'a_{1}', 's2': 'a_{-12}', 's3': 'a', 's4': 'a_{305}', 'k': 'a_{0}', 'u': 'a_{7}'},
    ('direct', 2): {'s1': 'e', 's2': 'pi', 's3': 'j', 's4': 'i', 'k': 'kappa', 'u': 'undef'},
    # grader binding: the shadowed constants are default constants (e, j / pi, i), k a user constant
    ('grader', 0): {'s1': 'e', 's2': 'y', 's3': 'j', 's4': 'w', 'k': 'kappa', 'u': 'undef'},
    ('grader', 1): {'s1': 'pi', 's2': 'a_{-12}', 's3': 'i', 's4': 'a', 'k': 'k', 'u': 'b_{3}'},
}


def graph_cfg(c, binding, scheme, ns):
    m = SCHEMES[(binding, scheme)]
    ks = [c['k1'], c['k2'], c['k3'], c['k4']]
    ds = [c['d%d' % (i + 1)] + ([c['xv']] if c['xs'] == i + 1 else []) for i in range(4)]
    cfg = {'vars': [], 'heads': [], 'occ': [], 'ns': ns}
    for i in range(c['n']):
        cfg['vars'].append({'n': m[SYMS[i]], 'k': ks[i], 'deps': sorted(m[d] for d in ds[i]),
                            'draws': [SCALE[i] * (j + 1) for j in range(ns)] if ks[i] == 'ind' else []})
    if binding == 'direct':
        cfg['consts'] = [{'n': m['k'], 'v': 7}, {'n': m['s1'], 'v': 91}, {'n': m['s3'], 'v': 93}]
        codes = {}
    else:
        cfg['consts'] = [{'n': m['k'], 'v': 7}]
        codes = {m['s1']: 91, m['s3']: 93}         # abstract value of the default constant standing for s1 / s3
        if scheme == 1:
            cfg['heads'] = [{'h': 'a', 'k': 'ind', 'deps': [], 'draws': [4]}]
            for v in cfg['vars']:
                if v['n'] == 'a':                  # a plain variable that is a numbered head as well: one entry
                    cfg['heads'] = [{'h': 'a', 'k': v['k'], 'deps': v['deps'], 'draws': v['draws']}]
    return cfg, m, codes


def obs_value_abstract(name, v, codes):
    """value observed in the grader binding for the default constant standing for s1 / s3 -> abstract value"""
    if name in codes and name in DEFAULT_CONSTS and v == DEFAULT_CONSTS[name][1]:
        return codes[name]
    return v


def compare(alts, obs, m, codes):
    """(verdict clause or '', matching alternative).  alts: the outcomes the spec allows (abstract names)."""
    if obs['bad'] and obs['res'] == 'other':
        return obs['bad'], None
    clause = ''
    for alt in alts:
        if alt['res'] == 'error':
            if obs['res'] == 'config_error':
                return '', alt
            clause = clause or ('value-for-unresolvable-configuration' if obs['res'] == 'ok' else 'wrong-exception')
            continue
        if obs['res'] != 'ok':
            clause = clause or ('config-error-for-resolvable-configuration' if obs['res'] == 'config_error'
                                else 'wrong-exception')
            continue
        if len(obs['samples']) != len(alt['samples']):
            clause = clause or 'wrong-number-of-samples'
            continue
        why = ''
        for want, got in zip(alt['samples'], obs['samples']):
            got = {p['n']: obs_value_abstract(p['n'], p['v'], codes) for p in got}
            for an, av in (want.items() if isinstance(want, dict) else ()):   # (the empty function prints as << >>)
                cn = m.get(an, an)
                if cn not in got:
                    why = why or 'incomplete-sample'
                elif got[cn] != av:
                    why = why or 'wrong-value'
        if not why:
            return (obs['bad'], None) if obs['bad'] else ('', alt)
        clause = clause or why
    return clause, None


def drift_of(out, alt, obs, m):
    if alt['res'] == 'error':
        if obs['diag'] != out['diag'] or sorted(obs['names']) != sorted(m.get(x, x) for x in out['names']):
            return 'diagnosis: model %s %s, code %s %s' % (out['diag'], sorted(out['names']), obs['diag'], obs['names'])
        return ''
    if obs['has_order']:
        want = [m.get(x, x) for x in out['order']]
        for o in obs['orders']:
            if o != want:
                return 'resolution order: pass-loop model %s, code %s' % (want, o)
    return ''


def replay_states(states, extra):
    from engine import repo
    repo.activate()
    ns = extra['ns']
    n = 0
    keys, bad, drift = set(), [], []
    sample = None
    for st in states:
        c = st['c']
        if c['kind'] != 'case':
            continue
        if TIMEOUTS[0] >= MAX_TIMEOUTS:
            break
        out = st['out']
        runs = [('direct', 0, 'tap'), ('direct', 1, 'plain'), ('direct', 2, 'tap'), ('grader', 0, 'plain'),
                ('grader', 1, 'tap')]
        for binding, scheme, style in runs:
            cfg, m, codes = graph_cfg(c, binding, scheme, ns)
            obs = observe(cfg, binding, style)
            n += 1
            clause, alt = compare(out['alts'], obs, m, codes)
            ndep = sum(1 for v in cfg['vars'] if v['k'] == 'dep')
            keys.add((binding, c['n'], ndep, out['alts'][0]['res'], out['diag'], out['passes']))
            if sample is None and ndep >= 2:
                sample = {'case': c, 'binding': binding, 'config': cfg_summary(cfg), 'allowed': out['alts'],
                          'observed': {k: obs[k] for k in ('res', 'diag', 'samples', 'orders')}}
            if clause:
                if len(bad) < 40:
                    bad.append({'case': c, 'binding': binding, 'scheme': scheme, 'style': style, 'cfg': cfg,
                                'allowed': out['alts'], 'obs': obs, 'clause': clause})
                else:
                    bad.append(None)
            else:
                d = drift_of(out, alt, obs, m)
                if d and len(drift) < 5:
                    drift.append('%s %s: %s' % (binding, cfg_summary(cfg), d))
    return {'n': n, 'keys': sorted(keys), 'bad': bad, 'drift': drift, 'sample': sample}


# ---------------------------------------------------------------- spec -> code: numbered-variable cases
def idx_text(i):
    return ''.join(i)


def num_cfg(c, ns):
    heads = {'none': [], 'a': ['a'], 'ab': ['ab'], 'both': ['a', 'ab']}[c['heads']]
    draw = {'a': [5], 'ab': [8]}
    key = '%s_{%s}' % (c['oh'], idx_text(c['oi']))
    cfg = {'vars': [], 'heads': [{'h': h, 'k': 'ind', 'deps': [], 'draws': draw[h]} for h in heads],
           'occ': [{'key': key, 'h': c['oh'], 'i': list(c['oi'])}], 'consts': [{'n': 'k', 'v': 7}], 'ns': ns}
    if c['pa']:
        cfg['vars'].append({'n': 'a', 'k': 'ind', 'deps': [], 'draws': [5]})
    if c['sp']:
        cfg['vars'].append({'n': 'a_{1}', 'k': 'ind', 'deps': [], 'draws': [6]})
    if c['dep']:
        cfg['vars'].append({'n': 'd', 'k': 'dep', 'deps': [key], 'draws': []})
    m = {'a_1': 'a_{1}', '%s_%s' % (c['oh'], idx_text(c['oi']).replace('-', 'm')): key}
    return cfg, m


def replay_num(states, extra):
    from engine import repo
    repo.activate()
    ns = extra['ns']
    n = 0
    keys, bad, drift = set(), [], []
    sample = None
    for st in states:
        c = st['c']
        if c['kind'] != 'num':
            continue
        if TIMEOUTS[0] >= MAX_TIMEOUTS:
            break
        out = st['out']
        cfg, m = num_cfg(c, ns)
        for style in ('plain', 'tap'):
            obs = observe(cfg, 'grader', style)
            n += 1
            clause, alt = compare(out['alts'], obs, m, {})
            keys.add(('num', out['inst'], c['dep'], c['pa'], c['sp'], tuple(sorted(a['res'] for a in out['alts']))))
            if sample is None and out['inst'] == 'instance' and c['dep']:
                sample = {'case': c, 'config': cfg_summary(cfg), 'allowed': out['alts'],
                          'observed': {k: obs[k] for k in ('res', 'diag', 'samples')}}
            if clause:
                if len(bad) < 40:
                    bad.append({'case': c, 'binding': 'grader', 'scheme': 'num', 'style': style, 'cfg': cfg,
                                'allowed': out['alts'], 'obs': obs, 'clause': clause})
                else:
                    bad.append(None)
            else:
                d = drift_of(out, alt, obs, m) if style == 'plain' or alt['res'] == 'error' else ''
                present = any(p['n'] == cfg['occ'][0]['key'] for row in obs['samples'] for p in row)
                if present and out['inst'] == 'no':
                    d = d or 'name %s sampled although it is no numbered-variable instance' % cfg['occ'][0]['key']
                if d and len(drift) < 5:
                    drift.append('grader %s: %s' % (cfg_summary(cfg), d))
    return {'n': n, 'keys': sorted(keys), 'bad': bad, 'drift': drift, 'sample': sample}


def cfg_summary(cfg):
    if cfg.get('history'):
        return hist_summary(cfg['history'])
    parts = []
    for v in cfg['vars']:
        parts.append(v['n'] + ('=draw' if v['k'] == 'ind' else '=1+' + '+'.join(v['deps']) if v['deps'] else '=1'))
    s = '; '.join(parts)
    if cfg.get('heads'):
        s += ' | numbered: ' + ','.join(h['h'] for h in cfg['heads'])
    if cfg.get('occ'):
        s += ' | in expressions: ' + ','.join(o['key'] for o in cfg['occ'])
    if cfg.get('vec'):
        s += ' | 2-vectors'
    if cfg.get('uops'):
        s += ' | user_constants: ' + ', '.join('%s=%s' % (u['n'], u['v'] if u['op'] == 'set' else None) for u in cfg['uops'])
    if cfg.get('pred'):
        s += ' | constructed before: %s %s' % (cfg['pred']['cls'], cfg['pred']['op'])
    return s


# ---------------------------------------------------------------- code -> spec: random configurations
PLAIN_NAMES = ['x', 'y', 'z', 'w', 'T', 'm1', 'rho', 'q', 'vel', 'B', 'n', 'cat', 'a', 'b', 'ab', 'e', 'pi', 'i', 'j',
               "x'", 'x_0', 'v_x', 'psi', 'X']
INDEX_POOL = ['0', '1', '2', '7', '10', '12', '305', '-1', '-2', '-12', '-305', '99', '-40']
NONCANON_POOL = ['05', '-0', '00', '007', '-01', '010']
HEAD_POOL = ['a', 'ab', 'c', 'x1', 'Cat', 'phi']


def rand_graph(rng, names, shape):
    """dependency sets for the dependents among names (a DAG w.r.t. the order of names)"""
    n = len(names)
    deps = {}
    if shape == 'chain':
        for t in range(1, n):
            deps[names[t]] = [names[t - 1]]
    elif shape == 'diamond':
        for t in range(1, n):
            lo = max(0, t - 2)
            deps[names[t]] = list({names[lo], names[t - 1]})
    elif shape == 'fanin':
        if n > 1:
            deps[names[-1]] = names[:-1]
    elif shape == 'fanout':
        for t in range(1, n):
            deps[names[t]] = [names[0]]
    else:
        for t in range(n):
            if rng.random() < 0.6:
                k = rng.randint(0, min(t, 3))
                deps[names[t]] = rng.sample(names[:t], k)
    return deps


def rand_case(rng, rid, big):
    binding = rng.choice(['direct', 'direct', 'grader', 'grader', 'grader', 'list'])
    style = rng.choice(['plain', 'tap'])
    n = rng.randint(1, 8 if big else 6)
    pool = list(PLAIN_NAMES)
    if binding == 'direct':
        pool += ['a_{1}', 'a_{-12}', 'b_{305}', 'ab_{0}']
    names = rng.sample(pool, n)
    heads, occ = [], []
    shape = rng.choice(['chain', 'diamond', 'fanin', 'fanout', 'dag', 'dag', 'dag'])
    deps = rand_graph(rng, names, shape)
    user_consts = {}
    for cn in rng.sample(['kappa', 'g0', 'c2', 'K'], rng.randint(0, 2)):
        if cn not in names:
            user_consts[cn] = rng.randint(-9, 9)
    variant = rng.choice(['ok', 'ok', 'ok', 'ok', 'ok', 'cyclic', 'dangling', 'both'])
    # numbered variables (grader level only)
    specific = []
    if binding == 'grader' and rng.random() < 0.6:
        for h in rng.sample(HEAD_POOL, rng.randint(1, 2)):
            if h in names and h in deps and rng.random() < 0.5:
                continue
            heads.append(h)
        for h in heads:
            for ix in rng.sample(INDEX_POOL, rng.randint(0, 3)):
                occ.append((h, ix))
            if rng.random() < 0.3:
                occ.append((h, rng.choice(NONCANON_POOL)))
        if heads and rng.random() < 0.4:          # a specific variable that looks like an instance
            h = rng.choice(heads)
            specific.append('%s_{%s}' % (h, rng.choice(INDEX_POOL)))
        if rng.random() < 0.3:                    # looks numbered, but the head is not a numbered variable
            occ.append((rng.choice(['q', 'A', 'abc']), rng.choice(INDEX_POOL)))
        for s in specific:
            if s not in names:
                names.append(s)
                if rng.random() < 0.5 and len(names) > 1:
                    deps[s] = rng.sample([x for x in names if x != s], 1)
                if rng.random() < 0.7:
                    hh, ix = s[:-1].split('_{')
                    if (hh, ix) not in occ:
                        occ.append((hh, ix))
    occ = list(dict.fromkeys(occ))
    occ_keys = ['%s_{%s}' % o for o in occ]
    inst_like = [k for (h, ix), k in zip(occ, occ_keys) if h in heads and ix in INDEX_POOL and k not in names]
    # dependence on constants and on numbered instances
    for s in list(deps):
        if user_consts and rng.random() < 0.3:
            deps[s] = deps[s] + [rng.choice(sorted(user_consts))]
        if inst_like and rng.random() < 0.3:
            deps[s] = deps[s] + [rng.choice(inst_like)]
    dependents = sorted(deps)
    if variant in ('cyclic', 'both') and dependents:
        a = rng.choice(dependents)
        r = rng.random()
        if r < 0.3:
            deps[a] = deps[a] + [a]
        else:
            later = [x for x in dependents if names.index(x) >= names.index(a)]
            b = rng.choice(later)
            deps[a] = deps[a] + [b]
            if b != a and a not in deps[b]:
                deps[b] = deps[b] + [a]
    if variant in ('dangling', 'both') and dependents:
        a = rng.choice(dependents)
        deps[a] = deps[a] + [rng.choice(['undef', 'zz', 'q_{4}', 'sibling_3'])]
    ns = rng.randint(1, 4)
    order = list(names)
    rng.shuffle(order)                            # declaration order is independent of the dependency order
    cfg = {'vars': [], 'heads': [], 'occ': [], 'consts': [], 'ns': ns}
    for s in order:
        if s in deps:
            cfg['vars'].append({'n': s, 'k': 'dep', 'deps': sorted(set(deps[s])), 'draws': []})
        else:
            cfg['vars'].append({'n': s, 'k': 'ind', 'deps': [],
                                'draws': [rng.randint(-50, 50) for _ in range(rng.randint(1, 3))]})
    byname = {v['n']: v for v in cfg['vars']}
    for h in heads:
        if h in byname:
            e = byname[h]
            cfg['heads'].append({'h': h, 'k': e['k'], 'deps': e['deps'], 'draws': e['draws']})
        elif rng.random() < 0.2 and order:           # a numbered variable whose sampling set is a DependentSampler
            cfg['heads'].append({'h': h, 'k': 'dep', 'deps': sorted(rng.sample(order, 1)), 'draws': []})
        else:
            cfg['heads'].append({'h': h, 'k': 'ind', 'deps': [],
                                 'draws': [rng.randint(-50, 50) for _ in range(rng.randint(1, 4))]})
    cfg['occ'] = [{'key': k, 'h': h, 'i': list(ix)} for (h, ix), k in zip(occ, occ_keys)]
    cfg['consts'] = [{'n': cn, 'v': v} for cn, v in sorted(user_consts.items())]
    if binding == 'direct':
        for s in rng.sample(order, min(len(order), rng.randint(0, 2))):
            cfg['consts'].append({'n': s, 'v': 77})                 # shadowed constants
    else:
        cfg['consts'] += [{'n': cn, 'v': DEFAULT_CONSTS[cn][1]} for cn in sorted(DEFAULT_CONSTS)]
    if binding == 'list':
        cands = [v for v in cfg['vars'] if v['k'] == 'dep' and v['n'] not in [h['h'] for h in cfg['heads']]
                 and all(d in byname or d in user_consts for d in v['deps']) and v['deps']
                 and not any(v['n'] == '%s_{%s}' % o for o in occ)]
        if not cands:
            binding = 'grader'
        else:
            old = rng.choice(cands)['n']
            for v in cfg['vars']:
                if v['n'] == old:
                    v['n'] = 'sibling_1'
                v['deps'] = sorted(set('sibling_1' if d == old else d for d in v['deps']))
            for h in cfg['heads']:
                h['deps'] = sorted(set('sibling_1' if d == old else d for d in h['deps']))
            # sibling_1 is appended by the grader after the declared variables
            cfg['vars'] = [v for v in cfg['vars'] if v['n'] != 'sibling_1'] + \
                          [v for v in cfg['vars'] if v['n'] == 'sibling_1']
    if binding != 'direct':
        # the author overrides (suppress_warnings) or removes (None) default constants; other graders came first
        free = [n_ for n_ in sorted(DEFAULT_CONSTS) if n_ not in byname]
        if free and rng.random() < 0.4:
            cfg['uops'] = [{'n': n_, 'op': 'set', 'v': rng.randint(-9, 9)} if rng.random() < 0.6
                           else {'n': n_, 'op': 'remove', 'v': 0} for n_ in rng.sample(free, rng.randint(1, min(2, len(free))))]
        if rng.random() < 0.3:
            cfg['pred'] = {'cls': rng.choice(['FG', 'FGinf', 'NG', 'MG', 'SG', 'IG']), 'op': rng.choice(sorted(USER_OPS))}
    if binding in ('direct', 'grader') and not cfg.get('uops') and rng.random() < 0.15:
        # vector mode: every variable and user constant is a 2-vector; the second component has its own draws
        style = 'plain'
        cfg['vec'] = {'draws': {}, 'consts': {}}
        for e in cfg['vars'] + [dict(h, n=h['h']) for h in cfg['heads']]:
            if e['k'] == 'ind' and e['n'] not in cfg['vec']['draws']:
                cfg['vec']['draws'][e['n']] = [rng.randint(-50, 50) for _ in e['draws']]
        for q in cfg['consts']:
            cfg['vec']['consts'][q['n']] = q['v'] if q['n'] in DEFAULT_CONSTS else rng.randint(-9, 9)
    dep_heads = sum(1 for h in cfg['heads'] if h['k'] == 'dep')
    return {'id': rid, 'bind': binding, 'style': style, 'shape': shape, 'variant': variant, 'cfg': cfg,
            'loop_order': dep_heads == 0}


def second_component(case, obs):
    """vector mode: the record of the second component (same graph, its own draws and constants)"""
    cfg = dict(case['cfg'])
    vec = cfg.pop('vec')
    cfg['vars'] = [dict(v, draws=vec['draws'][v['n']]) if v['k'] == 'ind' else v for v in cfg['vars']]
    cfg['heads'] = [dict(h, draws=vec['draws'][h['h']]) if h['k'] == 'ind' else h for h in cfg['heads']]
    cfg['consts'] = [{'n': q['n'], 'v': vec['consts'][q['n']]} for q in cfg['consts']]
    return to_record(dict(case, cfg=cfg, id=case['id'] + VEC_ID), dict(obs, samples=obs['samples1']))


def to_record(case, obs):
    cfg = case['cfg']
    direct = case['bind'] == 'direct'
    r = {'id': case['id'], 'bind': case['bind'], 'vars': cfg['vars'], 'heads': cfg['heads'], 'occ': cfg['occ'],
         'defaults': [q for q in cfg['consts'] if not direct and q['n'] in DEFAULT_CONSTS],
         'uops': [{'n': q['n'], 'op': 'set', 'v': q['v']} for q in cfg['consts'] if direct or q['n'] not in DEFAULT_CONSTS]
                 + list(cfg.get('uops', [])),
         'ns': cfg['ns'], 'res': obs['res'], 'diag': obs['diag'], 'names': obs['names'],
         'samples': obs['samples'], 'orders': obs['orders'], 'has_order': obs['has_order'],
         'loop_order': case['loop_order'], 'cmp_names': case['bind'] != 'list', 'bad': obs['bad']}
    return r


def observe_chunk(cases, extra):
    from engine import repo
    repo.activate()
    recs = []
    for case in cases:
        if TIMEOUTS[0] >= MAX_TIMEOUTS:
            break
        obs = observe(case['cfg'], case['bind'], case['style'])
        recs.append(to_record(case, obs))
        if case['cfg'].get('vec'):
            recs.append(second_component(case, obs))
    return recs


# ---------------------------------------------------------------- reporting
CLASS_OF = {
    'incomplete-sample': 'incomplete-sample', 'incomplete': 'incomplete-sample',
    'wrong-value': 'wrong-value', 'inconsistent': 'inconsistent-dependent',
    'not-drawn-from-set': 'value-not-from-sampling-set', 'constant-changed': 'constant-changed',
    'value-for-unresolvable-configuration': 'value-for-unresolvable-configuration',
    'config-error-for-resolvable-configuration': 'config-error-for-resolvable-configuration',
    'wrong-exception': 'wrong-exception', 'timeout': 'loops', 'wrong-number-of-samples': 'wrong-number-of-samples',
}


def class_of(clause):
    if clause in CLASS_OF:
        return CLASS_OF[clause]
    if clause.startswith('expected-config-error'):
        return 'value-for-unresolvable-configuration' if clause.endswith('got-ok') else 'wrong-exception'
    if clause.startswith('expected-samples-got-config_error'):
        return 'config-error-for-resolvable-configuration'
    if clause.startswith('expected-samples'):
        return 'wrong-exception'
    return clause.split(':')[0]


def report(ctx, binding, style, cfg, clause, allowed, obs):
    sig = {'class': class_of(clause), 'binding': binding, 'style': style, 'config': cfg_summary(cfg),
           'declaration_order': [v['n'] for v in cfg['vars']], 'samples': cfg['ns'], 'clause': clause,
           'cfg': cfg, 'allowed': allowed,
           'observed': {k: obs[k] for k in ('res', 'diag', 'names', 'samples', 'bad')}}
    ctx.violation(sig, '%s binding, %s: spec clause %s; code gave %s%s' % (
        binding, cfg_summary(cfg), clause, obs['res'],
        (' ' + str(obs['samples'][:1])) if obs['res'] == 'ok' else (' ' + obs['diag'] + ' ' + obs['bad'])))


def run_machines(ctx):
    """the state machines: laws, refinement, termination"""
    for part in ('abs', 'loop'):
        ctx.tlc('sampling/MC_DepResolve.tla', 'sampling/MC_DepResolve_%s_%s.cfg' % (part, ctx.tier), deadlock=True,
                timeout=6000)


def run_replay(ctx, part, classes):
    """spec -> code: dump the enumerated cases with their allowed outcomes, replay them through both bindings"""
    fn = {'cases': 'replay_states', 'num': 'replay_num', 'hist': 'replay_hist'}[part]
    d = os.path.join(ctx.scratch, part)
    ctx.tlc('sampling/MC_DepResolve.tla', 'sampling/MC_DepResolve_%s_%s.cfg' % (part, ctx.tier), dump=d, timeout=6000)
    res = dump.parallel(d + '.dump', 'engine.adapters.c13', fn, extra={'ns': NS})
    os.remove(d + '.dump')
    for r in res:
        ctx.traces_validated += r['n']
        ctx.evaluations += r['n']
        for k in r['keys']:
            ctx.nontrivial.add(tuple(map(str, k)))
            classes.add(str(k[3]) if part in ('cases', 'hist') else str(k[1]))
        if r['sample']:
            ctx.sample(r['sample'], limit=4)
        for d_ in r['drift']:
            ctx.note_drift(d_)
        for b in r['bad']:
            if b is None:
                continue
            report(ctx, b['binding'], b['style'], b['cfg'], b['clause'], b['allowed'], b['obs'])


def run_traces(ctx, n):
    """code -> spec: random configurations observed through the real code, validated by DepResolveTrace"""
    cases = [rand_case(ctx.rng, i, not ctx.quick or i % 3 == 0) for i in range(n)]
    recs = [r for chunk in dump.pmap('engine.adapters.c13', 'observe_chunk', cases) for r in chunk]
    rej = traces.validate(ctx, 'sampling/DepResolveTrace.tla', 'sampling/DepResolveTrace.cfg', recs, timeout=6000)
    ctx.evaluations += len(recs)
    bycase = {c['id']: c for c in cases}
    byrec = {r['id']: r for r in recs}
    cases = [bycase[r['id'] % VEC_ID] for r in recs]  # (two records per vector case; workers stop after timeouts)
    for c, r in zip(cases, recs):
        ctx.nontrivial.add(('trace', c['bind'], c['shape'], c['variant'], r['res'], len(c['cfg']['vars']) > 4,
                            bool(c['cfg']['heads']), bool(c['cfg'].get('vec'))))
    for r in recs[:2]:
        ctx.sample({'trace_record': r}, limit=6)
    for i, clause in sorted(rej.items()):
        c, r = bycase[i % VEC_ID], byrec[i]
        if clause.startswith('drift:'):
            ctx.note_drift('%s %s: %s (code: %s %s %s)' % (c['bind'], cfg_summary(c['cfg']), clause[6:], r['diag'],
                                                          r['names'], r['orders'][:1]))
            continue
        report(ctx, c['bind'], c['style'], c['cfg'], clause, 'DepResolveTrace!Accepting = {}', r)
    res_counts = {}
    for c, r in zip(cases, recs):
        k = '%s/%s' % (c['bind'], r['res'])
        res_counts[k] = res_counts.get(k, 0) + 1
    ctx.extra['outcomes_in_random_records'] = res_counts


def run(ctx):
    run_machines(ctx)
    classes = set()
    for part in ('cases', 'num', 'hist'):
        run_replay(ctx, part, classes)
    n = 3000 if ctx.quick else 40000
    run_traces(ctx, n)
    ctx.extra['outcome_classes_reached'] = sorted(classes)
    ctx.extra['bounds'] = {'tier': ctx.tier, 'graph_symbols_max': 3 if ctx.quick else 4, 'samples_per_case': NS,
                           'numbered_index_length_max': 2 if ctx.quick else 3, 'random_records': n,
                           'random_variables_max': 8}
    ctx.assumptions += [
        'dependent formulas are 1 + (sum of dependencies) over integer draws (exact in floating point)',
        'vector-valued variables: 2-vectors with formulas [1, 1] + (sum), judged component by component',
        'numbered-variable indices that are decimal numerals but not canonical integers (05, -0) are accepted either way',
        'numbered-variable instances that occur only inside DependentSampler formulas are not generated',
        'exceptions raised after the samples exist (evaluation of the expressions) are outside this property',
        'ScriptedSampler / recording user functions are author-level extensions of the public API']


def replay(ctx, rec):
    sig = rec['signature']
    print('class    :', sig.get('class'))
    print('binding  :', sig['binding'], sig['style'])
    print('config   :', sig['config'])
    case = {'id': 0, 'bind': sig['binding'], 'style': sig['style'], 'cfg': sig['cfg'], 'loop_order': False}
    from engine import repo
    repo.activate()
    obs = observe(case['cfg'], case['bind'], case['style'])
    print('observed :', {k: obs[k] for k in ('res', 'diag', 'names', 'samples', 'bad')})
    rej = traces.validate(ctx, 'sampling/DepResolveTrace.tla', 'sampling/DepResolveTrace.cfg', [to_record(case, obs)])
    bad = {i: cl for i, cl in rej.items() if not cl.startswith('drift:')}
    print('spec     :', bad.get(0, 'accepted'))
    return not bad
