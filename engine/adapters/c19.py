"""C19 -- SumGrader accepts exactly the sums equal in value to the author's.

spec -> code: TLC enumerates the cases of MC_SumGrader (runs value / wide / pos / tol / inf / err; run algebra only checks laws
              of the specification).  Every dumped state carries the author's summation, the submitted summation, the
              configuration (all as spec records) and the set of outcome classes SumGrader!Allowed permits.  The records
              are rendered to SumGrader inputs, the real grader is run, the observed class must be in the allowed set.
code -> spec: a seeded random driver builds larger cases (limits up to +-40, random summands of the exact family, random
              re-indexings, perturbations, faults, box subsets in any order, 2-3 samples), runs the real grader, records
              one ndjson line per call; SumGraderTrace.tla recomputes SumGrader!Allowed for each line.

The adapter never decides a verdict itself: it renders spec records to text and classifies what the code did.
"""
import os
from fractions import Fraction

from engine import dump, traces

FIELDS = ['lower', 'upper', 'summand', 'summation_variable']
KNOWN_CONSTANTS = ['pi', 'e', 'i', 'j', 'infty']
KNOWN_FUNCTIONS = ['sin', 'cos', 'exp', 'abs', 'sqrt', 'fact', 'ln', 're']
PARTS = ['value', 'wide', 'pos', 'tol', 'inf', 'err', 'rnd']       # cfg names; 'wide' = part value, large limits, thinned product


# ---------------------------------------------------------------- rendering spec records as text
def rat(q, paren=True):
    n, d = q
    if d == 1:
        return '(%d)' % n if (n < 0 and paren) else '%d' % n
    return '(%d/%d)' % (n, d)


def gauss(g):
    """Gaussian rational <<re, im>> -> text, None when it is exactly 1"""
    re, im = g
    if im[0] == 0:
        return None if (re[0] == 1 and re[1] == 1) else rat(re)
    if re[0] == 0:
        return '(%s*i)' % rat(im)
    return '(%s+%s*i)' % (rat(re), rat(im))


def index_text(b):
    v, s, k = b['v'], b['sigma'], b['shift']
    if s == 1:
        if k == 0:
            return v
        return '(%s+%d)' % (v, k) if k > 0 else '(%s-%d)' % (v, -k)
    if k == 0:
        return '(-%s)' % v
    return '(%d-%s)' % (k, v) if k > 0 else '(-%s-%d)' % (v, -k)


def poly_text(p, N):
    a0, a1, a2 = p
    parts = []
    if a0:
        parts.append('%d' % a0)
    if a1:
        parts.append('%d*%s' % (a1, N))
    if a2:
        parts.append('%d*%s^2' % (a2, N))
    if not parts:
        return '0'
    if len(parts) == 1 and not a0:
        return parts[0] if parts[0][0] != '-' else '(%s)' % parts[0]
    s = parts[0]
    for t in parts[1:]:
        s += t if t[0] == '-' else '+' + t
    return s if (len(parts) == 1 and a0 >= 0) else '(%s)' % s


def term_text(t, N):
    fs = []
    g = gauss(t['coef'])
    if g is not None:
        fs.append(g)
    if t['mult'] != 'one':
        fs.append(t['mult'])
    base = t['base']
    if base == 'alt':
        fs.append('(-1)^%s' % N)
    elif base == 'geo':
        fs.append('2^(-%s)' % N)
    elif base == 'geoinv':
        fs.append('2^%s' % N)
    pt = poly_text(t['p'], N)
    if base == 'invfact':
        fs.append(pt)
        return '*'.join(fs) + '/fact(%s)' % N
    if pt != '1' or not fs:
        fs.append(pt)
    return '*'.join(fs)


def body_text(b):
    if b['blank']:
        return b.get('blank_text', '')
    N = index_text(b)
    comps = []
    for terms in b['comps']:
        e = ' + '.join(term_text(t, N) for t in terms)
        if b['scale'] != [1, 1]:
            e = '%s*(%s)' % (rat(b['scale']), e)
        if b['add'] != [[0, 1], [0, 1]]:
            g = gauss(b['add']) or '1'
            e = '%s + %s' % (e, g)
        if b['pole']['on']:
            e = '%s + 0/(%s-(%d))' % (e, N, b['pole']['at'])
        for f in b.get('calls', []):
            e = '%s*(%s)' % (FN_ONE[f], e)
        comps.append(e)
    return comps[0] if len(comps) == 1 else '[' + ', '.join(comps) + ']'


_QUOT = {}


def _quot_pool():
    """(n, 'below' | 'above') -> expressions in decimal literals whose exact value is the integer n and whose IEEE double
    value (left-to-right / * + -, as the library evaluates them) is one rounding error below / above n"""
    if _QUOT:
        return _QUOT
    from decimal import Decimal

    def add(n, expr, a, b, op, k):
        fa, fb = float(a), float(b)
        v = (fa / fb if op == '/' else fa * fb) + k
        if v == n or abs(v - n) > 1e-9:
            return
        _QUOT.setdefault((n, 'below' if v < n else 'above'), []).append(expr)
    for n0 in range(-70, 71):
        for b in ['0.1', '0.3', '0.7', '0.07', '0.9', '1.1', '0.03', '0.6', '2.3', '1.3', '1.7']:
            a = format((Decimal(n0) * Decimal(b)).normalize(), 'f')
            add(n0, '%s/%s' % (a, b), a, b, '/', 0)
            for k in range(1, 13):
                add(n0 + k, '%s/%s+%d' % (a, b, k), a, b, '/', k)
                add(n0 - k, '%s/%s-%d' % (a, b, k), a, b, '/', -k)
        for m in ['10', '100', '1000']:
            q = Decimal(n0) / Decimal(m)
            a = format(q.normalize(), 'f')
            add(n0, '%s*%s' % (a, m), a, m, '*', 0)
            for k in (1, 2, 5):
                add(n0 + k, '%s*%s+%d' % (a, m, k), a, m, '*', k)
                add(n0 - k, '%s*%s-%d' % (a, m, k), a, m, '*', -k)
    for key in _QUOT:
        c = _QUOT[key]
        c.sort(key=lambda e: (('+' in e[1:]) or ('-' in e[1:]), len(e)))
        prod = [e for e in c if '*' in e]
        if prod and c.index(prod[0]) > 1:          # keep a product form among the first few candidates
            c.remove(prod[0])
            c.insert(1, prod[0])
    return _QUOT


def quot_text(n, direction, salt=0):
    c = _quot_pool().get((n, direction))
    if not c:
        raise ValueError('no inexact decimal expression for %d (%s)' % (n, direction))
    return c[salt % min(len(c), 4)]


# constants an author may define (cfg.userconsts): a new name, a default name given another value
USER_CONSTS = {'tau': 6, 'pi': 3, 'e': 2}
# functions an author may define (cfg.userfuncs); values stay exact
USER_FUNCS = {'first': lambda x: x - 1, 'dbl': lambda x: 2 * x}
# name -> (text of a call whose value is `base`, base): an integer n is written  call + (n - base)
FN_CALL = {'cos': ('cos(0)', 1), 'exp': ('exp(0)', 1), 'sqrt': ('sqrt(4)', 2), 'sin': ('sin(0)', 0), 'ln': ('ln(1)', 0),
           're': ('re(3)', 3), 'first': ('first(4)', 3), 'dbl': ('dbl(2)', 4), 'fact': ('fact(3)', 6)}
# name -> text of a factor equal to 1 that calls the function
FN_ONE = {'cos': 'cos(0)', 'exp': 'exp(0)', 'sqrt': 'sqrt(1)', 'sin': '(1+sin(0))', 'ln': '(1+ln(1))', 're': 're(1)',
          'abs': 'abs(-1)', 'first': 'first(2)', 'dbl': 'dbl(1/2)', 'fact': 'fact(1)'}


def fn_limit_text(n, f):
    if f == 'abs':
        return 'abs(%d)' % (-n) if n >= 0 else '-abs(%d)' % n
    call, base = FN_CALL[f]
    d = n - base
    return call if d == 0 else ('%s+%d' % (call, d) if d > 0 else '%s-%d' % (call, -d))


def creal_text(n, salt=0):
    """the integer n computed in the complex numbers with an exactly vanishing imaginary part (complex-typed value)"""
    forms = ['i^2%+d' % (n + 1) if n != -1 else 'i^2', '%d+0*i' % n, '(1+i)*(1-i)%+d' % (n - 2) if n != 2 else '(1+i)*(1-i)',
             '%d*i/i' % n, '%d-j^2' % (n - 1), '%d+i-i' % n]
    return forms[salt % len(forms)]


def limit_text(l):
    k, n = l['k'], l['n']
    if k == 'creal':
        return creal_text(n, l.get('salt', n))
    if k == 'fn':
        return fn_limit_text(n, l['f'])
    if k == 'qbelow':
        return quot_text(n, 'below', l.get('salt', n))
    if k == 'qabove':
        return quot_text(n, 'above', l.get('salt', n))
    if k == 'int':
        return '%d' % n
    if k == 'plusx':
        return '%d+x' % n
    if k == 'plusc':
        return '%d+c' % n
    if k == 'half':
        return '%d+1/2' % n
    if k == 'cplx':
        return '%d+i' % n
    if k == 'pinf':
        return 'infty'
    if k == 'ninf':
        return '-infty'
    if k == 'blank':
        return l.get('blank_text', '')
    raise ValueError(k)


def sum_text(s):
    return {'lower': limit_text(s['lower']), 'upper': limit_text(s['upper']), 'summand': body_text(s['body']),
            'summation_variable': s['var']}


def tolerance_arg(tol):
    kind, (n, d) = tol['kind'], tol['val']
    if kind == 'default':
        return None
    if kind == 'abs':
        return float(n) / d if d != 1 else n
    return '%s%%' % repr(100.0 * n / d)


def py_fact(x):
    """fact() as an author-defined function: the built-in one needs scipy, which is absent here.  The name 'fact' in
    a summand is what makes SumGrader choose infty_val_fact, whoever defines the function."""
    import math
    if x != int(x) or x < 0:
        raise ValueError('factorial of %r' % (x,))
    return float(math.factorial(int(x)))


def uses_fact(*sums):
    return any(t['base'] == 'invfact' for s in sums for terms in s['body']['comps'] for t in terms)


def grader_kwargs(aut, cfg, pos, stu=None):
    """(kwargs for SumGrader except sample_from / user functions, scripts)"""
    kw = dict(answers=sum_text(aut), input_positions={f: i + 1 for i, f in enumerate(pos)}, even_odd=cfg['evenOdd'],
              infty_val=cfg['cut'], infty_val_fact=cfg['cutFact'], variables=sorted(cfg['vars']) + sorted(cfg['ivars']),
              instructor_vars=sorted(cfg['ivars']), samples=len(cfg['xs']))
    t = tolerance_arg(cfg['tol'])
    if t is not None:
        kw['tolerance'] = t
    scripts = {'x': [float(Fraction(n, d)) for n, d in cfg['xs']], 'c': [float(Fraction(*cfg['cval']))]}
    if stu is None or uses_fact(aut, stu):          # stu None: the object will serve several submissions
        kw['user_fact'] = True
    forbidden = sorted(cfg.get('forbidden', []))
    if cfg.get('listing', 'black') == 'white':
        kw['whitelist'] = [f for f in KNOWN_FUNCTIONS if f not in forbidden]
    elif forbidden:
        kw['blacklist'] = forbidden
    if cfg.get('required'):
        kw['required_functions'] = sorted(cfg['required'])
    if cfg.get('userfuncs'):
        kw['user_funcs'] = sorted(cfg['userfuncs'])
    if cfg.get('debug'):
        kw['debug'] = True
    uc = {name: None for name in sorted(cfg.get('removed', []))}          # the documented way of removing a default constant
    uc.update({name: USER_CONSTS[name] for name in sorted(cfg.get('userconsts', []))})
    if uc:
        kw['user_constants'] = uc
        if any(name in KNOWN_CONSTANTS for name in cfg.get('userconsts', [])):
            kw['suppress_warnings'] = True                                 # overriding a default constant on purpose
    return kw, scripts


def classify(run):
    """run() -> (class, detail)"""
    from mitxgraders.exceptions import ConfigError, StudentFacingError
    try:
        r = run()
    except ConfigError as e:
        return 'config_err', type(e).__name__
    except StudentFacingError as e:
        return 'student_err', type(e).__name__
    except Exception as e:  # outside every class the statement names
        return 'other:' + type(e).__name__, str(e)[:80]
    if isinstance(r, dict) and set(r) == {'ok', 'grade_decimal', 'msg'}:
        if r['ok'] is True and r['grade_decimal'] == 1:
            return 'correct', ''
        if r['ok'] is False and r['grade_decimal'] == 0:
            return 'incorrect', ''
    return 'other:result', repr(r)[:80]


def build_grader(kw, scripts):
    """the real SumGrader object for rendered kwargs (may raise ConfigError)"""
    from mitxgraders import SumGrader
    from engine.fixtures import ScriptedSampler
    kw = dict(kw)
    ufs = {name: USER_FUNCS[name] for name in kw.pop('user_funcs', None) or []}
    if kw.pop('user_fact', False):
        ufs['fact'] = py_fact
        kw['suppress_warnings'] = True
    if ufs:
        kw['user_functions'] = ufs
    return SumGrader(sample_from={k: ScriptedSampler(script=v) for k, v in scripts.items() if k in kw['variables']}, **kw)


def call_grader(kw, scripts, inputs, holder=None):
    """one call; with a holder (dict) the grader object is created once and kept for the following calls"""
    def run():
        if holder is None:
            g = build_grader(kw, scripts)
        else:
            if 'g' not in holder:
                holder['g'] = build_grader(kw, scripts)
            g = holder['g']
        return g(None, inputs)
    return classify(run)


def observe(aut, stu, cfg, pos, single_as_string=False, holder=None):
    kw, scripts = grader_kwargs(aut, cfg, pos, None if holder is not None else stu)
    st = sum_text(stu)
    inputs = [st[f] for f in pos]
    if single_as_string and len(inputs) == 1:
        inputs = inputs[0]
    cls, detail = call_grader(kw, scripts, inputs, holder)
    return cls, detail, kw, scripts, inputs


def finding_class(aut, allowed, observed, stu=None):
    a = sum_text(aut)
    if sorted(allowed) == ['config_err'] and observed == 'student_err' and \
            (a['lower'].strip() == '' or a['upper'].strip() == ''):
        return 'author-blank-limit-reported-as-student-error'
    kinds = [l['k'] for s in (aut, stu or aut) for l in (s['lower'], s['upper'])]
    if 'creal' in kinds and observed not in allowed:
        return 'complex-typed-real-limit-not-reported-as-the-statement-requires'
    if observed.startswith('other:'):
        return 'unclassified-outcome'
    if observed in ('correct', 'incorrect') and 'q' in [l['k'][0] for s in (aut, stu or aut) for l in (s['lower'], s['upper'])]:
        return 'inexactly-written-integer-limit-graded-as-another-sum'
    if set(allowed) <= {'correct', 'incorrect'} and observed in ('correct', 'incorrect'):
        return 'verdict-differs-from-value-equality'
    if set(allowed) <= {'correct', 'incorrect'}:
        return 'error-where-a-verdict-is-due'
    if observed in ('correct', 'incorrect'):
        return 'verdict-where-an-error-is-due'
    return 'wrong-error-family'


def make_signature(aut, stu, cfg, pos, allowed, observed, detail, kw, scripts, inputs, origin):
    return {'origin': origin, 'answers': kw['answers'], 'input_positions': kw['input_positions'], 'inputs': inputs,
            'even_odd': kw['even_odd'], 'infty_val': kw['infty_val'], 'infty_val_fact': kw['infty_val_fact'],
            'variables': kw['variables'], 'instructor_vars': kw['instructor_vars'], 'samples': kw['samples'],
            'tolerance': kw.get('tolerance', 'default'), 'user_fact': kw.get('user_fact', False), 'scripts': scripts,
            'blacklist': kw.get('blacklist'), 'whitelist': kw.get('whitelist'), 'required_functions': kw.get('required_functions'),
            'user_funcs': kw.get('user_funcs'), 'debug': kw.get('debug', False), 'user_constants': kw.get('user_constants'),
            'suppress_warnings': kw.get('suppress_warnings', False), 'allowed': sorted(allowed),
            'observed': observed, 'detail': detail, 'class': finding_class(aut, allowed, observed, stu)}


# implementation-shaped expectation (drift only): which exception type a single student fault produces today
DRIFT_EXPECT = {'blank_lower': 'MissingInput', 'blank_upper': 'MissingInput', 'blank_summand': 'MissingInput',
                'blank_var': 'MissingInput', 'var_pi': 'InvalidInput', 'var_i': 'InvalidInput', 'var_sin': 'InvalidInput',
                'var_x': 'SummationError', 'half_lower': 'SummationError', 'half_upper': 'SummationError',
                'cplx_lower': 'SummationError', 'cplx_upper': 'SummationError', 'uses_c': 'UndefinedVariable',
                'plusc_lower': 'UndefinedVariable', 'creal_lower': 'SummationError', 'creal_upper': 'SummationError'}
FAULT_FIELD = {'blank_lower': 'lower', 'half_lower': 'lower', 'cplx_lower': 'lower', 'plusc_lower': 'lower',
               'blank_upper': 'upper', 'half_upper': 'upper', 'cplx_upper': 'upper', 'blank_summand': 'summand',
               'creal_lower': 'lower', 'creal_upper': 'upper', 'uses_c': 'summand', 'blank_var': 'summation_variable', 'var_pi': 'summation_variable',
               'var_i': 'summation_variable', 'var_sin': 'summation_variable', 'var_x': 'summation_variable'}


def replay_states(states, extra):
    from engine import repo
    repo.activate()
    n = 0
    keys = set()
    bad = []
    drift = set()
    sample = None
    for st in states:
        c = st['c']
        if c['kind'] == 'seed':
            continue
        io = st['io']
        allowed = st['out']
        n += 1
        obs, detail, kw, scripts, inputs = observe(io['aut'], io['stu'], io['cfg'], io['pos'])
        keys.add((c['kind'], c['sid'], c['tr'][0], c['fa'], c['fs'], '/'.join(sorted(allowed)), len(c['P'])))
        if sample is None and (c['tr'][0] != 'same' or c['fs'] != 'none'):
            sample = {'answers': kw['answers'], 'inputs': inputs, 'input_positions': kw['input_positions'],
                      'even_odd': kw['even_odd'], 'allowed': allowed, 'observed': obs}
        if obs not in allowed and len(allowed) < 4:          # all four classes allowed = no prediction (statement silent)
            if len(bad) < 40:
                bad.append(make_signature(io['aut'], io['stu'], io['cfg'], io['pos'], allowed, obs, detail, kw, scripts,
                                          inputs, 'tlc:' + c['kind']))
            else:
                bad.append(None)
        elif obs == 'student_err' and c['fa'] == 'none' and c['fs'] in DRIFT_EXPECT and FAULT_FIELD[c['fs']] in c['P'] \
                and 'student_err' in allowed and detail != DRIFT_EXPECT[c['fs']]:
            drift.add('student fault %s raises %s (model of the code says %s)' % (c['fs'], detail, DRIFT_EXPECT[c['fs']]))
    return {'n': n, 'keys': sorted(keys), 'bad': bad, 'sample': sample, 'drift': sorted(drift)}


def replay_histories(states, extra):
    """states of MC_SumGraderHist: two grader objects per history, the calls performed in order; every call must end in a
    class the specification allows for that call alone"""
    from engine import repo
    repo.activate()
    n = 0
    keys = set()
    bad = []
    sample = None
    for st in states:
        c = st['c']
        if c['kind'] == 'seed':
            continue
        io, outs = st['io'], st['out']
        holders = [{}, {}]
        trail = []
        for i, call in enumerate(io['calls']):
            g = io['graders'][call['g'] - 1]
            obs, detail, kw, scripts, inputs = observe(g['aut'], call['stu'], g['cfg'], call['pos'], holder=holders[call['g'] - 1])
            n += 1
            allowed = outs[i]
            trail.append({'grader': call['g'], 'inputs': inputs, 'observed': obs})
            keys.add(('hist', c['gk'], c['sid'], i, call['g'], '/'.join(sorted(allowed))))
            if obs not in allowed and len(allowed) < 4:
                if len(bad) < 40:
                    sig = make_signature(g['aut'], call['stu'], g['cfg'], call['pos'], allowed, obs, detail, kw, scripts, inputs,
                                         'tlc:hist')
                    sig['history'] = list(trail)
                    sig['graders'] = [grader_kwargs(x['aut'], x['cfg'], FIELDS)[0] for x in io['graders']]
                    if i > 0:
                        sig['class'] = 'call-outcome-differs-from-that-of-the-call-alone'
                    bad.append(sig)
                else:
                    bad.append(None)
        if sample is None:
            sample = {'history': trail, 'allowed': outs}
    return {'n': n, 'keys': sorted(keys), 'bad': bad, 'sample': sample, 'drift': []}


# ---------------------------------------------------------------- random driver (code -> spec)
VALID_NAMES = ['n', 'm', 'k', 'idx', 'n_1', "k'", 'jj', 'r2', 'N', 'nu']
DYADIC_X = [[2, 1], [3, 2], [-1, 2], [3, 1], [5, 4], [-2, 1], [1, 4], [7, 2], [1, 1], [-3, 4]]


def rterm(rng, bases):
    coef = [[rng.randint(-3, 3), rng.choice([1, 1, 1, 2, 4])], [rng.choice([0, 0, 0, 1, -1, 2]), rng.choice([1, 1, 2])]]
    coef = [norm(*coef[0]), norm(*coef[1])]
    if coef == [[0, 1], [0, 1]]:
        coef = [[1, 1], [0, 1]]
    base = rng.choice(bases)
    p = [rng.randint(-3, 3), rng.choice([0, 0, 1, -1, 2, -2]), rng.choice([0, 0, 0, 1, -1])]
    if base in ('geo', 'geoinv', 'invfact'):
        p = [rng.choice([1, 1, 2, -1]), rng.choice([0, 0, 1]), 0]
    return {'coef': coef, 'mult': rng.choice(['one', 'one', 'one', 'x', 'x', 'c']), 'base': base, 'p': p}


def norm(n, d):
    f = Fraction(n, d)
    return [f.numerator, f.denominator]


def lint(n):
    return {'k': 'int', 'n': n}


def move(l, d):
    return dict(l, n=l['n'] + d) if l['k'] not in ('pinf', 'ninf', 'blank') else dict(l)


def neg(l):
    if l['k'] == 'pinf':
        return {'k': 'ninf', 'n': 0}
    if l['k'] == 'ninf':
        return {'k': 'pinf', 'n': 0}
    return dict(l, n=-l['n'])


def inline_c(body, cval):
    b = dict(body)
    comps = []
    for terms in body['comps']:
        ts = []
        for t in terms:
            if t['mult'] == 'c':
                f = Fraction(*cval)
                t = dict(t, mult='one', coef=[norm(*(Fraction(*q) * f).as_integer_ratio()) for q in t['coef']])
            ts.append(t)
        comps.append(ts)
    b['comps'] = comps
    return b


def magnitude_ok(case):
    """keep the record inside TLC's 32-bit integers: bound numerator * denominator growth with a coarse estimate
    (a size filter only; the verdict is never computed here)"""
    cfg = case['cfg']
    worst = 0
    key = {'lower': 'lower', 'upper': 'upper', 'summand': 'body', 'summation_variable': 'var'}
    eff = dict(case['aut'])
    for f in case['pos']:
        eff[key[f]] = case['stu'][key[f]]               # what is actually graded: the student's boxes, the author's rest
    for s in (case['aut'], case['stu'], eff):
        b = s['body']
        lims = []
        for l in (s['lower'], s['upper']):
            if l['k'] in ('pinf', 'ninf'):
                lims.append(cfg['cut'] if l['k'] == 'pinf' else -cfg['cut'])
            elif l['k'] == 'blank':
                lims.append(0)
            else:
                lims.append(l['n'] + (4 if l['k'] in ('plusx', 'plusc') else 0))
        lo, hi = min(lims) - 1, max(lims) + 1
        ns = [b['sigma'] * m + b['shift'] for m in (lo, hi)]
        nlo, nhi = min(ns), max(ns)
        span = nhi - nlo + 1
        amax = max(abs(nlo), abs(nhi))
        tot = 0
        den = 1
        for terms in b['comps']:
            for t in terms:
                pv = abs(t['p'][0]) + abs(t['p'][1]) * amax + abs(t['p'][2]) * amax * amax
                cf = max(abs(t['coef'][0][0]), abs(t['coef'][1][0]), 1) * 4
                if t['base'] == 'geo':
                    if nlo < -10 or nhi > 14:
                        return False
                    pv *= 2 ** max(0, -nlo)
                    den = max(den, 2 ** max(0, nhi))
                elif t['base'] == 'geoinv':
                    if nhi > 10 or nlo < -14:
                        return False
                    pv *= 2 ** max(0, nhi)
                    den = max(den, 2 ** max(0, -nlo))
                elif t['base'] == 'invfact':
                    if nlo < 0 or nhi > 10:
                        return False
                    den = max(den, 3628800)
                tot += pv * cf * span * 4
        tot = (tot + 8 * span) * abs(b['scale'][0]) * 16
        worst = max(worst, tot * den * 17)
    return worst < 2 ** 31


def rand_case(rng, i):
    dim = rng.choice([1, 1, 1, 2])
    family = rng.choice(['poly', 'poly', 'geo', 'geoinv', 'fact'])
    bases = {'poly': ['poly', 'poly', 'alt'], 'geo': ['geo', 'poly', 'alt'], 'geoinv': ['geoinv', 'poly'],
             'fact': ['invfact', 'poly']}[family]
    comps = [[rterm(rng, bases) for _ in range(rng.randint(1, 3))] for _ in range(dim)]
    var = rng.choice(VALID_NAMES)
    body = {'blank': False, 'comps': comps, 'pole': {'on': False, 'at': 0}, 'sigma': 1, 'shift': 0, 'scale': [1, 1],
            'add': [[0, 1], [0, 1]], 'v': var, 'calls': []}
    cut = rng.randint(8, 14)
    cut_fact = rng.randint(6, 9)
    if family == 'poly':
        l, u = lint(rng.randint(-40, 40)), lint(rng.randint(-40, 40))
        if rng.random() < .15:
            (l if rng.random() < .5 else u).update(k=rng.choice(['pinf', 'ninf']), n=0)
            if l['k'] == 'int':
                l['n'] = rng.randint(-cut, cut)
            if u['k'] == 'int':
                u['n'] = rng.randint(-cut, cut)
    elif family == 'geo':
        l, u = lint(rng.randint(-6, 10)), lint(rng.randint(-6, 10))
        if rng.random() < .5:
            (l if rng.random() < .5 else u).update(k='pinf', n=0)
    elif family == 'geoinv':
        l, u = lint(rng.randint(-10, 6)), lint(rng.randint(-10, 6))
        if rng.random() < .5:
            (l if rng.random() < .5 else u).update(k='ninf', n=0)
    else:
        l, u = lint(rng.randint(0, 7)), lint(rng.randint(0, 7))
        if rng.random() < .6:
            (l if rng.random() < .5 else u).update(k='pinf', n=0)
    if rng.random() < .06:
        l = {'k': 'plusx', 'n': rng.randint(-3, 3)}
    aut = {'lower': l, 'upper': u, 'body': body, 'var': var}
    nsamp = rng.choice([1, 2, 2, 3])
    xs = rng.sample(DYADIC_X, nsamp)
    if l['k'] == 'plusx' and rng.random() < .8:
        xs = [[rng.randint(-3, 4), 1] for _ in range(nsamp)]
    tol = rng.choice([{'kind': 'default', 'val': [1, 1000000000]}] * 4 +
                     [{'kind': 'abs', 'val': v} for v in ([0, 1], [1, 1000], [1, 2], [3, 1], [1, 8])] +
                     [{'kind': 'pct', 'val': v} for v in ([1, 100], [1, 10], [1, 1000])])
    if family == 'fact' and tol['val'][0] == 0:
        tol = {'kind': 'default', 'val': [1, 1000000000]}
    cfg = {'evenOdd': rng.choice([0, 0, 1, 2]), 'cut': cut, 'cutFact': cut_fact, 'xs': xs, 'cval': [2, 1],
           'vars': ['x'], 'ivars': ['c'], 'tol': tol}
    cfg.update(rand_restrictions(rng))
    rand_constants(rng, cfg, aut)
    # ---- the submission: an exact rewriting ...
    sb = inline_c(body, cfg['cval'])
    sl, su = dict(l), dict(u)
    svar = var
    r = rng.random()
    if r < .25:
        k = rng.randint(-5, 5)
        sb['shift'] = k
        sl, su = move(sl, -k), move(su, -k)
    elif r < .45 and sl['k'] != 'plusx':
        sb['sigma'] = -1
        k = rng.choice([0, 0, rng.randint(-4, 4)])
        sb['shift'] = k
        sl, su = move(neg(u), k), move(neg(l), k)
    if rng.random() < .4:
        sl, su = su, sl
    if rng.random() < .3:
        svar = rng.choice(VALID_NAMES + cfg['removed'] * 4)          # a removed constant is a free name
        sb['v'] = svar
    if rng.random() < .1:
        sl = {'k': 'int', 'n': cut * (1 if sl['k'] == 'pinf' else -1)} if sl['k'] in ('pinf', 'ninf') else sl
    # ... possibly perturbed
    r = rng.random()
    if r < .12:
        sl = move(sl, rng.choice([-1, 1, 2]))
    elif r < .24:
        su = move(su, rng.choice([-1, 1, -2]))
    elif r < .34:
        sb['add'] = [norm(rng.choice([1, -1, 3]), rng.choice([1, 4, 256])), norm(rng.choice([0, 0, 1]), rng.choice([1, 8]))]
    elif r < .42:
        sb['scale'] = norm(rng.choice([2, -1, 3, 1]), rng.choice([1, 2]))
    elif r < .47:
        sb['shift'] += rng.choice([-1, 1])
    stu = {'lower': sl, 'upper': su, 'body': sb, 'var': svar}
    # ---- faults
    r = rng.random()
    if r < .04:
        f = rng.choice(['lower', 'upper'])
        stu[f] = {'k': 'blank', 'n': 0}
        if rng.random() < .3:
            stu[f]['blank_text'] = ' '
    elif r < .06:
        stu['body'] = dict(sb, blank=True)
        if rng.random() < .3:
            stu['body']['blank_text'] = ' '
    elif r < .08:
        stu['var'] = ''
    elif r < .12:
        name = rng.choice(KNOWN_CONSTANTS + KNOWN_FUNCTIONS + ['x', 'tau'] + cfg['removed'] * 3 + cfg['userconsts'] * 3)
        stu['var'] = name
        stu['body'] = dict(stu['body'], v=name)
    elif r < .16:
        f = rng.choice(['lower', 'upper'])
        if stu[f]['k'] == 'int':
            stu[f] = dict(stu[f], k=rng.choice(['half', 'cplx', 'plusc', 'plusx']))
    elif r < .19:
        stu['body'] = dict(stu['body'], comps=body['comps'])          # instructor variable not inlined
    elif r < .23:
        stu['body'] = dict(stu['body'], pole={'on': True, 'at': rng.randint(-6, 8)})
    elif r < .25:
        stu['body'] = dict(stu['body'], v='q')
    elif r < .33:
        for f in rng.choice([['lower'], ['upper'], ['lower', 'upper']]):
            if stu[f]['k'] == 'int':
                stu[f] = dict(stu[f], k=rng.choice(['qbelow', 'qabove', 'creal']), salt=rng.randint(0, 5))
    r = rng.random()
    if r < .02:
        aut[rng.choice(['lower', 'upper'])] = dict(aut['lower'], k=rng.choice(['half', 'cplx'])) if aut['lower']['k'] == 'int' else aut['lower']
    elif r < .04:
        aut['body'] = dict(body, pole={'on': True, 'at': rng.randint(-6, 8)})
    elif r < .05:
        name = rng.choice(['i', 'x', 'pi', 'c'] + cfg['removed'] * 4 + cfg['userconsts'] * 2)
        aut['var'] = name
        aut['body'] = dict(aut['body'], v=name)
    elif r < .06:
        aut['body'] = dict(body, v='q')
    elif r < .07:
        aut['body'] = dict(body, blank=True)
    elif r < .078:
        aut[rng.choice(['lower', 'upper'])] = {'k': 'blank', 'n': 0}
    elif r < .10:
        f = rng.choice(['lower', 'upper'])
        if aut[f]['k'] == 'int':
            aut[f] = dict(aut[f], k=rng.choice(['qbelow', 'qabove', 'creal', 'creal']), salt=rng.randint(0, 5))
    # ---- boxes
    P = [f for f in FIELDS if rng.random() < .75]
    if svar != var and rng.random() < .8:           # a renamed variable mostly comes with both boxes or with neither
        P = [f for f in P if f not in ('summand', 'summation_variable')]
        if rng.random() < .8:
            P += ['summand', 'summation_variable']
    rng.shuffle(P)
    return {'id': i, 'aut': aut, 'stu': stu, 'cfg': cfg, 'pos': P}


FN_POOL = ['cos', 'abs', 'sqrt', 'exp', 'sin', 'ln']


def writes_imaginary_unit(s):
    b = s['body']
    return s['lower']['k'] in ('cplx', 'creal') or s['upper']['k'] in ('cplx', 'creal') or b['add'][1][0] != 0 or \
        any(t['coef'][1][0] != 0 for terms in b['comps'] for t in terms)


def rand_constants(rng, cfg, aut):
    """default constants removed by the author (i, j only where the imaginary unit is not written), constants overridden / added"""
    r = rng.random()
    if r < .12:
        pool = ['pi', 'e'] + ([] if writes_imaginary_unit(aut) else ['i', 'j', 'i', 'j'])
        cfg['removed'] = sorted(set(rng.sample(pool, rng.randint(1, 2))))
    elif r < .18:
        cfg['userconsts'] = [rng.choice(['tau', 'pi', 'e'])]


def rand_restrictions(rng):
    """which functions a submission may / must use, which author-defined functions exist"""
    r = {'userfuncs': [], 'forbidden': [], 'required': [], 'listing': 'black', 'debug': rng.random() < .12,
         'removed': [], 'userconsts': []}
    if rng.random() < .3:
        r['forbidden'] = sorted(rng.sample(FN_POOL, rng.randint(1, 3)))
        r['listing'] = rng.choice(['black', 'white'])
    elif rng.random() < .15:
        r['listing'] = 'white'
    if rng.random() < .1:
        r['required'] = [rng.choice([f for f in FN_POOL if f not in r['forbidden']])]
    if rng.random() < .25:
        r['userfuncs'] = sorted(rng.sample(['first', 'dbl'], rng.randint(1, 2)))
    return r


def with_function_calls(rng, s, p=1.0):
    """the same summation with an integer limit written through a function call and / or a call mentioned in the summand"""
    s = dict(s)
    pool = FN_POOL + ['first', 'dbl']
    if rng.random() < .8 * p:
        f = rng.choice(['lower', 'upper'])
        if s[f]['k'] == 'int':
            s[f] = {'k': 'fn', 'n': s[f]['n'], 'f': rng.choice(pool)}
    if rng.random() < .3 * p and not s['body']['blank']:
        s['body'] = dict(s['body'], calls=[rng.choice(pool)])
    return s


def rand_cases(rng, n):
    """cases come in sessions: several submissions to ONE grader object (same author's sum and configuration), and sibling
    graders with the same author's text but other function restrictions; '_g' names the object a call goes to"""
    out = []
    tries = 0

    def push(c, g):
        if len(out) < n and magnitude_ok(c):
            c = dict(c, id=len(out), _g=g)
            out.append(c)
            return True
        return False
    gid = 0
    while len(out) < n and tries < 50 * n:
        tries += 1
        c = rand_case(rng, 0)
        if rng.random() < .15:
            c['stu'] = with_function_calls(rng, c['stu'])
        if rng.random() < .05 and c['aut']['lower']['k'] == 'int':
            c['aut'] = with_function_calls(rng, c['aut'])
        gid += 1
        if not push(c, gid):
            continue
        if rng.random() < .55:
            own = dict(c['aut'], body=inline_c(c['aut']['body'], c['cfg']['cval']))
            follow = [dict(c, stu=with_function_calls(rng, c['stu'])), dict(c), dict(c, stu=own),
                      dict(c, stu=with_function_calls(rng, own)), dict(c, stu=own)]
            for f in rng.sample(follow, rng.randint(1, 3)) + ([dict(c)] if rng.random() < .5 else []):
                push(f, gid)
            if rng.random() < .4:                      # a sibling object: same texts, other restrictions
                gid += 1
                cfg2 = dict(c['cfg'])
                cfg2.update(rand_restrictions(rng))
                push(dict(c, cfg=cfg2, stu=own), gid)
                push(dict(c, cfg=cfg2), gid)
    return out


def observe_chunk(cases, extra):
    from engine import repo
    repo.activate()
    recs = []
    holders = {}
    for c in cases:
        obs, detail, kw, scripts, inputs = observe(c['aut'], c['stu'], c['cfg'], c['pos'], single_as_string=(c['id'] % 2 == 0),
                                                   holder=holders.setdefault(c['_g'], {}))
        c = dict(c)
        c['obs'] = obs
        c['_detail'] = detail
        recs.append(c)
    return recs


def strip_private(rec):
    """the trace record proper: no adapter-only keys, no rendering hints"""
    def clean(x):
        if isinstance(x, dict):
            return {k: clean(v) for k, v in x.items() if not k.startswith('_') and k not in ('blank_text', 'salt')}
        if isinstance(x, list):
            return [clean(v) for v in x]
        return x
    return clean(rec)


def check_names():
    """the names the specification calls 'already meaningful' must be constants / functions of the real library"""
    from engine.main import Machinery
    from mitxgraders import SumGrader
    g = SumGrader(answers={'lower': '0', 'upper': '1', 'summand': 'n', 'summation_variable': 'n'})
    missing = [c for c in KNOWN_CONSTANTS if c not in g.constants] + [f for f in KNOWN_FUNCTIONS if f not in g.functions]
    if missing:
        raise Machinery('names assumed meaningful by SumGrader.tla are unknown to the library: %s' % missing)


def report(ctx, sig):
    what = 'SumGrader(answers=%r, input_positions=%r, even_odd=%s, tolerance=%s)(None, %r): spec allows %s, code gave %s %s' % (
        sig['answers'], sig['input_positions'], sig['even_odd'], sig['tolerance'], sig['inputs'], sig['allowed'],
        sig['observed'], sig['detail'])
    ctx.violation(sig, what)


def run(ctx):
    check_names()
    classes = set()
    counts = {}
    # laws of the specification itself
    ctx.tlc('graders/MC_SumGrader.tla', 'graders/MC_SumGrader_algebra_%s.cfg' % ctx.tier, timeout=3000)
    # spec -> code
    for part in PARTS:
        d = os.path.join(ctx.scratch, 'cases_' + part)
        ctx.tlc('graders/MC_SumGrader.tla', 'graders/MC_SumGrader_%s_%s.cfg' % (part, ctx.tier), dump=d, timeout=3000)
        res = dump.parallel(d + '.dump', 'engine.adapters.c19', 'replay_states')
        os.remove(d + '.dump')
        counts[part] = sum(r['n'] for r in res)
        for r in res:
            ctx.traces_validated += r['n']
            ctx.evaluations += r['n']
            for k in r['keys']:
                ctx.nontrivial.add(tuple(k))
                classes.add(k[5])
            if r['sample']:
                ctx.sample(r['sample'])
            for dr in r['drift']:
                if dr not in ctx.drift:
                    ctx.note_drift(dr)
            for b in r['bad']:
                if b is not None:
                    report(ctx, b)
    # histories: the outcome of a call is that of the call alone
    d = os.path.join(ctx.scratch, 'cases_hist')
    ctx.tlc('graders/MC_SumGraderHist.tla', 'graders/MC_SumGraderHist_%s.cfg' % ctx.tier, dump=d, timeout=3000)
    res = dump.parallel(d + '.dump', 'engine.adapters.c19', 'replay_histories')
    os.remove(d + '.dump')
    counts['hist_calls'] = sum(r['n'] for r in res)
    for r in res:
        ctx.traces_validated += r['n']
        ctx.evaluations += r['n']
        for k in r['keys']:
            ctx.nontrivial.add(tuple(k))
        if r['sample']:
            ctx.sample(r['sample'])
        for b in r['bad']:
            if b is not None:
                report(ctx, b)
    # code -> spec
    n = 1500 if ctx.quick else 20000
    cases = rand_cases(ctx.rng, n)
    recs = [r for chunk in dump.pmap('engine.adapters.c19', 'observe_chunk', cases) for r in chunk]
    rej = traces.validate(ctx, 'graders/SumGraderTrace.tla', 'graders/SumGraderTrace.cfg', [strip_private(r) for r in recs],
                          timeout=3000)
    ctx.evaluations += len(recs)
    byid = {r['id']: r for r in recs}
    for r in recs[:2]:
        ctx.sample({'trace_record': strip_private(r)})
    for i, allowed in rej.items():
        r = byid[i]
        obs, detail, kw, scripts, inputs = r['obs'], r['_detail'], None, None, None
        kw, scripts = grader_kwargs(r['aut'], r['cfg'], r['pos'])
        st = sum_text(r['stu'])
        inputs = [st[f] for f in r['pos']]
        sig = make_signature(r['aut'], r['stu'], r['cfg'], r['pos'], sorted(allowed), obs, detail, kw, scripts, inputs, 'trace')
        # the calls that went to graders before this one in the same worker (the objects are reused across calls)
        sig['earlier_calls_same_object'] = [sum_text(q['stu']) for q in recs if q['_g'] == r['_g'] and q['id'] < r['id']][-4:]
        report(ctx, sig)
    obs_hist = {}
    for r in recs:
        obs_hist[r['obs']] = obs_hist.get(r['obs'], 0) + 1
    vclasses = {}
    for sig, _what, _path in ctx.violations:
        vclasses[sig.get('class')] = vclasses.get(sig.get('class'), 0) + 1
    ctx.extra['violation_classes'] = vclasses
    ctx.extra['allowed_sets_reached'] = sorted(classes)
    ctx.extra['random_observed_classes'] = obs_hist
    ctx.extra['bounds'] = {'tier': ctx.tier, 'cases_per_part': counts, 'random_records': len(recs),
                           'random_limits': '[-40, 40], infinite limits with cutoffs 8..14, 1-3 samples'}
    ctx.assumptions += [
        'IntegralGrader is not exercised (scipy is absent)',
        'summands are restricted to the exactly summable family of SumGrader.tla (polynomial, (-1)^n, 2^-n, 2^n, 1/n! factors; '
        'Gaussian-rational coefficients; one sampled variable x, one instructor-only variable c); sample values are dyadic so '
        'that floating-point sums are exact; inside a relative band of 1/16 around the tolerance no verdict is predicted',
        'no prediction is made where the statement is silent: both limits the same infinity, a finite limit beyond the cutoff, an '
        'instructor-only variable used as summation variable by the student, empty author sum of a vector-valued summand, '
        'invalid variable names, wrong number of inputs, shape mismatches',
        'an integer limit written as an inexact quotient/product of decimals (0.3/0.1) may be refused as non-integer or taken '
        'for exactly that integer; any other treatment (truncation to the neighbour) is a violation',
        'ScriptedSampler hands out the scripted sample values in order (engine/fixtures.py)',
    ]


def replay(ctx, rec):
    sig = rec['signature']
    from engine import repo
    repo.activate()
    if 'history' in sig:
        holders = [{}, {}]
        obs = detail = None
        for call in sig['history']:
            obs, detail = call_grader(sig['graders'][call['grader'] - 1], sig['scripts'], call['inputs'], holders[call['grader'] - 1])
            print('grader %d %r -> %s %s' % (call['grader'], call['inputs'], obs, detail))
        print('allowed for the last call alone: %s' % sig['allowed'])
        return obs in sig['allowed']
    kw = dict(answers=sig['answers'], input_positions=sig['input_positions'], even_odd=sig['even_odd'],
              infty_val=sig['infty_val'], infty_val_fact=sig['infty_val_fact'], variables=sig['variables'],
              instructor_vars=sig['instructor_vars'], samples=sig['samples'])
    if sig['tolerance'] != 'default':
        kw['tolerance'] = sig['tolerance']
    if sig.get('user_fact'):
        kw['user_fact'] = True
    if sig.get('debug'):
        kw['debug'] = True
    if sig.get('user_constants'):
        kw['user_constants'] = sig['user_constants']
    if sig.get('suppress_warnings'):
        kw['suppress_warnings'] = True
    for k in ('blacklist', 'whitelist', 'required_functions', 'user_funcs'):
        if sig.get(k) is not None:
            kw[k] = sig[k]
    obs, detail = call_grader(kw, sig['scripts'], sig['inputs'])
    print('case:', {k: sig[k] for k in ('answers', 'input_positions', 'inputs', 'even_odd', 'tolerance')})
    print('allowed by the specification: %s; observed now: %s %s' % (sig['allowed'], obs, detail))
    return obs in sig['allowed']
