"""C04 -- a formula is marked correct exactly when enough samples agree within tolerance.

spec -> code: TLC enumerates every case of MC_Tolerance (scalar / complex / array / infinity cases for FormulaGrader,
              NumericalGrader and MatrixGrader, plus answer trees with value-preserving rewrites); the dump is
              replayed into the real graders with ScriptedSampler instances in sample_from, so that the sampled
              values are the ones the specification judged.
code -> spec: random, larger cases (1-8 samples, vectors up to 4, matrices up to 3x3, denser grids of values) and
              random rewrites of random positive answer trees under the library's own random sampling are run
              through the real graders, recorded as ndjson and judged by ToleranceTrace (Tolerance!JudgeForm).

Floating point: the oracle is exact.  Cases closer than ~0.5 % to the tolerance boundary are never produced (guard
band, decided by the specification); cases exactly on the boundary are replayed only when float_exact() shows that
every float operation involved is exact.
"""
import math
import os
from fractions import Fraction

from engine import dump, traces

LEVEL = 'model_checking'


# ------------------------------------------------------------------ spec values -> python / formula text
def frac(q):
    return Fraction(q[0], q[1])


def fnum(q):
    """correctly rounded float of a rational n/d (what the parser computes for 'n/d')"""
    return q[0] / q[1] if q[1] != 1 else float(q[0])


def entry_py(z):
    re, im = z
    if im[0] == 0:
        return fnum(re)
    return complex(fnum(re), fnum(im))


def value_py(v):
    """spec value -> float / complex / MathArray"""
    if v['inf']:
        return float('inf') * v['inf']
    ent = [entry_py(z) for z in v['ent']]
    shape = v['shape']
    if not shape:
        return ent[0]
    from mitxgraders.helpers.calc import MathArray
    if len(shape) == 1:
        return MathArray(ent)
    r, c = shape
    return MathArray([ent[i * c:(i + 1) * c] for i in range(r)])


def lit_q(q):
    n, d = q
    if d == 1:
        return str(n) if n >= 0 else '(%d)' % n
    return '(%d/%d)' % (n, d)


def lit_entry(z):
    re, im = z
    if im[0] == 0:
        return lit_q(re)
    return '(%s + %s*i)' % (lit_q(re), lit_q(im))


def lit_value(v):
    """formula text of a literal value"""
    if v['inf']:
        return 'infty' if v['inf'] > 0 else '(-infty)'
    ent = [lit_entry(z) for z in v['ent']]
    shape = v['shape']
    if not shape:
        return ent[0]
    if len(shape) == 1:
        return '[' + ', '.join(ent) + ']'
    r, c = shape
    return '[' + ', '.join('[' + ', '.join(ent[i * c:(i + 1) * c]) + ']' for i in range(r)) + ']'


def decimal_text(q):
    """exact decimal expansion of a rational with a terminating expansion (else repr of the float)"""
    n, d = q
    k, dd = 0, d
    while dd % 10 == 0:
        dd //= 10
        k += 1
    while dd % 2 == 0:
        dd //= 2
        k += 1
    while dd % 5 == 0:
        dd //= 5
        k += 1
    if dd != 1:
        return repr(n / d)
    digits = str(abs(n) * 10 ** k // d).rjust(k + 1, '0')
    text = digits[:len(digits) - k] + ('.' + digits[len(digits) - k:] if k else '')
    if '.' in text:
        text = text.rstrip('0').rstrip('.') or '0'
    return ('-' if n < 0 else '') + text


def sci_text(q):
    """the same number in scientific notation, mantissa exact: 0.004 -> 4e-3, 1000 -> 1e3"""
    text = decimal_text(q)
    if 'e' in text or text in ('0',):
        return text
    if '.' in text:
        whole, fr = text.split('.')
        digits = (whole + fr).lstrip('0')
        return '%se-%d' % (digits, len(fr))
    stripped = text.rstrip('0')
    return '%se%d' % (stripped, len(text) - len(stripped))


def tol_py(tol):
    """the 'tolerance' option as an author writes it.  tol['sp'] chooses among equivalent spellings."""
    n, d = tol['v']
    sp = tol.get('sp', 'default')
    if tol['kind'] == 'abs':
        if sp == 'default':
            return n if d == 1 else n / d
        if sp == 'int' and d == 1:
            return n
        return float(sci_text(tol['v'])) if sp == 'sci' else n / d
    if sp == 'default':
        return ('%d%%' % n) if d == 1 else ('%r%%' % (n / d))
    if sp == 'sci':
        return sci_text(tol['v']) + '%'
    text = decimal_text(tol['v'])
    if sp == 'padded':
        return '  ' + text + '%  '
    if sp == 'zeros':
        return '0' + (text + '0' if '.' in text else text + '.0') + '%'
    if sp == 'float' and '.' not in text and 'e' not in text:
        return text + '.0%'
    return text + '%'


def credit_py(q):
    return 1 if q == [1, 1] else q[0] / q[1]


def student_text(form, X, P):
    """X: text standing for the author's value (a variable name or a literal), P: text of the parameter"""
    if form == 'same':
        return X
    if form in ('add', 'addvar'):
        return '%s + %s' % (X, P)
    if form == 'mul':
        return '%s*(1 + %s)' % (X, P)
    if form == 'const':
        return P
    if form == 'neg':
        return '-%s' % X
    if form == 'abs':
        return 'abs(%s)' % X
    if form == 'sq':
        return '%s^2' % X
    if form in ('conj', 're', 'trans'):
        return '%s(%s)' % (form, X)
    if form == 'sgn':
        return 'abs(%s)/%s*%s' % (X, X, P)
    if form == 'times':
        return '%s*%s' % (P, X)
    if form == 'plus0':
        return '%s + 0*%s' % (P, X)
    raise ValueError(form)


ID_ANS = {'form': 'id', 'sp': 'lit'}


_SCRIPTED_FUNCTIONS = None


def scripted_functions_class():
    """Author-defined FunctionSamplingSet: hands out a different function object at every sample, f_i(t) = v_i * t for
    the scripted values v_i (cyclically), and records the values behind the functions it handed out."""
    global _SCRIPTED_FUNCTIONS
    if _SCRIPTED_FUNCTIONS is None:
        from voluptuous import Schema, Required
        from mitxgraders.sampling import FunctionSamplingSet

        class ScriptedFunctions(FunctionSamplingSet):
            schema_config = Schema({Required('script'): list})

            def __init__(self, config=None, **kwargs):
                super(ScriptedFunctions, self).__init__(config, **kwargs)
                self.draws = []

            def gen_sample(self):
                v = self.config['script'][len(self.draws) % len(self.config['script'])]
                self.draws.append(v)
                def linear(t):       # a closure, not a default argument: the library inspects the signature
                    return v * t
                return linear
        _SCRIPTED_FUNCTIONS = ScriptedFunctions
    return _SCRIPTED_FUNCTIONS


CARRIER_TEXT = {'id': 'x',            # a plain sampled variable
                'idf': 'f(1)',        # a user function drawn anew at every sample, f_i(t) = v_i * t
                'idn': 'a_{1}',       # an instance of the numbered variable a
                'idd': 'y',           # a dependent variable, y = 1*x
                'idm': '(one*x)'}     # a user constant times the variable
CARRIER_OF_TEXT = {v: k for k, v in CARRIER_TEXT.items()}


def carrier_text(ans):
    """how the formulas refer to the sampled value"""
    return CARRIER_TEXT.get(ans['form'], 'x')


def second_variable_text(ans):
    """the second scripted quantity of the 'addvar' form: another numbered instance when numbered variables carry"""
    return 'b_{2}' if ans['form'] == 'idn' else 'd'


def carrier_config(carrier, script, dscript=None):
    """the sampling part of a grader configuration for one carrier.  returns (config entries, sampler of the value,
    sampler of the second variable or None); both samplers record what they hand out"""
    from engine.fixtures import ScriptedSampler
    from mitxgraders.sampling import DependentSampler
    sd = ScriptedSampler(script=list(dscript)) if dscript is not None else None
    if carrier == 'idf':
        sx = scripted_functions_class()(script=list(script))
        cfg = {'variables': [], 'sample_from': {}, 'user_functions': {'f': sx}}
    elif carrier == 'idn':
        sx = ScriptedSampler(script=list(script))
        cfg = {'variables': [], 'numbered_vars': ['a'], 'sample_from': {'a': sx}}
        if sd is not None:
            cfg['numbered_vars'].append('b')
            cfg['sample_from']['b'] = sd
        return cfg, sx, sd
    else:
        sx = ScriptedSampler(script=list(script))
        cfg = {'variables': ['x'], 'sample_from': {'x': sx}}
        if carrier == 'idd':
            cfg['variables'].append('y')
            cfg['sample_from']['y'] = DependentSampler(depends=['x'], formula='1*x')
        elif carrier == 'idm':
            cfg['user_constants'] = {'one': 1}
    if sd is not None:
        cfg['variables'].append('d')
        cfg['sample_from']['d'] = sd
    return cfg, sx, sd


def answer_text(ans, X='x'):
    """the author's answer: the carrier of the sampled value, or a constant expression"""
    if ans['form'] in CARRIER_TEXT:
        return CARRIER_TEXT[ans['form']] if ans['form'] != 'id' else X
    lit = lit_value(ans['k'])
    return lit if ans.get('sp', 'lit') == 'lit' else '%s*pi/pi' % lit


def same_draws(draws, script):
    import numpy as np
    if len(draws) != len(script):
        return False
    for a, b in zip(draws, script):
        if not (np.shape(a) == np.shape(b) and np.array_equal(np.asarray(a), np.asarray(b))):
            return False
    return True


def classify(result, credit):
    """projection of a grader result: 'accept' (grade = the answer's credit), 'reject' (grade 0), else 'other:...'"""
    try:
        g = float(result['grade_decimal'])
    except Exception:
        return 'other:shape'
    if abs(g - credit) <= 1e-12 and credit > 0:
        return 'accept'
    if g == 0:
        return 'reject'
    return 'other:grade=%r' % g


_GRADERS = {}


def configured_grader(c, with_d):
    """One FormulaGrader / MatrixGrader per configuration and worker process, graded many times with fresh scripts
    (constructing a grader costs five times more than grading with it).  The sampling sets are author-defined
    ScriptedSampler instances: their script is replaced and their record of draws cleared before every call."""
    from engine.fixtures import ScriptedSampler
    from mitxgraders import FormulaGrader, MatrixGrader
    answer = answer_text(c.get('ans', ID_ANS))
    key = (c['grader'], c['tol']['kind'], tuple(c['tol']['v']), c['tol'].get('sp'), c['n'], c['failable'],
           tuple(c['credit']), c['part'] == 'inf', with_d, answer)
    hit = _GRADERS.get(key)
    if hit is None:
        ccfg, sx, sd = carrier_config(c.get('ans', ID_ANS)['form'], [1.0], [1.0] if with_d else None)
        cfg = dict(tolerance=tol_py(c['tol']), answers={'expect': answer, 'grade_decimal': credit_py(c['credit'])},
                   samples=c['n'], failable_evals=c['failable'])
        cfg.update(ccfg)
        if c['grader'] == 'M':
            cfg['max_array_dim'] = 2
            g = MatrixGrader(**cfg)
        else:
            if c['part'] == 'inf':
                cfg['allow_inf'] = True
            g = FormulaGrader(**cfg)
        if len(_GRADERS) > 400:
            _GRADERS.clear()
        hit = _GRADERS[key] = (g, sx, sd)
    return hit


def run_form_case(c):
    """Grade the student's formula of a form case with the real grader.
    returns (observation, draws_ok, answer text, student text)"""
    from mitxgraders import NumericalGrader
    form, par = c['fp']['form'], c['fp']['par']
    credit = credit_py(c['credit'])
    samplers = []
    if c['grader'] == 'N':
        X = lit_value(c['xs'][0])
        answer = X
        student = student_text(form, X, lit_value(par[0]))
        cfg = dict(tolerance=tol_py(c['tol']), answers={'expect': answer, 'grade_decimal': credit})
        if c['part'] == 'inf':
            cfg['allow_inf'] = True
        g = NumericalGrader(**cfg)
    else:
        answer = answer_text(c.get('ans', ID_ANS))
        g, sx, sd = configured_grader(c, form == 'addvar')
        script = [value_py(v) for v in c['xs']]
        sx.config['script'] = script
        sx.draws = []
        samplers.append((sx, script))
        if form == 'addvar':
            dscript = [value_py(v) for v in par]
            sd.config['script'] = dscript
            sd.draws = []
            samplers.append((sd, dscript))
            P = second_variable_text(c.get('ans', ID_ANS))
        else:
            P = lit_value(par[0])
        student = student_text(form, carrier_text(c.get('ans', ID_ANS)), P)
    try:
        res = g(None, student)
        obs = classify(res, credit)
    except Exception as e:  # no exception is an allowed outcome for these well-formed inputs
        obs = 'raise:%s' % type(e).__name__
    draws_ok = all(same_draws(s.draws, script) for s, script in samplers)
    return obs, draws_ok, answer, student


# ------------------------------------------------------------------ exactness of boundary cases in binary floating point
def exact_entry(z):
    return (frac(z[0]), frac(z[1]))


def exact_student(form, x, p):
    """x, p: lists of (re, im) Fraction pairs (row-major); exact student entries.  Only used to decide whether a
    boundary case is safe to replay in floating point, never for a verdict."""
    if form == 'same':
        return list(x)
    if form in ('add', 'addvar'):
        return [(a[0] + b[0], a[1] + b[1]) for a, b in zip(x, p)]
    if form == 'mul':
        k = 1 + p[0][0]
        return [(k * a[0], k * a[1]) for a in x]
    if form == 'const':
        return list(p)
    if form == 'neg':
        return [(-a[0], -a[1]) for a in x]
    if form == 'abs':
        return [(abs(x[0][0]), Fraction(0))]
    if form == 'sq':
        a, b = x[0]
        return [(a * a - b * b, 2 * a * b)]
    if form == 'conj':
        return [(a[0], -a[1]) for a in x]
    if form == 're':
        return [(a[0], Fraction(0)) for a in x]
    if form == 'sgn':
        sg = 1 if x[0][0] > 0 else -1
        return [(sg * a[0], sg * a[1]) for a in p]
    if form == 'times':
        return [(p[0][0] * a[0], p[0][0] * a[1]) for a in x]
    if form == 'plus0':
        return list(p)
    raise ValueError(form)


def is_float(q):
    """q (Fraction) is exactly a double with room to spare (<= 40 significant bits)"""
    try:
        f = float(q)
    except OverflowError:
        return False
    return Fraction(f) == q and (q == 0 or abs(q.numerator).bit_length() <= 40)


def sqrt_exact(q):
    """exact square root of a non-negative Fraction, or None"""
    n, d = q.numerator, q.denominator
    rn, rd = math.isqrt(n), math.isqrt(d)
    if rn * rn == n and rd * rd == d:
        return Fraction(rn, rd)
    return None


def float_exact(c):
    """True iff grading this case involves no rounding at all: every sampled value, parameter, student value,
    difference, norm and tolerance radius is a short binary fraction.  (Shapes 'trans' never produce a boundary
    case that is not also exact, transposition only moves entries.)"""
    form, par, tol = c['fp']['form'], c['fp']['par'], c['tol']
    t = frac(tol['v'])
    if tol['kind'] == 'pct':
        r = t / 100
        text = tol_py(tol)
        if not is_float(r) or Fraction(float(text.strip()[:-1]) * 0.01) != r:
            return False
    elif not is_float(t):
        return False
    for v, p in zip(c['xs'], par):
        if v['inf'] or p['inf']:
            continue
        x = [exact_entry(z) for z in v['ent']]
        pe = [exact_entry(z) for z in p['ent']]
        if form == 'trans':
            rws, cls = v['shape']
            s = [x[j * cls + i] for i in range(cls) for j in range(rws)]
        else:
            s = exact_student(form, x, pe)
        nums = [q for z in x + pe + s for q in z]
        ans = c.get('ans', ID_ANS)
        e = x if ans['form'] == 'id' else [exact_entry(z) for z in ans['k']['ent']]
        nums += [q for z in e for q in z]
        diff = [(a[0] - b[0], a[1] - b[1]) for a, b in zip(e, s)]
        nums += [q for z in diff for q in z]
        d2 = sum(z[0] * z[0] + z[1] * z[1] for z in diff)
        e2 = sum(z[0] * z[0] + z[1] * z[1] for z in e)
        dn = sqrt_exact(d2)
        if dn is None:
            return False
        nums += [dn, d2]
        if tol['kind'] == 'pct':
            en = sqrt_exact(e2)
            if en is None:
                return False
            nums += [en, e2, en * (t / 100)]
        if not all(is_float(q) for q in nums):
            return False
    return True


# ------------------------------------------------------------------ expression trees
def render(t, style='tight'):
    """tree -> formula text.  'parens': every compound subexpression parenthesised; 'tight'/'spaced': usual
    precedence, without / with blanks around binary operators."""
    sp = ' ' if style == 'spaced' else ''

    def atom(u):
        return u['op'] in ('var', 'num')

    def go(u, ctx):
        # ctx: precedence required by the parent (0 none, 1 additive right / multiplicative, 2 power base / unary)
        op = u['op']
        if op == 'var':
            return u['name']
        if op == 'num':
            return lit_q(u['v'])
        if style == 'parens':
            if op in ('add', 'sub', 'mul'):
                sym = {'add': '+', 'sub': '-', 'mul': '*'}[op]
                return '(' + go(u['a'], 0) + sym + go(u['b'], 0) + ')'
            if op == 'neg':
                return '(-' + go(u['a'], 0) + ')'
            return '(' + go(u['a'], 0) + '^2)'
        if op in ('add', 'sub'):
            sym = '+' if op == 'add' else '-'
            s = go(u['a'], 0) + sp + sym + sp + go(u['b'], 1)
            return '(' + s + ')' if ctx >= 1 else s
        if op == 'mul':
            s = go(u['a'], 1) + sp + '*' + sp + go(u['b'], 2)
            return '(' + s + ')' if ctx >= 2 else s
        if op == 'neg':
            return '(-' + go(u['a'], 2) + ')'
        if op == 'sq':
            return go(u['a'], 2) + '^2'
        raise ValueError(op)

    def fix(u, ctx):
        return go(u, ctx)
    return fix(t, 0)


def wrap_dev(text, form, par_q):
    if form == 'same':
        return text
    if form == 'add':
        return '(%s) + %s' % (text, lit_q(par_q))
    if form == 'mul':
        return '(%s)*(1 + %s)' % (text, lit_q(par_q))
    raise ValueError(form)


def run_rw_case(c, stree):
    from engine.fixtures import ScriptedSampler
    from mitxgraders import FormulaGrader
    credit = credit_py(c['credit'])
    xs = [fnum(e['x']) for e in c['envs']]
    ys = [fnum(e['y']) for e in c['envs']]
    sx, sy = ScriptedSampler(script=xs), ScriptedSampler(script=ys)
    answer = render(c['tree'], 'tight')
    student = wrap_dev(render(stree, c['style']), c['dev']['form'], c['dev']['par']['ent'][0][0])
    g = FormulaGrader(answers={'expect': answer, 'grade_decimal': credit}, variables=['x', 'y'],
                      sample_from={'x': sx, 'y': sy}, samples=c['n'], failable_evals=c['failable'],
                      tolerance=tol_py(c['tol']))
    try:
        obs = classify(g(None, student), credit)
    except Exception as e:
        obs = 'raise:%s' % type(e).__name__
    return obs, same_draws(sx.draws, xs) and same_draws(sy.draws, ys), answer, student


# ------------------------------------------------------------------ spec -> code replay
def replay_states(states, extra):
    from engine import repo
    repo.activate()
    n = skipped_edge = draws_bad = 0
    keys = set()
    bad = []
    sample = None
    for st in states:
        c = st['c']
        if c['kind'] == 'seed':
            continue
        out = st['out']
        if c['part'] == 'rw':
            obs, draws_ok, answer, student = run_rw_case(c, out['marg'][0])
            key = ('rw', c['rw']['rule'], c['dev']['form'], c['tol']['kind'], tuple(out['allowed']))
        else:
            if out['edges'] and not float_exact(c):
                skipped_edge += 1
                continue
            obs, draws_ok, answer, student = run_form_case(c)
            key = (c['part'], c['grader'], c['fp']['form'], c['tol']['kind'], c['tol']['v'][0] == 0, c['n'],
                   min(c['failable'], c['n']), out['fails'], tuple(out['allowed']), out['edges'])
        n += 1
        keys.add(key)
        if not draws_ok:
            draws_bad += 1
        if sample is None and n > 3:
            sample = {'case': compact(c), 'answer': answer, 'student': student, 'allowed': out['allowed'], 'observed': obs}
        if obs not in out['allowed']:
            b = {'case': c, 'out': {k: out[k] for k in ('allowed', 'fails', 'edges')}, 'observed': obs, 'answer': answer,
                 'student': student, 'draws_ok': draws_ok,
                 'marg': out['marg'] if c['part'] != 'rw' else None}
            bad.append(b if len(bad) < 100 else None)
    return {'n': n, 'keys': sorted(keys), 'bad': bad, 'sample': sample, 'skipped_edge': skipped_edge,
            'draws_bad': draws_bad}


def compact(c):
    """short JSON-able description of a case for evidence / signatures"""
    d = {'part': c['part'], 'grader': {'F': 'FormulaGrader', 'N': 'NumericalGrader', 'M': 'MatrixGrader'}[c['grader']],
         'tolerance': tol_py(c['tol']), 'samples': c['n'], 'failable_evals': c['failable'],
         'credit': credit_py(c['credit'])}
    if c['part'] == 'rw':
        d.update(rule=c['rw']['rule'], pos=c['rw']['pos'], style=c['style'],
                 samples_xy=[[lit_q(e['x']), lit_q(e['y'])] for e in c['envs']])
    else:
        d.update(form=c['fp']['form'] if 'fp' in c else c['form'],
                 sampled=[lit_value(v) for v in c['xs']],
                 params=[lit_value(v) for v in (c['fp']['par'] if 'fp' in c else c['par'])])
    return d


def violation_class(c, allowed, observed, margins=None):
    """stable coarse class of a disagreement"""
    if observed.startswith('raise:'):
        return 'tolerance-check-raises'
    if observed.startswith('other:'):
        return 'credit-not-answer-credit'
    kind = 'percentage' if c['tol']['kind'] == 'pct' else 'absolute'
    if c.get('ans', ID_ANS)['form'] == 'const':
        kind = 'constant-answer-' + kind
    carrier = c.get('ans', ID_ANS)['form']
    if carrier in CARRIER_TEXT and carrier != 'id':
        kind = {'idf': 'sampled-function-', 'idn': 'numbered-variable-', 'idd': 'dependent-variable-',
                'idm': 'constant-variable-mix-'}[carrier] + kind
    if c['part'] == 'inf' or any(v.get('inf') for v in c.get('xs', [])):
        return 'infinity-comparison'
    if margins and 'edge' in margins or margins and 'edge0' in margins:
        return 'boundary-%s-tolerance-%s' % (kind, 'rejected' if observed == 'reject' else 'accepted')
    return '%s-tolerance-%s-but-spec-%s' % (kind, observed, '/'.join(allowed))


def report_bad(ctx, b, source):
    c = b['case']
    sig = compact(c)
    sig.update(answer=b['answer'], student=b['student'], allowed=b['out']['allowed'], observed=b['observed'],
               failing_samples_expected=b['out'].get('fails'), source=source, draws_match_script=b['draws_ok'])
    sig['class'] = violation_class(c, b['out']['allowed'], b['observed'], b.get('marg'))
    ctx.violation(sig, '%s(answers=%r, tolerance=%r, samples=%s, failable_evals=%s) on %r with samples %s: '
                       'specification allows %s (%s samples out of tolerance), grader gave %s' % (
                           sig['grader'], b['answer'], sig['tolerance'], sig['samples'], sig['failable_evals'],
                           b['student'], sig.get('sampled', sig.get('samples_xy')), '/'.join(b['out']['allowed']),
                           b['out'].get('fails'), b['observed']))


# ------------------------------------------------------------------ code -> spec: random driver
def rq(fr):
    fr = Fraction(fr)
    return [fr.numerator, fr.denominator]


def val(shape, entries):
    """entries: list of (re, im) Fractions"""
    return {'inf': 0, 'shape': list(shape), 'ent': [[rq(a), rq(b)] for a, b in entries]}


def rand_entries(rng, k, scale, kmax, cx):
    out = []
    for _ in range(k):
        re = Fraction(rng.randint(-kmax, kmax), scale)
        im = Fraction(rng.randint(-kmax, kmax), scale) if cx and rng.random() < 0.7 else Fraction(0)
        out.append((re, im))
    return out


ABS_TOLS = [Fraction(0), Fraction(1, 100), Fraction(1, 10), Fraction(1, 4), Fraction(1, 2), Fraction(1), Fraction(5, 4),
            Fraction(3)]
PCT_TOLS = [Fraction(0), Fraction(1), Fraction(5), Fraction(10), Fraction(25), Fraction(50), Fraction(100), Fraction(200)]
FACTORS = [Fraction(0), Fraction(3, 10), Fraction(9, 10), Fraction(49, 50), Fraction(1), Fraction(51, 50),
           Fraction(11, 10), Fraction(3), Fraction(10)]


def snap(q, den, nmax):
    """nearest multiple of 1/den, numerator clipped"""
    n = int(round(q * den))
    n = max(-nmax, min(nmax, n))
    return Fraction(n, den)


def rand_verdict_case(rng, i):
    """One random scripted case.  Magnitudes are bounded so that the exact oracle stays inside 32-bit integers
    (values k/S with |k| <= 200, S <= 20; deviations m/S' with |m| <= 400, S' <= 200; squared mode: p >= 1 %)."""
    n = rng.randint(1, 8)
    failable = rng.choice([0, 0, 1, 1, 2, 3, max(n - 1, 0), n, 8])
    credit = rng.choice([Fraction(1), Fraction(1), Fraction(1, 2), Fraction(1, 4), Fraction(3, 4)])
    kind = rng.choice(['real', 'real', 'cx', 'vec', 'mat'])
    if kind in ('real', 'cx'):
        shape, k = (), 1
        grader = rng.choice(['F', 'F', 'M', 'N'])
    else:
        grader = 'M'
        if kind == 'vec':
            k = rng.randint(2, 4)
            shape = (k,)
        else:
            shape = rng.choice([(2, 2), (2, 3), (3, 3), (3, 2)])
            k = shape[0] * shape[1]
    if grader == 'N':
        n, failable = 1, 0
    cx = kind == 'cx' or (kind in ('vec', 'mat') and rng.random() < 0.2)
    dyadic = rng.random() < 0.3            # short binary fractions everywhere: boundary cases become replayable
    scale = rng.choice([1, 2, 4, 8, 16]) if dyadic else rng.choice([1, 2, 4, 5, 8, 10, 16, 20])
    kmax = rng.choice([8, 40, 200]) if kind == 'real' else rng.choice([6, 20, 60])
    tkind = rng.choice(['abs', 'pct'])
    linear = kind == 'real'
    if tkind == 'abs':
        t = rng.choice([Fraction(0), Fraction(1, 4), Fraction(1, 2), Fraction(1), Fraction(5, 4), Fraction(3)] if dyadic
                       else ABS_TOLS)
    else:
        t = rng.choice([Fraction(0), Fraction(25, 2), Fraction(25), Fraction(50), Fraction(100), Fraction(200)] if dyadic
                       else PCT_TOLS + ([Fraction(1, 100), Fraction(1, 10)] if linear else []))
    forms = ['add', 'add', 'addvar', 'addvar', 'mul', 'neg', 'const', 'same']
    if kind == 'real':
        forms += ['abs', 'sq', 'conj']
    if kind == 'cx':
        forms += ['sq', 'conj', 're']
    if kind == 'mat' and shape[0] == shape[1]:
        forms += ['trans', 'conj']
    form = rng.choice(forms)
    if grader == 'N' and form == 'addvar':
        form = 'add'
    if form == 'sq':
        kmax, scale = min(kmax, 12), min(scale, 4)
    xs = []
    for _ in range(n):
        ent = rand_entries(rng, k, scale, kmax, cx)
        if rng.random() < 0.08:
            ent = [(Fraction(0), Fraction(0))] * k
        if form == 'trans' and rng.random() < 0.5:          # symmetric at some samples
            r = shape[0]
            ent = [ent[min(a, b) * r + max(a, b)] for a in range(r) for b in range(r)]
        if form in ('conj', 're') and rng.random() < 0.5:   # real at some samples
            ent = [(a, Fraction(0)) for a, _ in ent]
        if form == 'abs' and rng.random() < 0.5:
            ent = [(abs(a), b) for a, b in ent]
        xs.append(ent)

    def radius(ent):   # float estimate of the tolerance radius, for aiming deviations only
        if tkind == 'abs':
            return float(t)
        return float(t) / 100 * math.sqrt(sum(float(a) ** 2 + float(b) ** 2 for a, b in ent))

    zero = [(Fraction(0), Fraction(0))] * k
    par = []
    if form in ('add', 'addvar', 'const'):
        def deviation(ent):
            rad = radius(ent)
            f = rng.choice(FACTORS + ([Fraction(1)] * 4 if dyadic else []))
            if rad == 0:
                rad, f = 1.0, rng.choice([Fraction(0), Fraction(1, 2)])
            if form == 'const' and not linear:
                den = scale                      # keeps |x - const|^2 inside 32-bit integers
            elif dyadic:
                den = rng.choice([16, 64, 128])
            else:
                den = rng.choice([20, 100, 200]) if rad * float(f) < 2 else rng.choice([1, 2, 10])
            # direction: a random vector, normalised in float, then snapped to the grid
            u = [(rng.gauss(0, 1), rng.gauss(0, 1) if cx else 0.0) for _ in range(k)]
            if rng.random() < 0.3:      # one entry only
                j = rng.randrange(k)
                u = [(a, b) if idx == j else (0.0, 0.0) for idx, (a, b) in enumerate(u)]
            nu = math.sqrt(sum(a * a + b * b for a, b in u)) or 1.0
            return [(snap(Fraction(a / nu * rad) * f, den, 400), snap(Fraction(b / nu * rad) * f, den, 400)) for a, b in u]
        if form == 'addvar':
            par = [deviation(ent) if rng.random() < 0.7 else zero for ent in xs]
        else:
            dv = deviation(rng.choice(xs))
            if form == 'const':
                base = rng.choice(xs)
                dv = [(a[0] + b[0], a[1] + b[1]) for a, b in zip(base, dv)]
            par = [dv] * n
    elif form == 'mul':
        if tkind == 'pct':
            fs = FACTORS if linear else [Fraction(0), Fraction(1, 2), Fraction(1), Fraction(2), Fraction(10)]
            eps = t / 100 * rng.choice(fs) * rng.choice([1, -1])
        else:
            eps = rng.choice([Fraction(0), Fraction(1, 100), Fraction(1, 20), Fraction(-1, 10), Fraction(1, 4),
                              Fraction(1, 2), Fraction(-2), Fraction(1)])
        if eps.denominator > (10000 if linear else 200) or abs(eps.numerator) > 50:
            eps = Fraction(1, 100)
        par = [[(eps, Fraction(0))]] * n
    else:
        par = [zero if form != 'abs' else [(Fraction(0), Fraction(0))]] * n
    if form in ('add', 'addvar', 'const'):
        pshape = shape
    else:
        pshape = ()
        par = [p[:1] for p in par]
    rec = {'id': i, 'kind': 'verdict', 'grader': grader, 'part': 'trace', 'tol': {'kind': tkind, 'v': rq(t)}, 'n': n,
           'ans': id_ans(),
           'failable': failable, 'credit': rq(credit), 'xs': [val(shape, e) for e in xs], 'form': form,
           'par': [val(pshape, p) for p in par]}
    if grader != 'N' and rng.random() < 0.25:      # another carrier of the sampled value than a plain variable
        rec['ans']['form'] = rng.choice(['idf', 'idn', 'idd', 'idm'])
    return rec


def id_ans():
    return {'form': 'id', 'k': val((), [(Fraction(0), Fraction(0))]), 'sp': 'lit'}


def rand_credit_failable(rng, n):
    return (rng.choice([Fraction(1), Fraction(1), Fraction(1, 2), Fraction(1, 4), Fraction(3, 4)]),
            rng.choice([0, 0, 1, 1, 2, 3, max(n - 1, 0), n, 8]))


FINE_FACTORS = [Fraction(0), Fraction(1, 2), Fraction(4, 5), Fraction(9, 10), Fraction(11, 10), Fraction(6, 5), Fraction(2)]


def rand_fine_case(rng, i):
    """Tolerances with 3-5 decimals, very large ones and odd spellings; deviations are multiples of the tolerance.
    Real scalars in all three graders (x small so that x*(1+eps) stays inside 32-bit integers), arrays in MatrixGrader
    with x*(1+eps) under a percentage tolerance (judged through scale invariance)."""
    grader = rng.choice(['F', 'F', 'M', 'N'])
    n = 1 if grader == 'N' else rng.randint(1, 6)
    credit, failable = rand_credit_failable(rng, n)
    if grader == 'N':
        failable = 0
    tkind = rng.choice(['pct', 'pct', 'abs'])
    if tkind == 'pct':
        t = rng.choice([Fraction(rng.randint(1, 200), 10 ** rng.choice([3, 4])), Fraction(rng.randint(150, 5000)),
                        Fraction(rng.randint(1, 999), 1000) + rng.randint(0, 30)])
        sp = rng.choice(['plain', 'sci', 'padded', 'zeros'])
        r = t / 100
    else:
        t = rng.choice([Fraction(rng.randint(1, 200), 10 ** rng.choice([3, 4, 5])), Fraction(rng.randint(100, 5000))])
        sp = rng.choice(['plain', 'sci'] + (['int'] if t.denominator == 1 else []))
    sign = lambda: rng.choice([1, -1])
    zero = (Fraction(0), Fraction(0))
    if grader == 'M' and tkind == 'pct' and rng.random() < 0.5:
        shape = rng.choice([(2,), (3,), (2, 2)])
        k = shape[0] * (shape[1] if len(shape) == 2 else 1)
        xs = [[(Fraction(rng.randint(-9, 9), rng.choice([1, 2])), Fraction(0)) for _ in range(k)] for _ in range(n)]
        for ent in xs:
            if all(a == 0 for a, _ in ent):
                ent[0] = (Fraction(1), Fraction(0))
        form, pshape = 'mul', ()
        eps = r * rng.choice(FINE_FACTORS) * sign()
        par = [[(eps, Fraction(0))]] * n
    else:
        shape, pshape = (), ()
        xs = [[(Fraction(rng.choice([a for a in range(-20, 21) if a]), rng.choice([1, 2, 4, 5])), Fraction(0))] for _ in range(n)]
        if tkind == 'pct':
            form = rng.choice(['mul', 'addvar']) if grader != 'N' else rng.choice(['mul', 'add'])
            if form == 'mul':
                par = [[(r * rng.choice(FINE_FACTORS) * sign(), Fraction(0))]] * n
            else:
                par = [[(r * abs(x[0][0]) * rng.choice(FINE_FACTORS) * sign(), Fraction(0))] for x in xs]
        else:
            form = rng.choice(['add', 'addvar']) if grader != 'N' else 'add'
            if form == 'add':
                par = [[(t * rng.choice(FINE_FACTORS) * sign(), Fraction(0))]] * n
            else:
                par = [[(t * rng.choice(FINE_FACTORS) * sign(), Fraction(0))] for _ in xs]
    return {'id': i, 'kind': 'verdict', 'grader': grader, 'part': 'trace', 'tol': {'kind': tkind, 'v': rq(t), 'sp': sp},
            'n': n, 'ans': id_ans(), 'failable': failable, 'credit': rq(credit), 'xs': [val(shape, e) for e in xs],
            'form': form, 'par': [val(pshape, p) for p in par]}


def rand_cans_case(rng, i):
    """The author's answer is a constant while the grader has a variable: the student's formula uses the variable
    and agrees with the constant at some of the scripted samples only."""
    grader = rng.choice(['F', 'F', 'M'])
    n = rng.randint(2, 8)
    credit, failable = rand_credit_failable(rng, n)
    k = rng.choice([Fraction(2), Fraction(-1, 2), Fraction(3), Fraction(5, 4), Fraction(-3), Fraction(1, 4)])
    pow2 = abs(k).numerator == 1 or abs(k).denominator == 1 and abs(k).numerator & (abs(k).numerator - 1) == 0
    sp = rng.choice(['lit', 'pi']) if pow2 else 'lit'
    tkind = rng.choice(['abs', 'pct'])
    t = rng.choice([Fraction(0), Fraction(1, 10), Fraction(1, 2)] if tkind == 'abs'
                   else [Fraction(0), Fraction(1, 100), Fraction(10), Fraction(50)])
    form = rng.choice(['sgn', 'sgn', 'times', 'plus0', 'const', 'same', 'abs', 'neg'])
    pool = [k, -k, Fraction(1), Fraction(-1), abs(k), Fraction(rng.choice([a for a in range(-12, 13) if a]), rng.choice([1, 2, 4]))]
    xs = [[(rng.choice(pool), Fraction(0))] for _ in range(n)]
    p = k
    if form == 'const' and rng.random() < 0.5:
        p = k + rng.choice([Fraction(1, 20), Fraction(-1, 4), Fraction(1)])
    if form not in ('sgn', 'times', 'plus0', 'const'):
        p = Fraction(0)
    return {'id': i, 'kind': 'verdict', 'grader': grader, 'part': 'trace', 'tol': {'kind': tkind, 'v': rq(t)}, 'n': n,
            'ans': {'form': 'const', 'k': val((), [(k, Fraction(0))]), 'sp': sp}, 'failable': failable,
            'credit': rq(credit), 'xs': [val((), e) for e in xs], 'form': form,
            'par': [val((), [(p, Fraction(0))])] * n}


def as_case(rec):
    """trace record -> the case layout used by run_form_case / float_exact"""
    c = dict(rec)
    c['fp'] = {'form': rec['form'], 'par': rec['par']}
    return c


def V(nm):
    return {'op': 'var', 'name': nm}


def NUM(q):
    return {'op': 'num', 'v': rq(q)}


def B(op, a, b):
    return {'op': op, 'a': a, 'b': b}


def rand_pos_tree(rng, depth):
    r = rng.random()
    if depth == 0 or r < 0.25:
        if rng.random() < 0.7:
            return V(rng.choice(['x', 'y', 'z']))
        return NUM(rng.choice([Fraction(1), Fraction(2), Fraction(3), Fraction(1, 2), Fraction(5, 4), Fraction(7)]))
    if r < 0.6:
        return B('add', rand_pos_tree(rng, depth - 1), rand_pos_tree(rng, depth - 1))
    if r < 0.92:
        return B('mul', rand_pos_tree(rng, depth - 1), rand_pos_tree(rng, depth - 1))
    return {'op': 'sq', 'a': rand_pos_tree(rng, 0)}


def py_rewrite_once(rng, t):
    """apply one value-preserving rule somewhere in the tree (the trace specification re-checks equivalence)"""
    import copy
    t = copy.deepcopy(t)
    nodes = []

    def walk(u, parent, key):
        nodes.append((u, parent, key))
        for k in ('a', 'b'):
            if k in u:
                walk(u[k], u, k)
    walk(t, None, None)
    rng.shuffle(nodes)
    for u, parent, key in nodes:
        opts = ['addzeroR', 'addzeroL', 'muloneR', 'muloneL']
        if u['op'] in ('add', 'mul'):
            opts += ['commute'] * 3
            if u['a']['op'] == u['op']:
                opts += ['assoc'] * 2
        if u['op'] == 'mul' and u['b']['op'] == 'add':
            opts += ['distL'] * 4
        if u['op'] == 'mul' and u['a']['op'] == 'add':
            opts += ['distR'] * 4
        if u['op'] == 'sq':
            opts += ['sqmul'] * 3
        rule = rng.choice(opts)
        if rule == 'commute':
            new = B(u['op'], u['b'], u['a'])
        elif rule == 'assoc':
            new = B(u['op'], u['a']['a'], B(u['op'], u['a']['b'], u['b']))
        elif rule == 'distL':
            new = B('add', B('mul', u['a'], u['b']['a']), B('mul', copy.deepcopy(u['a']), u['b']['b']))
        elif rule == 'distR':
            new = B('add', B('mul', u['a']['a'], u['b']), B('mul', u['a']['b'], copy.deepcopy(u['b'])))
        elif rule == 'sqmul':
            new = B('mul', u['a'], copy.deepcopy(u['a']))
        elif rule == 'addzeroR':
            new = B('add', u, NUM(0))
        elif rule == 'addzeroL':
            new = B('add', NUM(0), u)
        elif rule == 'muloneR':
            new = B('mul', u, NUM(1))
        else:
            new = B('mul', NUM(1), u)
        if parent is None:
            return new, rule
        parent[key] = new
        return t, rule
    return t, 'none'


def rand_rewrite_case(rng, i):
    tree = rand_pos_tree(rng, rng.choice([1, 2, 2, 3]))
    stree, rules = tree, []
    for _ in range(rng.randint(1, 4)):
        stree, rule = py_rewrite_once(rng, stree)
        rules.append(rule)
    n = rng.randint(1, 6)
    failable = rng.choice([0, 0, 1, 2, 3])
    credit = rng.choice([Fraction(1), Fraction(1), Fraction(1, 2)])
    if rng.random() < 0.6:
        tol = {'kind': 'pct', 'v': rq(rng.choice([Fraction(1, 100), Fraction(1, 100), Fraction(1), Fraction(5)]))}
        r = frac(tol['v']) / 100
        dev = rng.choice([('same', Fraction(0)), ('mul', r / 10), ('mul', r * 10), ('mul', -r * 10), ('mul', r / 2),
                          ('mul', r * 2)])
    else:
        tol = {'kind': 'abs', 'v': rq(rng.choice([Fraction(1, 100), Fraction(1, 10), Fraction(1)]))}
        t = frac(tol['v'])
        dev = rng.choice([('same', Fraction(0)), ('add', t / 10), ('add', t * 10), ('add', -t * 10), ('add', t / 2),
                          ('add', t * 2)])
    style = rng.choice(['tight', 'spaced', 'parens'])
    return {'id': i, 'kind': 'rewrite', 'tol': tol, 'n': n, 'failable': failable, 'credit': rq(credit), 'tree': tree,
            'stree': stree, 'dev': {'form': dev[0], 'par': rq(dev[1])}, 'style': style, 'rules': rules}


def observe_chunk(cases, extra):
    """run the real graders on random cases; returns the trace records"""
    from engine import repo
    repo.activate()
    import random as pyrandom
    import numpy as np
    from mitxgraders import FormulaGrader
    recs = []
    for rec in cases:
        rec = dict(rec)
        if rec['kind'] == 'verdict':
            c = as_case(rec)
            rec['exact'] = bool(float_exact(c))
            obs, draws_ok, answer, student = run_form_case(c)
            rec.update(obs=obs, draws_ok=draws_ok, answer=answer, student=student)
        else:
            seed = (extra or 0) * 1000003 + rec['id']
            pyrandom.seed(seed)
            np.random.seed(seed % (2 ** 32))
            credit = credit_py(rec['credit'])
            answer = render(rec['tree'], 'tight')
            student = wrap_dev(render(rec['stree'], rec['style']), rec['dev']['form'], rec['dev']['par'])
            g = FormulaGrader(answers={'expect': answer, 'grade_decimal': credit}, variables=['x', 'y', 'z'],
                              samples=rec['n'], failable_evals=rec['failable'], tolerance=tol_py(rec['tol']))
            try:
                obs = classify(g(None, student), credit)
            except Exception as e:
                obs = 'raise:%s' % type(e).__name__
            rec.update(obs=obs, draws_ok=True, answer=answer, student=student)
        recs.append(rec)
    return recs


TRACE_FIELDS = {'verdict': ('id', 'kind', 'grader', 'tol', 'n', 'failable', 'credit', 'ans', 'xs', 'form', 'par', 'exact', 'obs'),
                'rewrite': ('id', 'kind', 'tol', 'n', 'failable', 'credit', 'tree', 'stree', 'dev', 'obs')}


def trace_line(rec):
    return {k: rec[k] for k in TRACE_FIELDS[rec['kind']]}


def trace_signature(rec, clause):
    if rec['kind'] == 'verdict':
        sig = compact(as_case(rec))
    else:
        sig = {'part': 'rewrite-random-sampling', 'grader': 'FormulaGrader', 'tolerance': tol_py(rec['tol']),
               'samples': rec['n'], 'failable_evals': rec['failable'], 'credit': credit_py(rec['credit']),
               'rules': rec['rules'], 'deviation': [rec['dev']['form'], lit_q(rec['dev']['par'])]}
    allowed = {'allowed-accept': ['accept'], 'allowed-reject': ['reject'], 'allowed-both': ['accept', 'reject']}[clause]
    sig.update(answer=rec['answer'], student=rec['student'], allowed=allowed, observed=rec['obs'], source='trace',
               draws_match_script=rec['draws_ok'])
    c = as_case(rec) if rec['kind'] == 'verdict' else {'tol': rec['tol'], 'part': 'rw'}
    sig['class'] = violation_class(c, allowed, rec['obs'])
    return sig


# ------------------------------------------------------------------ entry point
def run(ctx):
    from engine.main import Machinery
    skipped_edge = draws_bad = 0
    for part in ('forms', 'rw'):
        d = os.path.join(ctx.scratch, 'cases_' + part)
        ctx.tlc('arrays/MC_Tolerance.tla', 'arrays/MC_Tolerance_%s_%s.cfg' % (part, ctx.tier), dump=d, timeout=5400)
        res = dump.parallel(d + '.dump', 'engine.adapters.c04', 'replay_states')
        os.remove(d + '.dump')
        for r in res:
            ctx.traces_validated += r['n']
            ctx.evaluations += r['n']
            skipped_edge += r['skipped_edge']
            draws_bad += r['draws_bad']
            for k in r['keys']:
                ctx.nontrivial.add(repr(k))
            if r['sample']:
                ctx.sample(r['sample'])
            for b in r['bad']:
                if b is not None:
                    report_bad(ctx, b, 'replay')
    # code -> spec
    nv, nr = (2500, 1200) if ctx.quick else (20000, 6000)
    cases = [rand_verdict_case(ctx.rng, i) if i % 5 < 3 else rand_fine_case(ctx.rng, i) if i % 5 == 3
             else rand_cans_case(ctx.rng, i) for i in range(nv)]
    cases += [rand_rewrite_case(ctx.rng, nv + i) for i in range(nr)]
    recs = [r for chunk in dump.pmap('engine.adapters.c04', 'observe_chunk', cases, extra=ctx.seed) for r in chunk]
    draws_bad += sum(1 for r in recs if not r['draws_ok'])
    ctx.evaluations += len(recs)
    byid = {r['id']: r for r in recs}
    rej = {}
    step = 12000
    for k in range(0, len(recs), step):
        rej.update(traces.validate(ctx, 'arrays/ToleranceTrace.tla', 'arrays/ToleranceTrace.cfg',
                                   [trace_line(r) for r in recs[k:k + step]], name='trace%d' % k, timeout=3000))
    skips = {}
    for i, clause in rej.items():
        r = byid[i]
        if clause.startswith('skip'):
            skips[clause] = skips.get(clause, 0) + 1
        elif clause.startswith('bad'):
            raise Machinery('trace record %s is defective (%s): %r' % (i, clause, trace_line(r)))
        else:
            sig = trace_signature(r, clause)
            ctx.violation(sig, '%s(answers=%r, tolerance=%r, samples=%s, failable_evals=%s) on %r: specification %s, '
                               'grader gave %s' % (sig['grader'], r['answer'], sig['tolerance'], r['n'], r['failable'],
                                                   r['student'], clause, r['obs']))
    for r in recs:
        if r['id'] not in rej:
            ctx.nontrivial.add(repr(('trace', r['kind'], r.get('grader'), r.get('form', r.get('dev', {}).get('form')),
                                     r['tol']['kind'], r['n'], min(r['failable'], r['n']), r['obs'])))
    for r in recs[:1] + recs[nv:nv + 1]:
        ctx.sample({'trace_record': {k: r[k] for k in ('kind', 'answer', 'student', 'obs', 'n', 'failable')}})
    if draws_bad:
        ctx.note_drift('%d graded cases drew samples from the scripted sampling sets in a different number or order '
                       'than samples x 1 per variable (verdicts were still compared)' % draws_bad)
    judged = len(recs) - sum(skips.values())
    if judged < 0.5 * len(recs):
        raise Machinery('random driver: only %d of %d records could be judged (%r)' % (judged, len(recs), skips))
    ctx.extra['trace_records'] = {'generated': len(recs), 'judged': judged, 'no_prediction': skips}
    ctx.extra['boundary_cases_skipped_as_inexact_in_binary'] = skipped_edge
    ctx.extra['bounds'] = {
        'tier': ctx.tier, 'enumerated': 'samples 1-%d, failable_evals 0-3, tolerances absolute/percentage incl. 0 and the '
        'default 0.01%%, scalars / complex / 2- and 3-vectors / 2x2 matrices, +-infinity' % (3 if ctx.quick else 4),
        'random': 'samples 1-8, failable_evals 0-8, vectors up to 4, matrices up to 3x3, %d scripted + %d rewrite records'
        % (nv, nr)}
    ctx.assumptions += [
        'samples closer than about 0.5 % to the tolerance boundary are not generated (guard band); exact-boundary cases only '
        'where every float operation is exact',
        'failable_evals >= samples >= 2: the count rule decides (a miss at every sample is forgiven); only a single-sample '
        'grader tolerates no failure',
        'only the default equality comparison and single-answer graders; shape mismatches and NaN are outside this check',
        'rewrite records under random sampling use strictly positive answer trees (no cancellation)']


def _parse_literal(text):
    """inverse of lit_value for the texts stored in a signature"""
    v = eval(text, {'__builtins__': {}}, {'i': 1j, 'infty': float('inf')})  # texts written by lit_value only
    if isinstance(v, list):
        from mitxgraders.helpers.calc import MathArray
        return MathArray(v)
    return v


def replay(ctx, rec):
    """re-run the concrete failing case of a replay file against the current tree; True iff the property holds on it"""
    from engine import repo
    repo.activate()
    from engine.fixtures import ScriptedSampler
    import mitxgraders
    sig = rec['signature']
    print('signature:', sig)
    cls = getattr(mitxgraders, sig['grader'])
    cfg = dict(tolerance=sig['tolerance'], answers={'expect': sig['answer'], 'grade_decimal': sig['credit']})
    if sig['grader'] != 'NumericalGrader':
        cfg.update(samples=sig['samples'], failable_evals=sig['failable_evals'])
        if 'samples_xy' in sig:
            xs = [_parse_literal(a) for a, _ in sig['samples_xy']]
            ys = [_parse_literal(b) for _, b in sig['samples_xy']]
            cfg.update(variables=['x', 'y'], sample_from={'x': ScriptedSampler(script=xs), 'y': ScriptedSampler(script=ys)})
        elif 'sampled' in sig:
            script = [_parse_literal(t) for t in sig['sampled']]
            dscript = [_parse_literal(t) for t in sig['params']] if sig.get('form') == 'addvar' else None
            cfg.update(carrier_config(CARRIER_OF_TEXT.get(sig['answer'], 'id'), script, dscript)[0])
        else:
            cfg.update(variables=['x', 'y', 'z'])
        if sig['grader'] == 'MatrixGrader':
            cfg['max_array_dim'] = 2
    if sig.get('part') == 'inf' and sig['grader'] != 'MatrixGrader':
        cfg['allow_inf'] = True
    try:
        obs = classify(cls(**cfg)(None, sig['student']), sig['credit'])
    except Exception as e:
        obs = 'raise:%s' % type(e).__name__
    print('allowed: %s   observed now: %s' % ('/'.join(sig['allowed']), obs))
    return obs in sig['allowed']
