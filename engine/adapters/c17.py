"""C17 -- attempt-based credit scales grades by a bounded, non-increasing schedule.

spec -> code: TLC enumerates MC_AttemptCredit (part "sched": built-in schedule grid x attempts; part "apply": schedule x
              message flag x attempt x base result, plus the missing-attempt cases).  Every state is replayed: real
              schedule objects are evaluated, real graders (TableGrader / ListGrader of TableGraders, exactly what an
              author may write) are called with and without the feature.  Python only tests *equality* with the
              documented (canonical) outcome carried in the state; whenever the observation differs in any way the
              case is handed to the trace specification, whose property-level Judge alone decides.
design:       AttemptCreditSteps (one action per code block of apply_attempt_based_credit) is model-checked to refine the
              documented result and to terminate; the code's own debug-log lines are compared with it (drift only).
code -> spec: the observed values of every schedule of the grid and of random larger schedules (ScheduleOK), random
              larger grader calls (long lists, arbitrary 1e-4 grades, attempts up to 400, author-defined schedules
              returning int / float / numpy, debug on, unordered lists), the documented examples with the real
              StringGrader / FormulaGrader / SingleListGrader, are recorded as ndjson and validated by
              AttemptCreditTrace.  'formula' records compare observed values with the documented formulas: drift only.
"""
import json
import os
import random
import re
from decimal import Decimal

from engine import dump, traces

NOTE_RE = re.compile(r'Maximum credit for attempt #(-?\d+) is (-?[0-9][0-9.]*)%\.')
LOG_RE = re.compile(r'Attempt number (-?\d+)|Maximum credit is (-?[0-9][0-9.e-]*)')
MARK = 'BASEMSG%dq'
SENTINEL = 0.4243          # what an author-defined schedule returns when asked for an attempt below 1
UNIT = 10000
UNIT2 = 100000000
FINE_UNIT = 1000000000     # 1e-9 units: raw values of author-defined schedules
N_OBSERVED = 200           # attempts 1..200 of every grid schedule


# ------------------------------------------------------------------------------------------------ instruments
class AuthorSchedule(object):
    """author-defined credit function: a plain callable (table lookup), records what it was asked"""

    def __init__(self, vals, ty, unit=UNIT, decay=None):
        self.vals, self.ty, self.calls, self.unit, self.decay = list(vals), ty, [], unit, decay

    def __call__(self, n):
        self.calls.append(n)
        if n < 1:
            return SENTINEL
        if self.decay is not None:                      # slow decay: any callable is allowed, values with many decimals
            return (self.decay / 1e5) ** (n - 1)
        v = self.vals[min(n, len(self.vals)) - 1]
        if self.unit != UNIT:                           # values given in 1e-9 units
            x = v / float(self.unit)
            if self.ty == 'numpy':
                import numpy
                return numpy.float64(x)
            return x
        if self.ty == 'int':
            return v // UNIT
        if self.ty == 'numpy':
            import numpy
            return numpy.float64(v / 1e4)
        return v / 1e4


def sched_object(s):
    """abstract schedule (dict) -> the real object an author would configure; None when the feature is off"""
    from mitxgraders import LinearCredit, GeometricCredit, ReciprocalCredit
    k = s['k']
    if k == 'linear':
        m = s['min']
        if m in (0, UNIT) and s['after'] % 2:
            mc = m // UNIT                      # the integers 0 / 1, as an author may write them
        else:
            mc = m / 1e4
        return LinearCredit(decrease_credit_after=s['after'], decrease_credit_steps=s['steps'], minimum_credit=mc)
    if k == 'geometric':
        if 'f' in s:
            return GeometricCredit(factor=s['f'])
        a = s['a']
        return GeometricCredit(factor=(a // 100 if a in (0, 100) else a / 100.0))
    if k == 'reciprocal':
        return ReciprocalCredit()
    if k == 'author':
        if 'decay' in s:
            return AuthorSchedule([], 'float', decay=s['decay'])
        return AuthorSchedule(s['vals'], s.get('ty', 'float'))
    if k == 'authorfine':
        return AuthorSchedule(s['vals9'], s.get('ty', 'float'), unit=FINE_UNIT)
    if k == 'off':
        return None
    raise ValueError(k)


def skey(s):
    return json.dumps(s, sort_keys=True)


def to_fixed(v, unit):
    """float -> (integer in the given unit, is it on the grid)"""
    x = float(v) * unit
    if not (-2.0e9 < x < 2.0e9):
        return 0, False
    i = int(round(x))
    return i, abs(x - i) <= unit * 1e-11


def eff(n):
    return 1 if n < 1 else n


def input_text(e, idx):
    return 'g%dm%di%d' % (e['g'], 1 if e['m'] else 0, idx)


def table_for(entries_by_idx):
    """entries_by_idx: iterable of (entry, idx) -> TableGrader table"""
    t = {}
    for e, idx in entries_by_idx:
        g = e['g'] / 1e4 if e['g'] not in (0, UNIT) else e['g'] // UNIT
        t[('x', input_text(e, idx))] = (g, MARK % idx if e['m'] else '')
    return t


def build_graders(sobj, flag, form, nent, table, debug=False, ordered=True):
    from engine.fixtures import TableGrader
    from mitxgraders import ListGrader
    extra_on = dict(attempt_based_credit=sobj, attempt_based_credit_msg=flag, debug=debug)
    extra_off = dict(debug=debug)
    if form == 'single':
        return (TableGrader(answers='x', table=table, **extra_on), TableGrader(answers='x', table=table, **extra_off))
    mk = lambda extra: ListGrader(answers=['x'] * nent, subgraders=TableGrader(table=table), ordered=ordered, **extra)
    return mk(extra_on), mk(extra_off)


def entries_of(res):
    return res['input_list'] if 'input_list' in res else [res]


def ok_name(ok):
    return 'true' if ok is True else 'false' if ok is False else 'partial' if ok == 'partial' else 'other'


def project_base(res):
    """result of the call without the feature -> [{g, m}] or None when a grade is not on the 1e-4 grid"""
    out = []
    for e in entries_of(res):
        g, exact = to_fixed(e['grade_decimal'], UNIT)
        if not exact or not 0 <= g <= UNIT:
            return None
        out.append({'g': g, 'm': bool(e['msg'])})
    return out


def raw_interval(v):
    """value returned by a schedule -> ({'lo', 'hi'} in 1e-9 units, float value) or (None, None) when out of range"""
    import math
    vf = float(v)
    x = vf * FINE_UNIT
    if not (-1.0 <= x <= 2.0e9):
        return None, vf
    r = int(round(x))
    if abs(x - r) <= 1e-5:
        return {'lo': r, 'hi': r}, vf
    return {'lo': int(math.floor(x)), 'hi': int(math.ceil(x))}, vf


def project(res, base_res, debug=False, vf=None):
    """-> (obs for the specification, extras for the drift monitor)"""
    ents, bents = entries_of(res), entries_of(base_res)
    is_list = 'input_list' in res
    obs_e = []
    rawall = len(ents) == len(bents)       # every grade is base grade * the schedule's unrounded value
    for i, e in enumerate(ents):
        g8, exact = to_fixed(e['grade_decimal'], UNIT2)
        if i < len(bents):
            bmsg = bents[i]['msg']
            kept = all(t in e['msg'] for t in re.findall(r'BASEMSG\d+q', bmsg)) if debug else bmsg in e['msg']
        else:
            kept = False
        g = e['grade_decimal']
        bg = bents[i]['grade_decimal'] if i < len(bents) else 0
        obs_e.append({'g8': g8, 'exact': bool(exact), 'ok': ok_name(e['ok']), 'kept': bool(kept),
                      'lt': bool(g < bg), 'is0': bool(g == 0), 'is1': bool(g == 1)})
        if vf is None or i >= len(bents) or not (abs(g - bg * vf) <= 1e-12 if bg > 0 else g == 0):
            rawall = False
    texts = [('entry' if is_list else 'msg', e['msg']) for e in ents]
    base_texts = [e['msg'] for e in bents]
    if is_list:
        texts.append(('overall', res.get('overall_message', '')))
        base_texts.append(base_res.get('overall_message', ''))
    notes, note_n, note_p, pexact, where, sep_ok, ptxt = 0, 0, 0, True, None, True, None
    for j, (w, t) in enumerate(texts):
        for m in NOTE_RE.finditer(t or ''):
            notes += 1
            if notes > 1:
                continue
            where, ptxt = w, m.group(2)
            try:
                note_n = int(m.group(1))
                p = Decimal(m.group(2)) * 100
                pexact = (p == int(p)) and abs(p) <= 20000 and abs(note_n) < 2 * 10 ** 9
                note_p = int(p) if pexact else 0
                note_n = note_n if abs(note_n) < 2 * 10 ** 9 else 0
            except Exception:
                pexact, note_p = False, 0
            b = base_texts[j] if j < len(base_texts) else ''
            sep_ok = debug or t == (b + '<br/>\n<br/>\n' if b else '') + m.group(0)
    obs = {'raised': 'none', 'rawall': bool(rawall), 'entries': obs_e, 'notes': notes, 'noteN': note_n, 'noteP': note_p, 'notePexact': bool(pexact)}
    extras = {'where': where, 'sep_ok': sep_ok, 'ptxt': ptxt}
    if debug:                     # the procedure's own debug-log lines (step-level drift monitor)
        log = []
        for _, t in texts:
            for m in LOG_RE.finditer(t or ''):
                if m.group(1) is not None:
                    log.append(['attempt', int(m.group(1))])
                else:
                    try:
                        c4, ex = to_fixed(float(m.group(2)), UNIT)
                    except ValueError:
                        c4, ex = 0, False
                    log.append(['max', c4 if ex else -1])
        extras['log'] = log
    return obs, extras


def raised_obs(exc):
    from mitxgraders.exceptions import ConfigError
    name = 'ConfigError' if isinstance(exc, ConfigError) else type(exc).__name__
    return {'raised': name, 'rawall': False, 'entries': [], 'notes': 0, 'noteN': 0, 'noteP': 0, 'notePexact': True}


def observe_call(g_on, g_off, sobj, inputs, n, debug=False, missing=False):
    """run the pair of real calls.  -> dict(base, c, c_exact, obs, extras)  (base None: instrument failure)"""
    base_res = g_off(None, inputs)
    base = project_base(base_res)
    if sobj is None:
        v, vf = {'lo': FINE_UNIT, 'hi': FINE_UNIT}, 1.0
    else:
        try:
            v, vf = raw_interval(sobj(eff(n if not missing else 1)))
        except Exception:            # a schedule that raises: the grader call below raises too and is judged as such
            v, vf = {'lo': 0, 'hi': 0}, 0.0
    try:
        res = g_on(None, inputs) if missing else g_on(None, inputs, attempt=n)
    except Exception as e:  # any class; the specification decides
        return {'base': base, 'v': v, 'obs': raised_obs(e), 'extras': {}}
    obs, extras = project(res, base_res, debug, vf)
    return {'base': base, 'v': v, 'obs': obs, 'extras': extras}


def is_canonical(o, out, form):
    """equality with the documented outcome carried in the TLC state"""
    res = out['res']
    obs = o['obs']
    if o['v'] is None or o['v']['lo'] != out['v9'] or o['v']['hi'] != out['v9'] or obs['raised'] != 'none':
        return False
    if obs['entries'] != res['entries'] or obs['notes'] != res['notes']:
        return False
    if obs['notes'] == 1:
        if obs['noteN'] != res['noteN'] or not obs['notePexact'] or obs['noteP'] not in out['notePs']:
            return False
        if o['extras']['where'] != ('msg' if form == 'single' else 'overall') or not o['extras']['sep_ok']:
            return False
        if not re.match(r'^\d+(\.[1-9])?$', o['extras']['ptxt']):       # 50, 33.3 -- never 50.0
            return False
    return True


# ------------------------------------------------------------------------------------------------ spec -> code
_GRID_E = [({'g': g, 'm': m}, i) for g in (0, 1, 2500, 3333, 5000, 10000) for m in (False, True) for i in (1, 2, 3)]


def replay_states(states, extra):
    from engine import repo
    repo.activate()
    table = table_for(_GRID_E)
    cache = {}
    res = {'n_sched': 0, 'n_apply': 0, 'n_missing': 0, 'keys': set(), 'sched_drift': [], 'sched_ties': 0,
           'judge': [], 'overflow': 0, 'machinery': [], 'sample': None, 'off_drift': []}
    for st in states:
        c, out = st['c'], st['out']
        kind = c['kind']
        if kind == 'seed':
            continue
        s = c['s']
        if kind == 'sched':
            res['n_sched'] += 1
            key = skey(s)
            if key not in cache:
                cache[key] = sched_object(s)
            try:
                v = cache[key](c['n'])
                v4, exact = to_fixed(v, UNIT)
            except Exception as e:
                v4, exact, v = None, False, 'raised %s' % type(e).__name__
            if exact and v4 == out['v']:
                res['keys'].add(('sched', s['k'], v4 == UNIT, v4 == 0))
            elif exact and v4 in out['cands']:
                res['sched_ties'] += 1
            elif len(res['sched_drift']) < 20:
                res['sched_drift'].append({'s': s, 'n': c['n'], 'documented': out['v'], 'observed': repr(v)})
            continue
        fb = c['fb']
        form, base = fb['form'], fb['base']
        key = (skey(s), c['flag'], form, len(base))
        if key not in cache:
            sobj = sched_object(s)
            cache[key] = (sobj,) + build_graders(sobj, c['flag'], form, len(base), table)
        sobj, g_on, g_off = cache[key]
        inputs = [input_text(e, i + 1) for i, e in enumerate(base)]
        if form == 'single':
            inputs = inputs[0]
        missing = kind == 'missing'
        n = c.get('n', 1)
        try:
            o = observe_call(g_on, g_off, sobj, inputs, n, missing=missing)
        except Exception as e:
            res['machinery'].append('base call failed for %r: %r' % (c, e))
            continue
        if o['base'] != base:
            res['machinery'].append('instrument: base result %r is not the modelled %r' % (o['base'], base))
            continue
        case = {'s': s, 'flag': c['flag'], 'n': n, 'form': form, 'base': base, 'missing': missing}
        if missing:
            res['n_missing'] += 1
            if o['obs']['raised'] == out['raised']:
                res['keys'].add(('missing', s['k'], form))
            else:
                res['judge'].append({'ev': 'missing', 'raised': o['obs']['raised'], 'case': case})
            continue
        res['n_apply'] += 1
        if res['sample'] is None and out['res']['notes'] == 1:
            res['sample'] = {'case': case, 'documented': out, 'observed': o['obs']}
        if is_canonical(o, out, form):
            r = out['res']
            res['keys'].add(('apply', s['k'], form, len(base), n < 1, out['c'] == UNIT, out['c'] == 0, r['notes'],
                             tuple(e['ok'] for e in r['entries'])))
            continue
        if o['v'] is None:
            res['off_drift'].append('schedule %s value for attempt %d is far outside [0, 1]; call not judged' % (skey(s), n))
            continue
        if len(res['judge']) < 400:
            res['judge'].append({'ev': 'scaled', 'flag': c['flag'], 'n': n, 'v': o['v'], 'base': base, 'obs': o['obs'],
                                 'case': case, 'documented_c': out['c'], 'c_cands': out['cCands'], 'extras': o['extras']})
        else:
            res['overflow'] += 1
    res['keys'] = sorted(res['keys'], key=repr)
    return res


# ------------------------------------------------------------------------------------------------ code -> spec
def grid_schedules(quick):
    mins = [0, 1000, 2000, 5000, 10000]
    out = [{'k': 'linear', 'after': a, 'steps': st, 'min': m} for a in range(1, 7) for st in range(1, 7) for m in mins]
    out += [{'k': 'geometric', 'a': a} for a in ([0, 25, 50, 75, 90, 100] if quick else [0, 1, 10, 25, 33, 50, 60, 75, 90, 99, 100])]
    out.append({'k': 'reciprocal'})
    return out


def rand_schedule(rng, builtin_only=False):
    r = rng.random()
    if r < 0.4:
        return {'k': 'linear', 'after': rng.randint(1, 25), 'steps': rng.randint(1, 40),
                'min': rng.choice([0, UNIT, rng.randint(0, UNIT), rng.randint(0, UNIT)])}
    if r < 0.6:
        return {'k': 'geometric', 'a': rng.choice([0, 100, rng.randint(1, 99), rng.randint(50, 99)])}
    if r < 0.75:
        return {'k': 'geometric', 'f': rng.random()}
    if r < 0.8 or builtin_only:
        return {'k': 'reciprocal'}
    r = rng.random()
    if r < 0.3:          # values on and next to the boundaries of the 4-decimal rounding, in 1e-9 units
        vals9 = []
        for _ in range(rng.randint(1, 5)):
            c4 = rng.choice([UNIT, UNIT, 9999, 0, 1, rng.randint(0, UNIT)])
            v9 = c4 * 100000 + rng.choice([-50001, -50000, -49999, -40000, -1000, -1, 0, 1, 1000, 40000, 49999, 50000, 50001])
            vals9.append(min(FINE_UNIT, max(0, v9)))
        return {'k': 'authorfine', 'vals9': vals9, 'ty': rng.choice(['float', 'numpy'])}
    if r < 0.4:          # a slow decay written as a formula: values with many decimals, just below 1 for a while
        return {'k': 'author', 'decay': rng.choice([99999, 99999, 99995, 99990, 99998, 99900, 90000])}
    ty = rng.choice(['float', 'float', 'int', 'numpy'])
    if ty == 'int':
        vals = [rng.choice([0, UNIT]) for _ in range(rng.randint(1, 4))]
    else:
        vals = [rng.choice([0, UNIT, rng.randint(0, UNIT), rng.randint(0, UNIT), 1, 9999, 625, 5905]) for _ in range(rng.randint(1, 6))]
        vals = [v if v != 4243 else 4244 for v in vals]
    return {'k': 'author', 'vals': vals, 'ty': ty}


def observe_schedules(items, extra):
    """items: [(id, schedule dict, N)] -> credit (+ formula) records"""
    from engine import repo
    repo.activate()
    recs = []
    for rid, s, n_max, with_formula in items:
        sobj = sched_object(s)
        vals8, vals4, on_grid, err = [], [], True, None
        first_one = False
        for n in range(1, n_max + 1):
            try:
                v = sobj(n)
            except Exception as e:
                err = 'attempt %d raised %s' % (n, type(e).__name__)
                break
            if n == 1:
                first_one = (v == 1)
            v8, ex8 = to_fixed(v, UNIT2)
            if not ex8 and not (-2.0e9 < float(v) * UNIT2 < 2.0e9):
                err = 'attempt %d gave %r' % (n, v)
                break
            vals8.append(v8)
            v4, ex4 = to_fixed(v, UNIT)
            on_grid = on_grid and ex4
            vals4.append(v4)
        lo8 = s['min'] * UNIT if s['k'] == 'linear' else 0
        recs.append({'id': rid, 'ev': 'credit', 'lo8': lo8, 'first_one': bool(first_one), 'vals8': vals8, 's': s,
                     'error': err})
        if with_formula and err is None:
            if on_grid:
                recs.append({'id': rid + 1, 'ev': 'formula', 's': s, 'vals': vals4})
            else:
                recs.append({'id': rid + 1, 'ev': 'offgrid', 's': s})
    return recs


def rand_call_cases(rng, n_cases, first_id):
    cases = []
    for i in range(n_cases):
        s = rand_schedule(rng)
        r = rng.random()
        n = rng.randint(-5, 0) if r < .15 else rng.randint(1, 12) if r < .65 else rng.randint(13, 400)
        form = 'single' if rng.random() < .4 else 'list'
        nent = 1 if form == 'single' else rng.randint(2, 8)
        base = []
        for _ in range(nent):
            r = rng.random()
            base.append({'g': 0 if r < .3 else UNIT if r < .6 else rng.randint(1, UNIT - 1), 'm': rng.random() < .5})
        cases.append({'id': first_id + i, 's': s, 'n': n, 'form': form, 'base': base, 'flag': rng.random() < .75,
                      'debug': rng.random() < .15, 'ordered': form == 'single' or rng.random() < .8,
                      'missing': rng.random() < .05})
    return cases


def observe_case(case):
    sobj = sched_object(case['s'])
    base = case['base']
    table = table_for((e, i + 1) for i, e in enumerate(base))
    g_on, g_off = build_graders(sobj, case['flag'], case['form'], len(base), table, debug=case.get('debug', False),
                                ordered=case.get('ordered', True))
    inputs = [input_text(e, i + 1) for i, e in enumerate(base)]
    if case['form'] == 'single':
        inputs = inputs[0]
    return observe_call(g_on, g_off, sobj, inputs, case['n'], debug=case.get('debug', False),
                        missing=case.get('missing', False))


def record_of(case, o):
    """trace record for one observed call; None when it cannot be judged"""
    if o['base'] is None:
        return {'id': case['id'], 'ev': 'unjudged', 'why': 'base grade not on the 1e-4 grid', 'case': case}
    if case.get('missing'):
        return {'id': case['id'], 'ev': 'missing', 'raised': o['obs']['raised'], 'case': case}
    if o['v'] is None:
        return {'id': case['id'], 'ev': 'unjudged', 'why': 'schedule value far outside [0, 1]', 'case': case}
    rec = {'id': case['id'], 'ev': 'scaled', 'flag': case['flag'], 'n': case['n'], 'v': o['v'], 'base': o['base'],
           'obs': o['obs'], 'case': case}
    if 'log' in o.get('extras', {}):
        rec['log'] = o['extras']['log']
    return rec


def observe_calls(cases, extra):
    from engine import repo
    repo.activate()
    recs = []
    for case in cases:
        o = observe_case(case)
        if case['form'] == 'list' and case.get('ordered', True) and o['base'] is not None and o['base'] != case['base']:
            recs.append({'id': case['id'], 'ev': 'instrument', 'why': 'base %r instead of %r' % (o['base'], case['base'])})
            continue
        recs.append(record_of(case, o))
    return recs


def doc_examples(first_id):
    """the documented examples (docs/graders.md) and a few real graders, called with and without the feature"""
    from mitxgraders import (StringGrader, FormulaGrader, SingleListGrader, ListGrader, LinearCredit, GeometricCredit,
                             ReciprocalCredit)
    recs = []
    rid = first_id
    scheds = [('reciprocal', ReciprocalCredit), ('geometric-0.5', lambda: GeometricCredit(factor=0.5)),
              ('geometric-default', GeometricCredit), ('linear-default', LinearCredit)]
    makers = [
        ('StringGrader', lambda **kw: StringGrader(answers='cat', wrong_msg='try again', **kw), ['cat', 'dog']),
        ('StringGrader-msg', lambda **kw: StringGrader(answers=({'expect': 'cat', 'msg': 'purr'},
                                                                {'expect': 'lion', 'grade_decimal': 0.5, 'msg': 'too big'}), **kw),
         ['cat', 'lion', 'dog']),
        ('FormulaGrader', lambda **kw: FormulaGrader(answers='x^2+1', variables=['x'], **kw), ['1+x^2', 'x']),
        ('SingleListGrader', lambda **kw: SingleListGrader(answers=['a', 'b', 'c', 'd'], subgrader=StringGrader(), **kw),
         ['a,b,c,d', 'a,b', 'a, x, c, d', 'x']),
        ('ListGrader', lambda **kw: ListGrader(answers=['cat', 'dog'], subgraders=StringGrader(), **kw),
         [['cat', 'dog'], ['dog', 'unicorn'], ['x', 'y']]),
    ]
    for sname, smk in scheds:
        for gname, gmk, inputs in makers:
            for flag in (True, False):
                sobj = smk()
                g_on, g_off = gmk(attempt_based_credit=sobj, attempt_based_credit_msg=flag), gmk()
                for inp in inputs:
                    for n in (0, 1, 2, 3, 4, 5, 6, 17):
                        o = observe_call(g_on, g_off, sobj, inp, n)
                        case = {'id': rid, 'doc': '%s %s' % (gname, sname), 'input': inp, 'n': n, 'flag': flag}
                        recs.append(record_of(case, o))
                        rid += 1
                o = observe_call(g_on, g_off, sobj, inputs[0], 1, missing=True)
                recs.append(record_of({'id': rid, 'doc': '%s %s' % (gname, sname), 'input': inputs[0], 'missing': True,
                                       'flag': flag}, o))
                rid += 1
    return recs


def observe_docs(items, extra):
    from engine import repo
    repo.activate()
    return doc_examples(items[0])


# ------------------------------------------------------------------------------------------------ verdicts
def strip(rec):
    """the part of a record TLC needs (and can read)"""
    keep = {'credit': ('id', 'ev', 'lo8', 'first_one', 'vals8'), 'formula': ('id', 'ev', 's', 'vals'),
            'scaled': ('id', 'ev', 'flag', 'n', 'v', 'base', 'obs'), 'missing': ('id', 'ev', 'raised'),
            'steplog': ('id', 'ev', 'n', 'v', 'log')}[rec['ev']]
    r = {k: rec[k] for k in keep}
    if rec['ev'] == 'formula':
        r['s'] = {k: v for k, v in rec['s'].items() if k != 'ty'}
    return r


def judge(ctx, recs, name):
    """validate records with the trace specification; report rejections.  returns the dict id -> clause"""
    from engine.main import Machinery
    bad_instr = [r for r in recs if r['ev'] == 'instrument']
    if bad_instr:
        raise Machinery('instrument failure: %s' % bad_instr[0]['why'])
    for r in recs:
        if r['ev'] in ('unjudged', 'offgrid'):
            ctx.note_drift('%s: %s' % (r.get('why', 'schedule values not on the 1e-4 grid'), json.dumps(r.get('s', r.get('case', {}).get('s')))))
    direct = [r for r in recs if r['ev'] == 'credit' and r.get('error')]
    for r in direct:
        sig = {'class': 'schedule-raised', 'schedule': r['s'], 'clause': r['error']}
        ctx.violation(sig, 'schedule %s: %s' % (skey(r['s']), r['error']))
    todo = [r for r in recs if r['ev'] in ('credit', 'formula', 'scaled', 'missing') and not r.get('error')]
    # step-level monitor: one extra record per debug call (ids are spaced by the callers)
    todo += [{'id': r['id'] + 500000000, 'ev': 'steplog', 'n': r['n'], 'v': r['v'], 'log': r['log'], 'case': r['case']}
             for r in recs if r['ev'] == 'scaled' and 'log' in r and r['obs']['raised'] == 'none']
    rej = traces.validate(ctx, 'graders/AttemptCreditTrace.tla', 'graders/AttemptCreditTrace.cfg',
                          [strip(r) for r in todo], name=name)
    byid = {r['id']: r for r in todo}
    per_class = {}
    n_steplog = n_formula = 0
    for rid, clause in sorted(rej.items()):
        r = byid[rid]
        if r['ev'] not in ('formula', 'steplog'):
            k = (r['ev'], clause)
            per_class[k] = per_class.get(k, 0) + 1
            if per_class[k] > 3:                  # at most three concrete cases per broken clause
                continue
        if r['ev'] == 'steplog':
            n_steplog += 1
            if n_steplog == 1:
                ctx.note_drift('debug log of a call with attempt=%s, credit %s reads %s: not the step model AttemptCreditSteps (%s)'
                               % (r['n'], r['v']['lo'] / 1e9, r['log'], json.dumps(r['case'], sort_keys=True)))
        elif r['ev'] == 'formula':
            n = int(clause.rsplit('_', 1)[1]) if clause.startswith('formula_at_attempt_') else 0
            n_formula += 1
            if n_formula > 3:
                continue
            ctx.note_drift('schedule %s: value %s at attempt %d is not the documented formula rounded to 4 decimals'
                           % (skey(r['s']), r['vals'][n - 1] / 1e4 if n else '?', n))
        elif r['ev'] == 'credit':
            sig = {'class': 'schedule-' + clause, 'schedule': r['s'], 'clause': clause,
                   'values_1e8': r['vals8'][:12]}
            ctx.violation(sig, 'schedule %s breaks ScheduleOK (%s): first values %s' % (
                skey(r['s']), clause, [v / 1e8 for v in r['vals8'][:8]]))
        elif r['ev'] == 'missing':
            sig = {'class': 'missing-attempt-not-config-error', 'case': r['case'], 'raised': r['raised']}
            ctx.violation(sig, 'attempt-based credit on, no attempt passed: expected ConfigError, observed %s (%s)' % (
                r['raised'], json.dumps(r['case'], sort_keys=True)))
        else:
            sig = {'class': 'apply-' + clause, 'clause': clause, 'case': r['case'], 'schedule_value_1e9': r['v'],
                   'base': r['base'], 'observed': r['obs']}
            ctx.violation(sig, 'grader call with attempt=%s, schedule value %s, base %s: %s; observed %s (%s)' % (
                r.get('n'), r['v']['lo'] / 1e9, [e['g'] / 1e4 for e in r['base']], clause,
                json.dumps(r['obs'], sort_keys=True), json.dumps(r['case'], sort_keys=True)))
    if n_steplog > 1 or n_formula > 3:
        ctx.note_drift('... %d debug-log and %d formula deviations in total in this batch' % (n_steplog, n_formula))
    more = {'%s:%s' % k: v - 3 for k, v in per_class.items() if v > 3}
    if more:
        ctx.extra.setdefault('further_rejections_not_listed', {}).update(more)
    return rej


def run(ctx):
    from engine.main import Machinery
    quick = ctx.quick
    # ---------------- the implementation-shaped model refines the documented result (TLC only; safety + termination)
    ctx.tlc('graders/AttemptCreditSteps.tla', 'graders/AttemptCreditSteps.cfg', timeout=1500)
    # ---------------- spec -> code
    totals = {'n_sched': 0, 'n_apply': 0, 'n_missing': 0, 'sched_ties': 0, 'overflow': 0}
    to_judge = []
    sched_drift, off_drift = [], []
    for part in ('sched', 'apply'):
        d = os.path.join(ctx.scratch, 'cases_' + part)
        ctx.tlc('graders/MC_AttemptCredit.tla', 'graders/MC_AttemptCredit_%s_%s.cfg' % (part, ctx.tier), dump=d,
                timeout=3000)
        res = dump.parallel(d + '.dump', 'engine.adapters.c17', 'replay_states')
        os.remove(d + '.dump')
        for r in res:
            if r['machinery']:
                raise Machinery(r['machinery'][0])
            for k in totals:
                totals[k] += r[k]
            for k in r['keys']:
                ctx.nontrivial.add(tuple(k) if isinstance(k, list) else k)
            sched_drift += r['sched_drift']
            off_drift += r['off_drift']
            to_judge += r['judge']
            if r['sample']:
                ctx.sample(r['sample'])
    n_replayed = totals['n_sched'] + totals['n_apply'] + totals['n_missing']
    ctx.traces_validated += n_replayed
    ctx.evaluations += n_replayed
    if not totals['n_sched'] or not totals['n_apply'] or not totals['n_missing']:
        raise Machinery('vacuous enumeration: %r' % totals)
    for dft in sched_drift[:4]:
        ctx.note_drift('schedule %s: attempt %d gives %s, documented formula gives %s' % (
            skey(dft['s']), dft['n'], dft['observed'], dft['documented'] / 1e4))
    for dft in sorted(set(off_drift))[:5]:
        ctx.note_drift(dft)
    # cases whose observation is not the documented one: the property-level Judge decides (TLC)
    n_differs = len(to_judge) + totals['overflow']
    if to_judge:
        to_judge = to_judge[:3000]
        for i, r in enumerate(to_judge):
            r['id'] = i
        off = [r for r in to_judge if r['case']['s']['k'] == 'off']
        on = [r for r in to_judge if r['case']['s']['k'] != 'off']
        rej = judge(ctx, on, 'differs') if on else {}
        accepted = [r for r in on if r['id'] not in rej]
        # the schedule resolved an exact rounding tie of its formula the other way (e.g. 1/160 = 0.00625 -> 0.0063)
        ties = [r for r in accepted if r['ev'] == 'scaled' and len(r['c_cands']) > 1]
        totals['sched_ties'] += len(ties)
        accepted = [r for r in accepted if r not in ties]
        if accepted:
            r = accepted[0]
            ctx.note_drift('%d replayed call(s) differ from the documented result but are accepted by the property, e.g. '
                           'attempt %s credit %s base %s -> %s %s' % (len(accepted), r.get('n'), r.get('v'), r.get('base'),
                                                                      json.dumps(r.get('obs'), sort_keys=True), r.get('extras')))
        if off:
            ctx.note_drift('%d call(s) with attempt_based_credit=None and an attempt number differ from the call without '
                           'attempt (statement is silent), e.g. %s' % (len(off), json.dumps(off[0]['case'], sort_keys=True)))
    # ---------------- code -> spec
    rng = ctx.rng
    items, rid = [], 1000000
    for s in grid_schedules(quick):
        items.append((rid, s, N_OBSERVED, False))         # formula drift of the grid is covered by the replay above
        rid += 2
    n_rand_sched = 300 if quick else 2500
    n_geo_formula = 0
    for _ in range(n_rand_sched):
        s = rand_schedule(rng, builtin_only=True)
        n_max = rng.choice([250, 250, 400]) if s['k'] != 'reciprocal' else rng.choice([500, 2000])
        wf = s['k'] in ('linear', 'reciprocal') or ('a' in s and n_geo_formula < (60 if quick else 400))
        if s['k'] == 'geometric' and wf:
            n_geo_formula += 1
            n_max = 250
        items.append((rid, s, n_max, wf))
        rid += 2
    recs = [r for ch in dump.pmap('engine.adapters.c17', 'observe_schedules', items) for r in ch]
    n_sched_vals = sum(len(r.get('vals8', ())) for r in recs)
    n_calls = 4000 if quick else 60000
    cases = rand_call_cases(rng, n_calls, 2000000)
    call_recs = [r for ch in dump.pmap('engine.adapters.c17', 'observe_calls', cases) for r in ch]
    doc_recs = dump.pmap('engine.adapters.c17', 'observe_docs', [5000000], procs=1)[0]
    allrecs = recs + call_recs + doc_recs
    judge(ctx, allrecs, 'observed')
    ctx.evaluations += n_sched_vals + len(call_recs) + len(doc_recs)
    for r in call_recs:
        if r['ev'] == 'scaled':
            o = r['obs']
            ctx.nontrivial.add(('trace', r['case']['s']['k'], r['case']['form'], len(r['base']), r['n'] < 1, r['v']['lo'] in (0, FINE_UNIT), r['v']['lo'] != r['v']['hi'] or r['v']['lo'] % 100000 != 0,
                                o['notes'], r['case'].get('debug', False)))
    for r in [x for x in call_recs if x['ev'] == 'scaled' and x['obs']['notes'] == 1][:1] + [recs[0]]:
        ctx.sample({'trace_record': strip(r) if r['ev'] in ('credit', 'scaled') else r})
    ctx.extra['bounds'] = {
        'tier': ctx.tier, 'grid_schedules': len(grid_schedules(quick)), 'attempts_per_grid_schedule_observed': N_OBSERVED,
        'attempts_enumerated_formulas': 60 if quick else 200,
        'apply_cases_replayed': totals['n_apply'], 'missing_attempt_cases_replayed': totals['n_missing'],
        'schedule_points_replayed': totals['n_sched'], 'rounding_ties_seen': totals['sched_ties'],
        'replayed_calls_not_identical_to_documented_result': n_differs,
        'random_schedules': n_rand_sched, 'random_grader_calls': n_calls, 'documented_example_calls': len(doc_recs),
        'max_list_length_random': 8, 'max_attempt_random': 400}
    try:                          # informational: outside the quantified domain (see the second assumption)
        from mitxgraders import LinearCredit
        v = LinearCredit(minimum_credit=0.33333, decrease_credit_steps=2)(9)
        ctx.extra['outside_quantified_domain'] = {
            'LinearCredit(minimum_credit=0.33333, decrease_credit_steps=2)(9)': v, 'below_configured_minimum': bool(v < 0.33333)}
    except Exception as e:
        ctx.extra['outside_quantified_domain'] = {'probe failed': repr(e)}
    ctx.assumptions += [
        'an author-defined schedule value with more than 4 decimals may be used as it is or rounded to 4 decimals (the grader '
        'rounds; the statement speaks of "the schedule\'s value"): both readings are accepted, and "some grade was reduced" '
        'is decided on the grades actually returned',
        'LinearCredit minimum_credit lies on the 1e-4 grid (a minimum with more decimals is itself rounded to 4 decimals '
        'by the schedule and can then lie below the configured minimum by < 5e-5)',
        'base results are self-consistent (ok computed from the grade), grades on the 1e-4 grid',
        'schedule objects called directly with attempts below 1 are outside the statement (attempts 0 and negative go '
        'through the grader only)',
        'float products are compared with the exact product within 1e-12']


def replay(ctx, rec):
    """re-run one recorded violation"""
    sig = rec['signature']
    print('signature:', json.dumps(sig, sort_keys=True)[:2000])
    cls = sig.get('class', '')
    if cls.startswith('schedule-'):
        recs = observe_schedules([(0, sig['schedule'], 250, False)], None)
    elif 'case' in sig and 's' in sig['case']:
        case = dict(sig['case'])
        case.setdefault('id', 0)
        recs = [record_of(case, observe_case(case))]
    else:
        print('documented-example case: re-run ./check C17 to re-observe it')
        return False
    n0 = len(ctx.violations)
    judge(ctx, recs, 'replay')
    return len(ctx.violations) == n0
