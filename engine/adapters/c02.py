"""C02 -- grading failures surface only as library errors with student-safe messages.

spec -> code : TLC explores ErrorChannel (the control flow of ItemGrader.__call__ / AbstractGrader.__call__ with an
               environment that makes the grading step return or raise every class of the exception tree and every
               outsider).  Every finished state is replayed through the real wrapper with fault-injecting author
               level graders (item, delimited list, list, nested list, either-form, FormulaGrader / SumGrader with a
               failing user function, arithmetic failures) and every input form; observed class, message, and which
               blocks ran are compared with the state.
code -> spec : real graders x hostile submissions (grammar-derived and corrupted formulas, unbalanced / deeply nested
               brackets, poles / overflow / 0/0, shape-incompatible arrays, unknown names, wrong arities, blank list
               items, stray delimiters, non-ASCII digits / operators / whitespace, non-text and wrongly nested input
               objects), each run with debug=True and debug=False under a wall-clock alarm, the exception leaving
               check() captured at the instance; one ndjson record per run, validated by ErrorChannelTrace
               (ErrorChannel!Outward evaluated by TLC).  The first record is the introspected class tree.

Verdict policy: only disagreement with the property statement is a violation (family membership with debug off,
class + <br/>-rendered message kept for family errors, generic student-facing error naming the inputs for anything
else, refusal of wrong input objects without grading, termination, an error never swallowed).  Everything the
statement is silent about (debug=True transparency, exact wording, block order, recast tables) is drift.
"""
import os
import random
import re
import signal
import time

from engine import dump, traces

GENERIC_PREFIX = 'Invalid Input: Could not check input'
PROPERTY_CLAUSES = {'terminates': 'no-termination', 'family': 'escape-outside-family', 'refuse': 'not-refused',
                    'swallowed': 'error-swallowed', 'class': 'class-not-kept', 'msg': 'message-not-kept-or-br',
                    'mro': 'class-tree-family', 'generic': 'generic-message'}


# ------------------------------------------------------------------------------------------------ small helpers
class CallTimeout(BaseException):
    """raised by the alarm; not an Exception, so the wrapper under test cannot swallow it"""


def guarded(fn, seconds):
    """-> ('return', value) | ('raise', exception) | ('timeout', None)
    Wall-clock alarm; when it fires while the call itself has used little processor time (the machine is shared)
    it is re-armed, so that expiry means: the CALL consumed the budget (or sat blocked for 20 times as long)."""
    t0 = {'cpu': time.process_time(), 'wall': time.time()}

    def on_alarm(signum, frame):
        used = time.process_time() - t0['cpu']
        if used < 0.7 * seconds and time.time() - t0['wall'] < 20 * seconds:
            signal.setitimer(signal.ITIMER_REAL, max(1.0, seconds - used))
            return
        raise CallTimeout()

    old = signal.signal(signal.SIGALRM, on_alarm)
    signal.setitimer(signal.ITIMER_REAL, seconds)
    try:
        try:
            return ('return', fn())
        finally:
            signal.setitimer(signal.ITIMER_REAL, 0)
    except CallTimeout:
        return ('timeout', None)
    except Exception as e:  # noqa -- the observation itself
        return ('raise', e)
    finally:
        signal.setitimer(signal.ITIMER_REAL, 0)
        signal.signal(signal.SIGALRM, old)


def mro_names(cls):
    return [k.__name__ for k in cls.__mro__ if k not in (BaseException, object)]


_SPLIT = re.compile(r'(\n|<br/>)')


def symbolise(msg):
    """message text -> (symbols over w/NL/BR, list of text runs)"""
    syms, runs = [], []
    for part in _SPLIT.split(msg):
        if part == '\n':
            syms.append('NL')
        elif part == '<br/>':
            syms.append('BR')
        elif part:
            syms.append('w')
            runs.append(part)
    return syms, runs


def render_msg(syms):
    out = []
    for i, s in enumerate(syms):
        out.append('\n' if s == 'NL' else '<br/>' if s == 'BR' else 'text%d.' % i)
    return ''.join(out)


def generic_text(inp):
    if isinstance(inp, list):
        return "Invalid Input: Could not check inputs '%s'" % "', '".join(inp)
    return "Invalid Input: Could not check input '%s'" % inp


def names_in_order(msg, names):
    pos = 0
    for nm in names:
        j = msg.find(nm, pos)
        if j < 0:
            return False
        pos = j + len(nm)
    return True


def spy_call(g, expect, inp, seconds, **kw):
    """run g(expect, inp) with the instance's check() observed -> dict(outcome, exc, entered, inner)"""
    cap = {'entered': False, 'exc': None}
    has_check = hasattr(g, 'check')
    if has_check:
        orig = g.check

        def spy(answers, student_input, **k):
            cap['entered'] = True
            try:
                return orig(answers, student_input, **k)
            except Exception as e:  # noqa
                cap['exc'] = e
                raise
        g.check = spy
    try:
        k, v = guarded(lambda: g(expect, inp, **kw), seconds)
    finally:
        if has_check:
            try:
                del g.check
            except AttributeError:
                pass
    return {'k': k, 'exc': v if k == 'raise' else None, 'entered': cap['entered'], 'inner': cap['exc'],
            'observable': has_check, 'value': v if k == 'return' else None}


# ------------------------------------------------------------------------------------------------ instruments
_FX = {}


def fixtures():
    """author-level classes (defined against the public API only); built once per process after repo.activate()"""
    if _FX:
        return _FX
    from voluptuous import Required
    import voluptuous
    from mitxgraders import SingleListGrader
    from mitxgraders.baseclasses import AbstractGrader
    from mitxgraders.exceptions import MITxError
    from engine.fixtures import TableGrader

    # a course author may shadow infer_from_expect; these record the inference and let it fail
    # (single inheritance only: the library's default-value lookup follows __bases__[0])
    class ItemI(TableGrader):
        infer_exc = None

        def infer_from_expect(self, expect):
            self.__dict__.setdefault('infer_calls', []).append(expect)
            if self.infer_exc is not None:
                raise self.infer_exc
            return super(ItemI, self).infer_from_expect(expect)

    class SingleI(SingleListGrader):
        infer_exc = None

        def infer_from_expect(self, expect):
            self.__dict__.setdefault('infer_calls', []).append(expect)
            if self.infer_exc is not None:
                raise self.infer_exc
            return super(SingleI, self).infer_from_expect(expect)

    class EitherGrader(AbstractGrader):
        """grades one text or a list of texts (ensure_text_inputs defaults); table: key -> ('raise', exc) | grade"""
        @property
        def schema_config(self):
            return super(EitherGrader, self).schema_config.extend({Required('table', default=dict): dict})

        def check(self, answers, student_input, **kwargs):
            key = tuple(student_input) if isinstance(student_input, list) else student_input
            entry = self.config['table'].get(key, 0)
            if isinstance(entry, tuple) and entry[0] == 'raise':
                raise entry[1]
            entry, msg = entry if isinstance(entry, tuple) else (entry, '')
            if isinstance(student_input, list):
                return {'overall_message': msg, 'input_list': [{'ok': bool(entry), 'grade_decimal': entry, 'msg': ''}
                                                               for _ in student_input]}
            return {'ok': bool(entry), 'grade_decimal': entry, 'msg': msg}

    classes = {}

    def walk(k):
        classes[k.__name__] = k
        for s in k.__subclasses__():
            if s.__module__.startswith('mitxgraders'):
                walk(s)
    import mitxgraders  # noqa -- loads every module that defines a family class
    from mitxgraders.formulagrader import integralgrader  # noqa
    walk(MITxError)
    family = dict(classes)
    from mitxgraders.helpers.munkres import UnsolvableMatrix
    from mitxgraders.matrixsampling import Retry
    outsiders = {'ValueError': ValueError, 'TypeError': TypeError, 'KeyError': KeyError, 'IndexError': IndexError,
                 'AttributeError': AttributeError, 'ZeroDivisionError': ZeroDivisionError,
                 'OverflowError': OverflowError, 'RecursionError': RecursionError, 'AssertionError': AssertionError,
                 'Invalid': voluptuous.Invalid, 'MultipleInvalid': voluptuous.MultipleInvalid,
                 'UnsolvableMatrix': UnsolvableMatrix, 'Retry': Retry}
    classes.update(outsiders)
    _FX.update(ItemI=ItemI, SingleI=SingleI, EitherGrader=EitherGrader, TableGrader=TableGrader, classes=classes,
               family=family, outsiders=outsiders, MITxError=MITxError)
    return _FX


def make_exc(name, text):
    fx = fixtures()
    cls = fx['classes'].get(name)
    if cls is None:
        return None
    if name == 'MultipleInvalid':
        return cls([fx['classes']['Invalid'](text)])
    return cls(text)


def class_tree_record(seed, tier):
    fx = fixtures()
    tree = {n: [b.__name__ for b in k.__bases__] for n, k in fx['family'].items()}
    outs = {n: mro_names(k) for n, k in fx['outsiders'].items()}
    return {'ev': 'meta', 'id': 0, 'seed': seed, 'tier': tier, 'class_tree': tree, 'outsiders': outs}


# ------------------------------------------------------------------------------------------------ spec -> code
Via = {'item': 'direct', 'singlelist': 'direct', 'list': 'direct', 'nested': 'direct', 'either': 'direct',
       'formulafn': 'userfn', 'sumfn': 'userfn', 'formulaop': 'arith'}
NONTEXT = [5, None, b'in1', ('in1', 'in2')]
MIXED = [['in1', 5], [None, 'in2'], ['in1', ['in2']], [b'in1', 'in2']]


ARITH_INPUT = {('python', 'ZeroDivisionError'): '1/(x-x)', ('python', 'OverflowError'): '2^9999',
               ('numpy', 'ZeroDivisionError'): '[1,2]/(x-x)', ('numpy', 'OverflowError'): '[1e308,1]*10',
               # the numpy "invalid" flag (NpHandler -> ValueError) is modelled in ErrorChannel.tla, but since the
               # library repair c7cf3ba ([0,0]/0 is a division by zero like [1,0]/0) no formula is known that
               # still raises it through array arithmetic: those model states have no concrete input to replay
               }


class NoConcreteInput(Exception):
    """the model state has no known concrete realisation (skipped, not a drift)"""


# feedback messages of ErrorChannel!ResultMsgs: author's text that breaks naive templating (LaTeX, format fields, ...)
RESULT_MSG = {'none': '', 'plain': 'Well done.', 'fmt0': 'see {0} and {1}', 'fmtx': 'with \\(a_{x}\\) and \\(e^{i\\pi}\\)',
              'pcts': '100%s sure', 'pctmap': 'rate %(a)s %d', 'bslash': 'a\\b \\n', 'lbrace': 'open { only',
              'rbrace': 'close } only', 'braces': '\\(\\frac{1}{2}\\) {}', 'nl': 'line one\nline two'}


def build_case(c, fault, infer_fault, origin=None, returned=None):
    """abstract case -> (grader, expect, input object, kwargs, submitted texts, input text of the generic message)
    fault: exception instance raised by the grading step (or None: it returns)"""
    from mitxgraders import ListGrader, FormulaGrader, MatrixGrader, SumGrader, LinearCredit
    fx = fixtures()
    Table = fx['TableGrader']
    gk, n, form, v = c['gk'], c['n'], c['form'], c['v']
    cfg = {'debug': c['debug']}
    kw = {}
    if c['credit'] != 'off':
        cfg['attempt_based_credit'] = LinearCredit()
        if c['credit'] == 'on':
            kw['attempt'] = c.get('attempt', 2)
    names = ['in%d' % i for i in range(1, n + 1)]
    expect = None
    hit = ('raise', fault) if fault is not None else 1
    if fault is None and returned is not None and 'rmsg' in returned:
        hit = (1 if returned['credited'] else 0, RESULT_MSG[returned['rmsg']])

    if gk == 'item':
        if c['answers']:
            cfg['answers'] = 'E1'
        g = fx['ItemI'](table={('E1', 'in1'): hit}, **cfg)
        expect = 'E1' if c['expect'] == 'given' else None
    elif gk == 'singlelist':
        names = ['a1,a2']
        if c['answers']:
            cfg['answers'] = ['E1', 'E2']
        g = fx['SingleI'](subgrader=Table(table={('E1', 'a1'): hit}), **cfg)
        expect = 'E1,E2' if c['expect'] == 'given' else None
    elif gk == 'list':
        m = max(n, 2)
        sub = Table(table={('E%d' % m, 'in%d' % m): hit})
        g = ListGrader(answers=['E%d' % i for i in range(1, m + 1)], subgraders=sub, ordered=(m % 2 == 1), **cfg)
    elif gk == 'nested':
        sub = Table(table={('E2', 'in2'): hit})
        if n >= 4:
            g = ListGrader(answers=[['E1', 'E2'], ['E3', 'E4']], subgraders=ListGrader(subgraders=sub, ordered=False),
                           grouping=[1, 1, 2, 2], ordered=False, **cfg)
        else:
            g = ListGrader(answers=[['E1', 'E2'], 'E3'], subgraders=[ListGrader(subgraders=sub, ordered=True), sub],
                           grouping=[1, 1, 2], ordered=True, **cfg)
    elif gk == 'either':
        key = 'in1' if form == 'text' else tuple(names)
        g = fx['EitherGrader'](table={key: hit}, **cfg)
    elif gk in ('formulafn', 'sumfn'):
        if fault is not None:
            def f(x, _e=fault):
                raise _e
        else:
            def f(x):
                return x
        if gk == 'formulafn':
            names = ['f(x)']
            g = FormulaGrader(answers='x+1', variables=['x'], user_functions={'f': f}, **cfg)
        else:
            names = ['f(n)']
            g = SumGrader(answers={'lower': '1', 'upper': '3', 'summand': 'n', 'summation_variable': 'n'},
                          input_positions={'summand': 1}, user_functions={'f': f}, **cfg)
    elif gk == 'formulaop':
        if fault is not None and (origin.get('src', 'python'), origin['cls']) not in ARITH_INPUT:
            raise NoConcreteInput()
        names = ['x+1' if fault is None else ARITH_INPUT[(origin.get('src', 'python'), origin['cls'])]]
        g = MatrixGrader(answers='x+1', variables=['x'], max_array_dim=1, **cfg)
    else:
        raise ValueError(gk)
    if infer_fault is not None:
        g.infer_exc = infer_fault

    if form == 'text':
        inp = names[0]
    elif form == 'textlist':
        inp = list(names)
    elif form == 'nontext':
        inp = NONTEXT[(v - 1) % len(NONTEXT)]
    else:
        inp = [list(x) if isinstance(x, list) else x for x in MIXED[(v - 1) % len(MIXED)]]
    return g, expect, inp, kw, names


def judge(st, obs, g, inp, ex):
    """compare one finished state with the observation -> (violations [(class, text)], drifts [text])
    ex: the injected exception instance (or None)"""
    fx = fixtures()
    c, esc, inner, trail = st['c'], st['esc'], st['inner'], st['trail']
    MITx, SFE, Config = fx['MITxError'], fx['classes']['StudentFacingError'], fx['classes']['ConfigError']
    bad, drift = [], []
    expected_return = st['pc'] == 'returned'
    refused = (not expected_return) and trail[-1] == 'ensure'
    if obs['k'] == 'timeout':
        if c['debug']:
            return [], ['the call did not end within the alarm (debug on)']
        return [('no-termination', 'the call did not end within the alarm')], []
    e = obs['exc']
    cap = obs['inner']
    if not obs['observable'] and ex is not None and 'check' in trail and Via.get(c['gk']) == 'direct':
        cap = ex                                   # check() not observable: the injected fault is what left it
    texts = inp if isinstance(inp, list) else [inp]

    # ---- property level (the statement)
    if not c['debug'] and obs['k'] == 'raise' and not isinstance(e, MITx):
        bad.append(('escape-outside-family', '%s escaped with debug off' % type(e).__name__))
    if refused:
        if obs['k'] != 'raise' or not isinstance(e, Config) or obs['entered']:
            bad.append(('not-refused', 'wrong input object was not refused with a ConfigError before grading '
                                       '(observed %s, check entered: %s)' % (describe(obs), obs['entered'])))
    elif not c['debug'] and cap is not None:
        if obs['k'] == 'return':
            bad.append(('error-swallowed', 'check() raised %s but a result was returned' % type(cap).__name__))
        elif isinstance(cap, MITx):
            if type(e) is not type(cap):
                bad.append(('class-not-kept', '%s left check(), %s escaped' % (type(cap).__name__, type(e).__name__)))
            elif str(e) != str(cap).replace('\n', '<br/>'):
                bad.append(('message-not-kept-or-br', 'message %r escaped as %r' % (str(cap), str(e))))
        elif isinstance(e, MITx):
            if not isinstance(e, SFE) or not str(e).startswith(GENERIC_PREFIX) or not names_in_order(str(e), texts):
                bad.append(('generic-message', 'outsider %s gave %s: %r' % (type(cap).__name__, type(e).__name__, str(e))))

    # ---- implementation level (drift): the model's account of the layers and blocks
    quoted = ex is not None and str(ex) != render_msg((st['origin'] if st['origin'].get('k') == 'raise' else inner)['msg'])
    if obs['observable'] and 'check' in trail and trail[-1] != 'post':
        if inner['k'] == 'raise':
            if cap is None or type(cap).__name__ != inner['cls']:
                drift.append('%s: model says %s leaves check(), code %s' % (c['gk'], inner['cls'],
                                                                          type(cap).__name__ if cap else 'returns'))
            elif not quoted and symbolise(str(cap))[0] != inner['msg']:
                drift.append('%s %s: message leaving check() %s, model %s' % (c['gk'], inner['cls'],
                                                                            symbolise(str(cap))[0], inner['msg']))
        elif cap is not None:
            drift.append('%s: model says check() returns, code raised %s' % (c['gk'], type(cap).__name__))
    if expected_return != (obs['k'] == 'return'):
        if not any(b[0] == 'error-swallowed' for b in bad):
            drift.append('%s: model %s, code %s' % (c['gk'], 'returns' if expected_return else 'raises ' + esc['cls'],
                                                  describe(obs)))
    elif obs['k'] == 'raise':
        if type(e).__name__ != esc['cls']:
            drift.append('%s %s: model escapes %s, code %s' % (c['gk'], trail[-1], esc['cls'], type(e).__name__))
        else:
            m = esc['msg']
            if m['t'] == 'text' and not quoted:
                syms, _ = symbolise(str(e))
                if syms != m['s']:
                    drift.append('%s %s %s: message shape %s, model %s' % (c['gk'], trail[-1], esc['cls'], syms, m['s']))
            elif m['t'] == 'generic' and str(e) != generic_text(inp):
                drift.append('generic message wording: %r' % str(e))
    if expected_return and obs['k'] == 'return' and 'rmsg' in inner and isinstance(obs.get('value'), dict):
        r = obs['value']
        blob = '|'.join([str(r.get('overall_message', '')), str(r.get('msg', ''))] +
                        [str(x.get('msg', '')) for x in r.get('input_list', [])])
        if RESULT_MSG[inner['rmsg']].replace('\n', '<br/>\n') not in blob:
            drift.append('%s: the feedback message %r is not in the returned result' % (c['gk'], RESULT_MSG[inner['rmsg']]))
        if ('Maximum credit for attempt' in blob) != st['ret']['noted']:
            drift.append('%s attempt %s credited %s: attempt-credit note %s, model %s' % (
                c['gk'], c.get('attempt'), inner['credited'], 'Maximum credit for attempt' in blob, st['ret']['noted']))
    if obs['observable'] and obs['entered'] != ('check' in trail):
        drift.append('%s: check entered %s, model trail %s' % (c['gk'], obs['entered'], trail))
    if c['gk'] in ('item', 'singlelist') and bool(g.__dict__.get('infer_calls')) != ('infer' in trail):
        drift.append('%s: inference ran %s, model trail %s' % (c['gk'], bool(g.__dict__.get('infer_calls')), trail))
    return bad, drift


def describe(obs):
    if obs['k'] == 'raise':
        return '%s(%r)' % (type(obs['exc']).__name__, str(obs['exc'])[:80])
    return obs['k']


def replay_states(states, extra):
    from engine import repo
    repo.activate()
    fx = fixtures()
    limit = extra['alarm']
    n = 0
    keys = set()
    bad, drifts = [], []
    sample = None
    missing = set()
    for st in states:
        if st['pc'] not in ('returned', 'escaped'):
            continue
        c, inner, origin, trail = st['c'], st['inner'], st['origin'], st['trail']
        src = origin if origin.get('k') == 'raise' else inner
        injected = ''
        ex = fault = infer_fault = None
        if src.get('k') == 'raise' and trail[-1] != 'post':
            injected = render_msg(src['msg'])
            ex = make_exc(src['cls'], injected)
            if ex is None:
                missing.add(src['cls'])
                continue
            if trail[-1] == 'infer':
                infer_fault = ex
            else:
                fault = ex
        try:
            g, expect, inp, kw, names = build_case(c, fault, infer_fault, origin, inner if inner.get('k') == 'return' else None)
        except NoConcreteInput:
            continue
        except Exception as e:  # noqa -- the instrument could not be built: machinery, reported by run()
            drifts.append('instrument for %s could not be built: %s %s' % (c['gk'], type(e).__name__, e))
            continue
        obs = spy_call(g, expect, inp, limit, **kw)
        n += 1
        b, d = judge(st, obs, g, inp, ex)
        keys.add((c['gk'], c['form'], c['debug'], trail[-1], src.get('cls', 'none'), st['esc'].get('cls', 'return')))
        if sample is None and src.get('k') == 'raise':
            sample = {'case': c, 'raised_inside': src.get('cls'), 'message': injected, 'model_escape': st['esc'],
                      'observed': describe(obs)}
        for cls, text in b:
            if len(bad) < 60:
                bad.append({'class': cls, 'kind': c['gk'], 'form': c['form'], 'debug': c['debug'], 'n': c['n'],
                            'variant': c['v'], 'expect': c['expect'], 'answers': c['answers'], 'credit': c['credit'],
                            'attempt': c.get('attempt', 0), 'result': [inner.get('credited'), inner.get('rmsg')],
                            'raised_inside': src.get('cls', 'none'), 'source': src.get('src', ''),
                            'message': injected, 'at': trail[-1],
                            'model_escape': st['esc'].get('cls', 'return'), 'observed': describe(obs), 'what': text})
            else:
                bad.append(None)
        for x in d:
            if len(drifts) < 20:
                drifts.append(x)
    return {'n': n, 'keys': sorted(keys), 'bad': bad, 'drift': drifts, 'sample': sample, 'missing': sorted(missing)}


# ------------------------------------------------------------------------------------------------ anticipated text
# spec -> code for AnticipatedText: the class the student must see for a token string comes from the specification
# (ExprGrammar / ExprEval through AnticipatedText!Anticipated), never from a run of the code under test.
AT_TEXT = {'n2': '2', 'n0': '0', 'pct': '%', 'v': 'x_{0}', 'z': 'q_{x}', 'u': 'X_{0}', 'f': 'f', 'h': 'F',
           'lp': '(', 'rp': ')', 'lb': '[', 'rb': ']', 'cm': ',', 'pl': '+', 'dv': '/', 'bs': '\\'}
AT_WORDY = {'n2', 'n0', 'pct', 'v', 'z', 'u', 'f', 'h'}
AT_NESTINGS = ['formula', 'matrix', 'singlelist', 'list', 'nested', 'sumgrader']


def at_render(ids, z='q_{x}', spaced=False):
    """TAB between tokens that would otherwise merge (spaces are deleted before lexing); `spaced` sprinkles blanks
    where they cannot change the token sequence"""
    parts = []
    for j, i in enumerate(ids):
        if j and i in AT_WORDY and ids[j - 1] in AT_WORDY:
            parts.append(' \t ' if spaced else '\t')
        elif j and spaced:
            parts.append(' ')
        parts.append(z if i == 'z' else AT_TEXT[i])
    return (' ' if spaced else '') + ''.join(parts)


AT_SPELL = {'fmt0': '{0}', 'fmtx': '{x}', 'pcts': '%s', 'pctmap': '%(a)s', 'bslash': 'a\\b', 'lbrace': '{', 'rbrace': '}',
            'braces': '{}', 'pct': '%', 'nl': 'a\nb'}
AT_AUTHOR_MSG = 'use {0} and {x}, or %s %(a)s, not a\\b\nsecond line'


# ten concrete formulas per array situation of AnticipatedText (selected by the position of the "spelling")
AT_ARRAY = {
    'arrayPowNonInt': ['A^2.5', 'A^0.5', 'A^(1/2)', 'A^-1.5', 'A^(x_{0}/2)', 'A^pi', 'A^e', 'A^(2+0.1)', 'A^1.0001', '[[1,2],[3,4]]^0.5'],
    'arrayPowComplex': ['A^i', 'A^(2+0*i)', 'A^(3*j)', 'A^(1+i)', '[[1,2],[3,4]]^i', 'A^(i^2)', 'A^(2*i/i)', 'A^(i*i*i*i)', 'A^-i', 'A^(x_{0}*i)'],
    'arrayPowArray': ['A^A', '2^A', 'A^v', 'x_{0}^v', 'v^v', 'e^A', '2^[1,2]', 'A^[[1,0],[0,1]]', 'A^B', 'i^A'],
    'arrayAddScalar': ['A+1', '1+A', 'A-2', 'v+1', '[1,2]+3', 'A+x_{0}', 'x_{0}-v', 'v-i', 'B+0.5', '2*A+1'],
    'arrayShape': ['A+v', 'v+[1,2,3]', 'A*[1,2,3]', '[1,2]*[1,2,3]', 'A-B', 'B*B', 'B*v', '[1,2,3]*A', 'v-A', 'A+[[1,2,3],[4,5,6]]'],
    'arrayDivide': ['1/A', 'A/A', 'v/v', '2/[1,2]', 'A/v', 'x_{0}/A', 'v/A', 'B/B', '1/v', 'A/[[1,0],[0,1]]'],
    'notSquarePow': ['v^2', '[1,2]^2', 'v^-1', 'B^2', 'B^-1', 'v^0', '[[1,2,3],[4,5,6]]^3', 'v^x_{0}', 'B^0', '[1,2,3]^1'],
    'singularInverse': ['[[1,2],[2,4]]^-1', '[[0,0],[0,0]]^-1', '[[1,1],[1,1]]^-2', '(A-A)^-1', '[[1,2],[2,4]]^-3', '[[2,0],[0,0]]^-1',
                        '(A*0)^-1', '[[1,2,3],[4,5,6],[7,8,9]]^-1', '[[0,1],[0,0]]^-1', '[[1,2],[3,6]]^-1'],
    'tripleVector': ['v*v*v', '[1,2]*[3,4]*[5,6]', 'v*2*v*v', 'v*v*v*v', '[1,0]*[0,1]*[1,1]', 'v*v*2*v', 'x_{0}*v*v*v', 'v*[1,2]*v',
                     '[1,2]*v*[3,4]', 'v*v*v*2'],
}


def at_array_grader():
    if 'array' not in _AT_ARRAY:
        from mitxgraders import MatrixGrader
        from mitxgraders.helpers.calc import MathArray
        _AT_ARRAY['array'] = MatrixGrader(
            answers='x_{0}', variables=['x_{0}'], sample_from={'x_{0}': [5, 5]}, max_array_dim=2,
            user_constants={'A': MathArray([[1, 2], [3, 4]]), 'v': MathArray([1, 2]), 'B': MathArray([[1, 2, 3], [4, 5, 6]])})
    return _AT_ARRAY['array']


_AT_ARRAY = {}


# ten paddings of a short fragment (selected by the position of the "spelling"): %s is the fragment
AT_PAD = ['      %s', '%s      ', '   %s   ', '\t\t%s\t\t\t', '\n\n\n%s\n\n', ' \t\n%s\r\n ', '%s\n\n\n\n\n', '\r\n\r\n%s\r\n',
          '    \t%s', ' %s    \n']
AT_SHORT_INTERVALS = ['', '[', '(,)', '[1,]', '[,2)', '1,2', '(]', '[1', ',', '[12]']
AT_PADDED = {
    'intervalShort': lambda i: AT_PAD[i] % AT_SHORT_INTERVALS[i],
    'listBlankPadded': lambda i: 'a,' + AT_PAD[i] % '',
    'stringShortPadded': lambda i: AT_PAD[i] % ['', 'a', 'ab', 'abc', '', 'a b', 'x', '', 'ab', 'a'][i],
}


def at_other(sit, sp):
    """an anticipated problem outside the formula language -> (grader, input, requirement)"""
    from mitxgraders import IntervalGrader, SumGrader, SingleListGrader, StringGrader, ListGrader
    if sit in AT_ARRAY:
        return at_array_grader(), AT_ARRAY[sit][sorted(AT_SPELL).index(sp)], 'single'
    if sit in AT_PADDED:
        i = sorted(AT_SPELL).index(sp)
        t = AT_PADDED[sit](i)
        if sit == 'intervalShort':
            if i % 3 == 0:
                return IntervalGrader(answers='[1,2]'), t, 'single'
            if i % 3 == 1:
                return IntervalGrader(answers=['{', '1', '2', '>'], opening_brackets='{[', closing_brackets='>]',
                                      delimiter=';'), t, 'single'
            return ListGrader(answers=['[1,2]', '(3,4)'], subgraders=IntervalGrader(), ordered=True), ['[1,2]', t], 'multi'
        if sit == 'listBlankPadded':
            return SingleListGrader(answers=['a', 'b'], subgrader=StringGrader()), t, 'single'
        return StringGrader(accept_any=True, min_length=6, explain_minimums='err'), t, 'single'
    t = AT_SPELL[sp]
    if sit == 'intervalOpen':
        return IntervalGrader(answers='[1,2]'), t[0] + '1,2]', 'single'
    if sit == 'intervalClose':
        return IntervalGrader(answers='[1,2]'), '[1,2' + t[-1], 'single'
    if sit == 'sumVariable':
        g = SumGrader(answers={'lower': '1', 'upper': '3', 'summand': 'n', 'summation_variable': 'n'},
                      input_positions={'summand': 1, 'summation_variable': 2})
        return g, ['n', t], 'either'
    if sit == 'listBlank':
        return SingleListGrader(answers=['a', 'b'], subgrader=StringGrader()), t + ', ', 'single'
    if sit == 'listLength':
        return SingleListGrader(answers=['a', 'b'], subgrader=StringGrader(), length_error=True), t + ',a,b', 'single'
    if sit == 'stringPattern':
        return StringGrader(answers='cat', validation_pattern='[a-z]+', invalid_msg=AT_AUTHOR_MSG), t, 'single'
    if sit == 'stringShort':
        return StringGrader(accept_any=True, min_length=30, explain_minimums='err'), t, 'single'
    raise ValueError(sit)


_AT = {}


def at_graders():
    """the scope of AnticipatedText as real graders: x_{0} for everybody, q_{x} for the author only, f(a) = a + 1"""
    if _AT:
        return _AT
    from mitxgraders import FormulaGrader, MatrixGrader, SingleListGrader, ListGrader, SumGrader

    def scope(cls=FormulaGrader, **k):
        return cls(variables=['x_{0}', 'q_{x}'], instructor_vars=['q_{x}'], user_functions={'f': lambda a: a + 1},
                   sample_from={'x_{0}': [5, 5], 'q_{x}': [3, 3]}, **k)
    _AT['scope'] = scope
    _AT['formula'] = scope(answers='x_{0}+2')
    _AT['matrix'] = scope(MatrixGrader, answers='x_{0}+2', max_array_dim=2)
    _AT['singlelist'] = SingleListGrader(answers=['x_{0}', '2'], delimiter=';', subgrader=scope())
    _AT['list'] = ListGrader(answers=['2', 'x_{0}'], subgraders=scope())
    _AT['nested'] = ListGrader(answers=[['x_{0}', '2'], '2'], grouping=[1, 1, 2], ordered=True,
                               subgraders=[ListGrader(subgraders=scope()), scope()])
    _AT['sumgrader'] = SumGrader(answers={'lower': '1', 'upper': '2', 'summand': 'x_{0}', 'summation_variable': 'n'},
                                 input_positions={'summand': 1}, variables=['x_{0}'],
                                 user_functions={'f': lambda a: a + 1}, sample_from={'x_{0}': [5, 5]})
    return _AT


def at_submissions(ids, want, echo, k):
    """the concrete calls for one enumerated string -> [(label, grader, input, requirement)]"""
    from mitxgraders import ListGrader, FormulaGrader
    A = at_graders()
    text = at_render(ids)
    subs = [('formula', A['formula'], text, 'single')]
    nest = AT_NESTINGS[1 + k % (len(AT_NESTINGS) - 1)] if (k // 5) % (2 if len(ids) <= 4 else 4) == 0 else None
    if nest == 'matrix':
        subs.append((nest, A[nest], text, 'single'))
    elif nest == 'singlelist':
        subs.append((nest, A[nest], (text + ';2') if k % 2 else ('2;' + text), 'single'))
    elif nest == 'list':
        subs.append((nest, A[nest], [text, '2'] if k % 2 else ['2', text], 'multi'))
    elif nest == 'nested':
        subs.append((nest, A[nest], [['2', text, '2'], [text, '2', '2'], ['x_{0}', '2', text]][k % 3], 'multi'))
    elif nest == 'sumgrader' and 'z' not in ids:          # a sum has no instructor-only names; same classes otherwise
        subs.append((nest, A[nest], text if k % 2 else [text], 'either'))
    if 'z' in ids and want == 'UndefinedVariable':
        # the other author-only names: the boxes of a list grader see each other as sibling_N, students do not
        sib = at_render(ids, z='sibling_2')
        g = ListGrader(answers=['x_{0}', '3'], ordered=True,
                       subgraders=FormulaGrader(variables=['x_{0}'], user_functions={'f': lambda a: a + 1},
                                                sample_from={'x_{0}': [5, 5]}))
        subs.append(('sibling', g, [sib, '3'], 'multi'))
    if echo:
        # the student submits exactly what the author wrote as the answer (which may use the author-only name)
        g = A['scope'](answers=text)
        subs.append(('echo', g, text, 'single'))
        subs.append(('echo-respaced', g, at_render(ids, spaced=True), 'single'))
        g2 = A['scope'](answers=(text, {'expect': 'x_{0}', 'grade_decimal': 0.5}))
        subs.append(('echo-two-answers', g2, text, 'single'))
        sib = at_render(ids, z='sibling_2')
        g3 = ListGrader(answers=[sib, '3'], ordered=True,
                        subgraders=FormulaGrader(variables=['x_{0}'], user_functions={'f': lambda a: a + 1},
                                                 sample_from={'x_{0}': [5, 5]}))
        subs.append(('echo-sibling', g3, [sib, '3'], 'multi'))
    return subs


def replay_anticipated(states, extra):
    from engine import repo
    repo.activate()
    fixtures()
    limit = extra['alarm']
    n = cases = 0
    keys = set()
    bad = []
    sample = None
    for st in states:
        c, out = st['c'], st['out']
        if c['kind'] == 'other':
            g, inp, req = at_other(c['sit'], c['sp'])
            ids = [c['sit'], c['sp']]
            subs = [(c['sit'], g, inp, req)]
        elif c['kind'] != 'case' or out['want'] == 'none':
            continue
        else:
            ids = c['ids']
            if (extra.get('hostile_only') or len(ids) > 4) and not any(t in ('v', 'z', 'u', 'bs', 'pct') for t in ids):
                continue                   # plain spellings only: the domain of C03 (replayed up to 4 tokens in thorough)
            k = sum((j + 1) * (sorted(AT_TEXT).index(t) + 1) for j, t in enumerate(ids))
            subs = at_submissions(ids, out['want'], out['echo'], k)
        cases += 1
        for label, g, inp, req in subs:
            res = spy_call(g, None, inp, limit)
            n += 1
            keys.add((label, out['sees'], out['want']))
            broken = statement_check(False, req, inp, res)
            got = type(res['exc']).__name__ if res['k'] == 'raise' else res['k']
            # a refinement (a subclass of the documented class) still IS that class: only its loss is a violation
            if got != out['want'] and not (res['k'] == 'raise' and out['want'] in mro_names(type(res['exc']))):
                broken.append('anticipated-class-lost')
            if sample is None and label != 'formula':
                sample = {'tokens': ids, 'submitted': inp, 'to': label, 'spec_class': out['want'], 'observed': describe(res)}
            for cls in broken:
                if len(bad) < 40:
                    bad.append({'class': cls, 'part': 'anticipated', 'tokens': ids, 'input': inp, 'to': label,
                                'problem': out['sees'], 'spec_class': out['want'], 'observed': describe(res),
                                'left_check': type(res['inner']).__name__ if res['inner'] is not None else 'nothing'})
                else:
                    bad.append(None)
    return {'n': n, 'cases': cases, 'keys': sorted(keys), 'bad': bad, 'sample': sample}


# ------------------------------------------------------------------------------------------------ shared objects
def shared_chain(cfg, faults):
    """objects 1..3 of ErrorChannelShared as real graders sharing their subgrader objects; the first box of a
    submission selects what the leaf does"""
    from mitxgraders import ListGrader
    fx = fixtures()
    table = {('E1', 'ok'): 1}
    texts = {}
    for i, f in enumerate(faults):
        text = render_msg(f['msg'])
        table[('E1', 'fault%d' % i)] = ('raise', make_exc(f['cls'], text))
        texts[(f['cls'], tuple(f['msg']))] = 'fault%d' % i
    leaf = fx['TableGrader'](answers='E1', table=table, debug=cfg[2])
    inner = ListGrader(answers=['E1', 'E1'], subgraders=leaf, ordered=True, debug=cfg[1])
    outer = ListGrader(answers=[['E1', 'E1'], ['E1', 'E1']], subgraders=inner, grouping=[1, 1, 2, 2], ordered=True,
                       debug=cfg[0])
    return [outer, inner, leaf], texts


def replay_shared(states, extra):
    from engine import repo
    repo.activate()
    fx = fixtures()
    MITx = fx['MITxError']
    limit, maxcalls = extra['alarm'], extra['maxcalls']
    n = hists = 0
    keys = set()
    bad, drifts = [], []
    for st in states:
        if st['pc'] != 'idle' or len(st['hist']) != maxcalls:
            continue
        cfg, hist = st['cfg'], st['hist']
        faults = []
        for h in hist:
            if h['inner']['k'] == 'raise' and [h['inner']['cls'], h['inner']['msg']] not in [[f['cls'], f['msg']] for f in faults]:
                faults.append({'cls': h['inner']['cls'], 'msg': h['inner']['msg']})
        objs, texts = shared_chain(cfg, faults)
        hists += 1
        trail = []
        for pos, h in enumerate(hist):
            o = h['o']
            first = 'ok' if h['inner']['k'] == 'return' else texts[(h['inner']['cls'], tuple(h['inner']['msg']))]
            boxes = 2 ** (3 - o)
            inp = first if boxes == 1 else [first] + ['ok'] * (boxes - 1)
            res = spy_call(objs[o - 1], None, inp, limit)
            n += 1
            trail.append({'object': o, 'debug_configured': cfg[o - 1], 'input': inp, 'observed': describe(res)})
            keys.add((o, cfg[o - 1], pos, h['inner'].get('cls', 'return'), h['want'].get('cls', 'return')))
            # judged against the CONFIGURED flag of the called object (hist[i].want)
            broken = statement_check(cfg[o - 1], 'single' if boxes == 1 else 'multi', inp, res)
            want = h['want']
            if not cfg[o - 1] and not broken:
                if (want['k'] == 'raise') != (res['k'] == 'raise'):
                    broken.append('error-swallowed' if want['k'] == 'raise' else 'escape-outside-family')
                elif want['k'] == 'raise' and type(res['exc']).__name__ != want['cls']:
                    broken.append('class-not-kept' if h['inner']['fam'] else 'generic-message')
            for cls in broken:
                if len(bad) < 40:
                    bad.append({'class': cls, 'part': 'shared', 'debug_flags': cfg, 'history': list(trail),
                                'leaf_faults': faults,
                                'call': pos + 1, 'spec': want.get('cls', 'return')})
                else:
                    bad.append(None)
            if not broken and cfg[o - 1] and want['k'] == 'raise' and (res['k'] != 'raise' or type(res['exc']).__name__ != want['cls']):
                if len(drifts) < 10:
                    drifts.append('shared objects, debug on: model escapes %s, code %s' % (want['cls'], describe(res)))
            now = [g.config['debug'] for g in objs]
            if now != cfg and len(drifts) < 10:
                drifts.append('shared objects: configured debug flags %s read %s after call %d of %s' % (
                    cfg, now, pos + 1, [(t['object'], t['input']) for t in trail]))
    return {'n': n, 'hists': hists, 'keys': sorted(keys), 'bad': bad, 'drift': drifts}



# ------------------------------------------------------------------------------------------------ code -> spec
FUNCS1 = ['sin', 'cos', 'tan', 'sec', 'csc', 'cot', 'sqrt', 'log10', 'log2', 'ln', 'exp', 'arccos', 'arcsin', 'arctan',
          'arcsec', 'arccsc', 'arccot', 'abs', 'fact', 'factorial', 'sinh', 'cosh', 'tanh', 'sech', 'csch', 'coth',
          'arcsinh', 'arccosh', 'arctanh', 'arcsech', 'arccsch', 'arccoth', 're', 'im', 'conj', 'floor', 'ceil',
          'trans', 'det', 'tr', 'adj', 'ctrans', 'norm']
POLES = ['tan(pi/2)', 'sec(pi/2)', 'csc(0)', 'cot(0)', 'ln(0)', 'log10(0)', 'log2(0)', 'arcsec(0)', 'arccsc(0)',
         'arccot(0)', 'coth(0)', 'csch(0)', 'arctanh(1)', 'arctanh(-1)', 'arccoth(1)', 'arcsech(0)', 'arccsch(0)',
         'fact(-1)', 'fact(-2)', 'factorial(-1)', 'fact(0.5)', 'fact(-0.5)', 'fact(i)', '1/0', '0/0', '0^-1', '0^(-1/2)',
         '1/(x-x)', '(x-x)/(x-x)', 'x/0', '0^0', '0^i', '(0+0*i)^-1', '1/(0*i)', '0/0*0', '1/0-1/0', '2%/0',
         'arctan2(0,0)', 'kronecker(0.5,1)', 'ln(-1)', 'sqrt(-1)', 'arcsin(2)', 'arccos(-2)', 'arccosh(0)', '(-8)^(1/3)']
OVERFLOW = ['exp(1000)', '10^400', '1e400', '1e308*10', '-1e308*10', 'sinh(1000)', 'cosh(-1000)', 'fact(171)',
            'fact(1000)', '2^9999', '9^9^9', '2^2^2^2^2^2', 'exp(exp(exp(10)))', '1e-400', '10^-400', '1e308+1e308',
            '1e200*1e200', '1e200^2', 'exp(710)', 'tan(1e300)', '1e99999', '9' * 400, '1.' + '0' * 400 + '1',
            '1e308*10-1e308*10', 'exp(1000)/exp(1000)', 'exp(1000)*0', '0*1e400', 'ln(1e400)', 'sqrt(1e400)']
SHAPES = ['[1,2]+[1,2,3]', '[1,2]*[[1,2,3]]', '[[1,2],[3]]', '[1,[2,3]]', '[[1,2],3]', '[1,2]^2', '2^[1,2]',
          '[[1,2],[3,4]]^-1', '[[1,1],[1,1]]^-1', '[[1,2],[3,4]]^0.5', '[[1,2,3],[4,5,6]]^2', '[[1,2,3],[4,5,6]]^-1',
          '[1,2]+1', '1-[1,2]', '[1,2]/[1,2]', '1/[1,2]', '[[1,2],[3,4]]/[[1,2],[3,4]]', '[1,2]*[1,2,3]',
          '[[1,2],[3,4]]*[1,2,3]', '[1,2,3]*[[1,2],[3,4]]', '[[[1,2],[3,4]],[[5,6],[7,8]]]*[1,2]', '[[[[1]]]]',
          '[[[[[[1]]]]]]', '[]', '[[]]', '[,]', '[1,]', '[,1]', '[[1,2],[3,4]]^[1,2]', '[[1,2],[3,4]]^i',
          '[[1,2],[3,4]]^[[1,2],[3,4]]', '[1,2]^[1,2]', 'det([1,2])', 'det([[1,2,3],[4,5,6]])', 'tr([1,2])',
          'trans(1)', 'cross([1,2],[1,2])', 'cross([1,2,3],[1,2])', 'cross(1,2)', 'norm(1,2)', 'abs([1,2])',
          'sin([1,2])', 'sqrt([[1,2],[3,4]])', 'exp([[1,2],[3,4]])', 're([1,2])', 'A^-1', 'A^0.5', 'A^1000', 'A^-1000',
          'A*v*A', 'v*A', 'v+A', 'A+1', 'A/A', '1/A', 'A/v', 'v/v', '1/v', 'A^A', 'A^v', '2^A', 'A^[1]', 'A^i', 'v^2',
          'v^-1', 'v*v*v', 'A*A*A*v*v', 'det(v)', 'det(A,A)', 'trans(v,v)', 'I*v', 'I+A', 'I^-1', '[v,v]', '[A,A]',
          '[v,1]', '[[v]]', 'A*[1,2,3]', '[1,2]*A*[1,2,3]', 'ctrans(1)', 'adj(v)', 'norm(A)', 'A-v', 'A^(1/2)',
          'rot(v,A,1)', 'rot(1,A,v)', 'rot(A,v,x)', 'rot(v,A)', 'rot([1,2,3],A,1)', 'rot(v,[[1,2,3],[4,5,6]],1)',
          'rot(v,A,[1])', 'rot()', 'rot(rot(v,A,1),v,A)', '0*A^-1', '(A-A)^-1', '[[1,2],[2,4]]^-1*v', '[[0,0],[0,0]]^-1', '[[1e200,0],[0,1e200]]^2',
          '[[1e308,1e308],[1e308,1e308]]*[[10,10],[10,10]]', '[1e308,1e308]*[10,10]', '[1,2]*[[1e308,1e308],[1e308,1e308]]*10']
UNKNOWN = ['q', 'xx', 'X', 'Y', 'unknown(1)', 'Sin(1)', 'SIN(1)', 'sine(1)', 'x y', '2x', 'x2', 'xy', 'pi2', 'e1',
           'lambda', 'None', 'True', 'nan', 'inf', 'infty', '-infty', 'infinity', '__import__', 'os.system', 'x.real',
           'x_', '_x', "x'", "x''''", 'x_{1}', 'x_{1', 'x_{1}^{2', 'x^{2}', 'T_{1}^{2}', 'x_1_2', 'alpha', 'Delta',
           'f', 'f f', 'sibling_1', 'sibling_2', 'sibling_3^2', 'sibling_1+sibling_2', 'sin', 'sin sin', 'sin^2(x)', 'sin x', 'j', 'I', 'ii', 'ee', 'PI', 'k', 'm', '5q', '5 q', '1z']
ARITY = ['sin()', 'sin(1,2)', 'sin(,)', 'sin(1,)', 'sin(,1)', 'f()', 'f(1,2)', 'g(1)', 'g()', 'g(1,2,3)', 'max()',
         'min()', 'max(1)', 'min(1)', 'max([1,2],1)', 'arctan2(1)', 'arctan2(1,2,3)', 'kronecker(1)',
         'kronecker(1,2,3)', 'cross(1)', 'norm()', 'det()', 'abs()', 'abs(1,2)', 'fact()', 'fact(1,2)', 'sqrt(1)(2)',
         'sin(1)(2)', 'f(g)', 'f(sin)', 'sin(cos)', 'g(f,f)', 'f(f(f()))', 'delta()', 'x(1)', 'pi(1)', '2(3)', '(2)(3)']
BLANKS = ['', ' ', '  ', '\t', '\n', ',', ',,', ', ,', ' , ', '1,', ',1', '1,,2', '1, ,2', ',1,2', '1,2,', '1,2,,',
          ';', ';;', '1;', ';1', '1;;2', '1,2;', ';1,2', '1,2;;3,4', '1,2;3,', ',;,', '1 , 2 , ', ',,,,,,,,']
STRAY = ['1;2', '1,2', '1,2,3', '1 2', '1  2', '1..2', '1.2.3', '1,2)', '(1,2', '1+', '+', '*1', '1*', '1**2', '1//2',
         '1^^2', '^', '1+*2', '1-/2', '--1', '++1', '+-+-1', '1+-', '()', '(,)', '(1)(', ')(', '1)', '(1', '1]', '[1',
         '{1}', '{', '}', '1|2', '|1', '||', '|||', '|1|2|', '1:2', '1=1', 'x=1', '1==1', '1<2', '1!', '5!', '1?', '1#',
         '1$', '1@2', '1&2', '1_2', '1~2', '`1`', '"1"', "'1'", '1\\2', '\\frac{1}{2}', '$x$', '1e', '1e+', 'e5', '1.e.5',
         '.', '..', '.e1', '0x10', '1_000', '1,000', '1e1.5', '1e1e1', '5%%', '%', '%5', '1%2', '1 k', 'k1', '1kk']
NONASCII = ['１２', '١٢', '²', 'x²', '2×3', '6÷2', '3−2', '2·3', '∞',
            'π', '2π', 'sin(π)', 'α', '√2', '1 2', '1 2', '1​2', '1　2',
            ' 1', '1 ', '　', '​', '﻿1', 'é', 'café', '\U0001f600', '1+\U0001f600',
            'x́', '‮1+2', '\x00', '1\x002', '\x7f', '\x1b[31m1', '＋', '1＋2', '1＊2', '（1）',
            '½', '1⁄' '2', '①', '१२', '十', '1−−2', '≤', '1，2', '1،2',
            '1;2', ' ', '1 2', '\u0085', '1\x0b2', '1\x0c2', '1\r2', '1\r\n2', '퟿', 'x₁', 'ℯ',
            'A⁻¹', '∑', '∫', '±1', '′', "x′", '［1,2］', '⟨1,2⟩']
TEMPLATES = ['{}', '{}', '{}', '{}+1', '2*({})', '({})', 'sin({})', '[{},1]', '{}-{}', '1/({})', '({})^2', '-{}',
             '{}*x', 'x+{}', '{}/{}', 'abs({})', '{} ', ' {}', '({})*0', 'f({})', 'g({},1)', 'sqrt({})^2']
NONTEXT_OBJECTS = [5, None, 1.5, b'1', ('1', '2'), {'a': 1}, True, 0, [], ['1'], ['1', '2'], [['1', '2']],
                   ['1', ['2']], ['1', 5], [None, '1'], [b'1', '2'], ['1', '2', '3'], ['1', 2.0], [5], [None],
                   [['1'], ['2']], ['1', ('2',)], {'1'}, 1 + 2j, ['1', None, '3']]


def brackets(rng):
    d = rng.choice([1, 2, 3, 5, 8, 12, 20, 30, 45, 60, 100, 150, 300, 500, 1000, 1500, 2000])
    o, cl = rng.choice([('(', ')'), ('[', ']'), ('(', ')'), ('sin(', ')'), ('{', '}'), ('|', '|'), ('-(', ')'), ('[1,', ']')])
    core = rng.choice(['1', 'x', '', '1+1', 'x,1'])
    r = rng.random()
    if r < 0.3:
        return o * d + core + cl * d
    if r < 0.45:
        return o * d + core
    if r < 0.6:
        return core + cl * d
    if r < 0.7:
        return o * d + core + cl * (d - 1)
    if r < 0.8:
        return '(' * d + core + ']' * d
    if r < 0.9:
        return ''.join(rng.choice('()[]{}') for _ in range(min(d, 200)))
    return ('(1+' * d) + '1' + (')' * rng.choice([d, d + 1, max(d - 1, 0)]))


def longish(rng):
    d = rng.choice([10, 50, 200, 600, 1500])
    return rng.choice([lambda: '1' + '+1' * d, lambda: '2^' * min(d, 400) + '2', lambda: '-' * d + '1',
                       lambda: '1' * d, lambda: 'x' * d, lambda: '1' + '*x' * d, lambda: ',' * d,
                       lambda: '1,' * d + '1', lambda: ' ' * d, lambda: 'sin' * d, lambda: '1.' + '5' * d,
                       lambda: '[' + ','.join(['1'] * d) + ']', lambda: '1' + '^2' * min(d, 300),
                       lambda: '+'.join('x_%d' % i for i in range(min(d, 300)))])()


def hostile(rng, exprlib):
    """-> (category, text)"""
    r = rng.random()
    if r < 0.22:
        case = exprlib.rand_case(rng, 0)
        return 'grammar-' + case['kind'], case['text']
    if r < 0.30:
        toks = exprlib.gen_sum(rng, rng.randint(1, 4))
        for _ in range(rng.randint(1, 3)):
            toks = exprlib.corrupt(rng, toks)
        return 'grammar-corrupted', exprlib.render_records(toks, rng)
    if r < 0.40:
        return 'brackets', brackets(rng)
    cats = [('pole', POLES), ('overflow', OVERFLOW), ('shape', SHAPES), ('unknown', UNKNOWN), ('arity', ARITY),
            ('blank', BLANKS), ('stray', STRAY), ('nonascii', NONASCII)]
    if r < 0.44:
        return 'long', longish(rng)
    if r < 0.48:
        fn = rng.choice(FUNCS1)
        arg = rng.choice(['0', '-1', '1', '2', 'i', '1e400', '-0.5', '1000', '-1000', 'pi/2', '[1,2]', 'A', 'v', '',
                          'x-x', '1/0', '0.5', '1e-320', 'infty', 'nan'])
        return 'function-domain', '%s(%s)' % (fn, arg)
    cat, pool = rng.choice(cats)
    base = rng.choice(pool)
    if cat in ('blank',):
        return cat, base
    t = rng.choice(TEMPLATES)
    if cat in ('stray', 'nonascii') and rng.random() < 0.5:
        t = '{}'
    return cat, t.replace('{}', base)


def real_graders(debug):
    """id -> (grader, requirement, number of boxes or 0 for a single text, delimiter or None)"""
    from mitxgraders import (FormulaGrader, NumericalGrader, MatrixGrader, SingleListGrader, ListGrader, IntervalGrader,
                             SumGrader, StringGrader, RealMatrices, RealVectors, IdentityMatrixMultiples)
    uf = {'f': lambda a: a + 1, 'g': lambda a, b: a - 2 * b}
    fvars = ['x', 'x_1', "y'", 'T_{1}^{2}']
    form = lambda **k: FormulaGrader(variables=fvars, user_functions=uf, metric_suffixes=True, **k)  # noqa
    from mitxgraders import specify_domain

    @specify_domain(input_shapes=[[2], [2, 2], [1]], display_name='rot')
    def rot(vec, m, angle):
        return m * vec * angle

    mat = lambda **k: MatrixGrader(variables=['A', 'v', 'x'], identity_dim=2, max_array_dim=2,  # noqa
                                   user_functions={'rot': rot},
                                   sample_from={'A': RealMatrices(), 'v': RealVectors(shape=2)}, **k)
    G = {}
    G['formula'] = (form(answers='x*f(x)+2', debug=debug), 'single', 0, None)
    G['formula-strict'] = (form(answers={'expect': 'x^2', 'msg': 'line one\nline two'}, whitelist=['sin', 'cos'],
                                forbidden_strings=['+x'], required_functions=['sin'], tolerance='1%', samples=2,
                                debug=debug), 'single', 0, None)
    G['numerical'] = (NumericalGrader(answers='3.5', tolerance=0.1, debug=debug), 'single', 0, None)
    G['matrix'] = (mat(answers='[[1,2],[3,4]]*A', debug=debug), 'single', 0, None)
    G['matrix-lenient'] = (mat(answers='A*v', shape_errors=False, negative_powers=False, answer_shape_mismatch={
        'is_raised': False, 'msg_detail': 'shape'}, entry_partial_credit='proportional', debug=debug), 'single', 0, None)
    G['singlelist'] = (SingleListGrader(answers=['1', '2'], subgrader=form(), debug=debug), 'single', 0, ',')
    G['singlelist-lenient'] = (SingleListGrader(answers=['1', 'x', '3'], subgrader=form(), ordered=True, length_error=False,
                                                missing_error=False, debug=debug), 'single', 0, ',')
    G['singlelist-nested'] = (SingleListGrader(answers=[['1', '2'], ['3', 'x']], delimiter=';', debug=debug,
                                               subgrader=SingleListGrader(subgrader=form())), 'single', 0, ';')
    G['singlelist-matrix'] = (SingleListGrader(answers=['[1,2]', 'A'], delimiter=';', subgrader=mat(), debug=debug),
                              'single', 0, ';')
    G['list'] = (ListGrader(answers=['1', 'x'], subgraders=form(), debug=debug), 'multi', 2, None)
    G['list-ordered'] = (ListGrader(answers=['1', 'abc', '[1,2]'], ordered=True, debug=debug,
                                    subgraders=[form(), StringGrader(), mat()]), 'multi', 3, None)
    G['list-nested'] = (ListGrader(answers=[['1', 'x'], ['2', '3']], grouping=[1, 1, 2, 2], debug=debug,
                                   subgraders=ListGrader(subgraders=form())), 'multi', 4, None)
    G['list-single'] = (ListGrader(answers=[['1', '2'], ['3', '4']], debug=debug,
                                   subgraders=SingleListGrader(subgrader=NumericalGrader())), 'multi', 2, ',')
    G['list-grouped-ordered'] = (ListGrader(answers=[['1', 'x'], 'x+1'], grouping=[1, 2, 1], ordered=True, debug=debug,
                                            subgraders=[ListGrader(subgraders=form(), ordered=True), form()]),
                                 'multi', 3, None)
    G['interval'] = (IntervalGrader(answers='[1,2)', debug=debug), 'single', 0, None)
    G['interval-formula'] = (IntervalGrader(answers=['(', 'x', 'x+1', ']'], subgrader=form(), debug=debug),
                             'single', 0, None)
    sumcfg = dict(answers={'lower': '1', 'upper': '5', 'summand': 'n^2', 'summation_variable': 'n'})
    G['sum-summand'] = (SumGrader(input_positions={'summand': 1}, debug=debug, **sumcfg), 'either', 1, None)
    G['sum-full'] = (SumGrader(input_positions={'lower': 1, 'upper': 2, 'summand': 3, 'summation_variable': 4},
                               variables=['x'], debug=debug, **sumcfg), 'either', 4, None)
    G['string'] = (StringGrader(answers='cat', debug=debug), 'single', 0, None)
    G['string-pattern'] = (StringGrader(answers='cat', validation_pattern='[a-z]+', min_length=2, strip_all=True,
                                        debug=debug), 'single', 0, None)
    G['string-any'] = (StringGrader(accept_any=True, min_words=2, explain_minimums='msg', debug=debug), 'single', 0, None)
    G['list-siblings'] = (ListGrader(answers=['2', '4'], ordered=True, subgraders=FormulaGrader(), debug=debug),
                          'multi', 2, None)
    # answers that are computed from the other input boxes: the students' own texts become dependent variables
    G['list-sibling-refs'] = (ListGrader(answers=['sibling_2*sibling_3', '2', '3'], ordered=True,
                                         subgraders=FormulaGrader(variables=['x']), debug=debug), 'multi', 3, None)
    G['list-sibling-chain'] = (ListGrader(answers=['sibling_2+1', 'sibling_3+1', '3'], ordered=True,
                                          subgraders=FormulaGrader(), debug=debug), 'multi', 3, None)
    # objects used in two places at once: stand-alone (with the debug flag of this table) AND as the subgrader of a
    # list grader that its author is debugging (debug=True whatever the table's flag: see CONFIGURED_DEBUG)
    child = FormulaGrader(answers='2*x', variables=['x'], max_array_dim=1, debug=debug)
    G['shared-child'] = (child, 'single', 0, None)
    G['shared-parent'] = (ListGrader(answers=['2*x', 'x^2'], subgraders=child, ordered=True, debug=True), 'multi', 2, None)
    leaf = form(answers='x+1', debug=debug)              # (own answers: it is also a stand-alone problem)
    inner = ListGrader(answers=['1', 'x'], subgraders=leaf, debug=debug)
    G['shared-leaf'] = (leaf, 'single', 0, None)
    G['shared-inner'] = (inner, 'multi', 2, None)
    G['shared-outer'] = (ListGrader(answers=[['1', 'x'], ['2', '3']], grouping=[1, 1, 2, 2], debug=True,
                                    subgraders=inner), 'multi', 4, None)
    # attempt-based credit (post-processing AFTER the try block) over results whose feedback is hostile to templating
    from mitxgraders import LinearCredit, ReciprocalCredit, GeometricCredit
    hostile_msgs = [RESULT_MSG[k] for k in sorted(RESULT_MSG) if k != 'none']
    G['credit-string'] = (StringGrader(answers=tuple({'expect': 'ans%d' % i, 'msg': m, 'grade_decimal': 1 if i % 2 else 0.5}
                                                     for i, m in enumerate(hostile_msgs)),
                                       wrong_msg='no: {0} %s \\(x_{1}\\)', attempt_based_credit=LinearCredit(), debug=debug),
                          'single', 0, None)
    G['credit-formula'] = (form(answers=({'expect': 'x^2', 'msg': '\\(\\frac{x^2}{1}\\) {0}'},
                                         {'expect': 'x^2/2', 'msg': 'half: {x^2} %d', 'grade_decimal': 0.5}),
                                attempt_based_credit=ReciprocalCredit(), debug=debug), 'single', 0, None)
    G['credit-singlelist'] = (SingleListGrader(answers=[{'expect': '1', 'msg': 'one {1}'}, {'expect': 'x', 'msg': '\\(a_{1}\\)\n%s'}],
                                               subgrader=form(), attempt_based_credit=GeometricCredit(), debug=debug),
                              'single', 0, ',')
    G['credit-list'] = (ListGrader(answers=[{'expect': '1', 'msg': '{}'}, {'expect': 'x', 'msg': 'b_{2} {'}],
                                   subgraders=form(), attempt_based_credit=LinearCredit(), debug=debug), 'multi', 2, None)
    # unconfigured item graders: the answer is inferred from the expect value of every call (hostile as well)
    G['infer-formula'] = (form(debug=debug), 'single', 0, None)
    G['infer-numerical'] = (NumericalGrader(debug=debug), 'single', 0, None)
    G['infer-matrix'] = (mat(debug=debug), 'single', 0, None)
    G['infer-singlelist'] = (SingleListGrader(subgrader=form(), debug=debug), 'single', 0, ',')
    G['infer-singlelist-nested'] = (SingleListGrader(delimiter=';', subgrader=SingleListGrader(subgrader=NumericalGrader()),
                                                     debug=debug), 'single', 0, ';')
    G['infer-interval'] = (IntervalGrader(debug=debug), 'single', 0, None)
    G['infer-string'] = (StringGrader(validation_pattern='[a-z ]+', debug=debug), 'single', 0, None)
    return G


CONFIGURED_DEBUG = {'shared-parent': True, 'shared-outer': True}      # debug flag these objects were built with
# submissions that earn (part of the) credit of the attempt-credit graders
CREDITED = {'credit-string': ['ans%d' % i for i in range(10)], 'credit-formula': ['x^2', 'x^2/2', 'x*x', ' x ^ 2 / 2'],
            'credit-singlelist': ['1,x', 'x,1', '1,2', '3,x'], 'credit-list': [['1', 'x'], ['x', '1'], ['1', '5'], ['7', 'x']]}
PRELUDE = {'shared-child': 'shared-parent', 'shared-inner': 'shared-outer', 'shared-leaf': 'shared-outer'}


SAFE_LIMITS = ['1', '5', '0', '-3', '10', '', ' ', 'a', 'n', 'x', '1.5', 'i', '1+i', 'infty', '-infty', '1/0', '[1,2]',
               '(', ')', '1,2', '١', '5.0', '2+3', '1e1', '--1', '0/0', 'sqrt(-1)', 'f(1)', '100']


def make_input(rng, gid, spec, exprlib):
    """-> (category, input object)"""
    g, req, boxes, delim = spec
    r = rng.random()
    if r < 0.06:
        return 'object', rng.choice(NONTEXT_OBJECTS)
    if r < 0.09:                                         # right kind of text, wrong nesting
        cat, t = hostile(rng, exprlib)
        return 'nesting', ([t] * max(boxes, 1) if req == 'single' else t)
    if gid.startswith('sum'):
        # limits keep their numeric size small: the cost of a sum is legitimately proportional to its limits
        cat, t = hostile(rng, exprlib)
        if len(t) > 300:
            t = t[:300]
        if gid == 'sum-summand':
            return cat, (t if rng.random() < 0.5 else [t])
        lo, up = rng.choice(SAFE_LIMITS), rng.choice(SAFE_LIMITS)
        var = rng.choice(['n', 'n', 'k', 'x', '', '1', 'n+1', 'i', 'pi', 'α', 'nn', 'n_1', 'sin', ' n', 'n,k'])
        return cat, [lo, up, t, var]
    if boxes:
        cat, t = hostile(rng, exprlib)
        items = [rng.choice(['1', 'x', '2', '3', '', ' ', 'abc', '[1,2]']) for _ in range(boxes)]
        k = rng.randrange(boxes)
        items[k] = t
        if rng.random() < 0.25:
            cat2, t2 = hostile(rng, exprlib)
            items[rng.randrange(boxes)] = t2
        if delim and rng.random() < 0.6:
            items = [delim.join([x, rng.choice(['1', '2', '', x])]) for x in items]
        if rng.random() < 0.05:
            items = items[:-1] if rng.random() < 0.5 else items + ['1']
        return cat, items
    cat, t = hostile(rng, exprlib)
    if delim:
        parts = [t] + [rng.choice(['1', '2', 'x', '', ' ', '3']) for _ in range(rng.choice([0, 1, 1, 2, 3]))]
        rng.shuffle(parts)
        inner_delim = ',' if delim == ';' else None
        if inner_delim and rng.random() < 0.6:
            parts = [inner_delim.join([p, rng.choice(['1', '', 'x'])]) for p in parts]
        t = delim.join(parts)
    return cat, t


MAX_ITEMS = 60


def cap_items(x):
    """keep at most MAX_ITEMS delimited items per text: matching a delimited list against its answers is cubic in
    the number of items (400 items take about 9 s), a cost legitimately bound to the input size"""
    if isinstance(x, list):
        return [cap_items(y) for y in x]
    if isinstance(x, str):
        for d in ',;':
            if x.count(d) >= MAX_ITEMS:
                x = d.join(x.split(d)[:MAX_ITEMS])
    return x


def form_of(inp):
    if isinstance(inp, str):
        return 'text', 1
    if isinstance(inp, list):
        if all(isinstance(x, str) for x in inp):
            return 'textlist', len(inp)
        return 'mixedlist', max(len(inp), 1)
    return 'nontext', 1


def outcome_record(res, inp):
    """observation of one run -> the inner / outward parts of a trace record"""
    fx = fixtures()
    inner = {'k': 'none', 'mro': [], 'syms': []}
    inner_runs = None
    if res['inner'] is not None:
        syms, inner_runs = symbolise(str(res['inner']))
        inner = {'k': 'raise', 'mro': mro_names(type(res['inner'])), 'syms': syms[:120]}
    elif res['entered'] and res['k'] == 'return':
        inner = {'k': 'return', 'mro': [], 'syms': []}
    elif res['entered']:
        inner = {'k': 'return', 'mro': [], 'syms': []}       # check returned, something after it raised
    out = {'k': 'return', 'mro': [], 'syms': [], 'kind': 'text', 'plural': False, 'names': False, 'same': True, 'nl': 0}
    if res['k'] == 'raise':
        e = res['exc']
        msg = str(e)
        syms, runs = symbolise(msg)
        out.update(k='raise', mro=mro_names(type(e)), syms=syms[:120], nl=min(msg.count('\n'), 1000))
        texts = inp if isinstance(inp, list) else [inp]
        if not res['entered']:
            out['kind'] = 'refusal'
        elif res['inner'] is not None and not isinstance(res['inner'], fx['MITxError']) and msg.startswith(GENERIC_PREFIX):
            out['kind'] = 'generic'
            out['plural'] = msg.startswith(GENERIC_PREFIX + 's ')
            out['names'] = all(isinstance(t, str) for t in texts) and names_in_order(msg, texts)
        if inner_runs is not None:
            out['same'] = runs == inner_runs
    return inner, out


def observe_chunk(items, extra):
    """items: (seed, count, first id) -> trace records (two per case: debug on, debug off)"""
    from engine import repo
    repo.activate()
    import numpy as np
    from engine.adapters import exprlib
    fixtures()
    limit = extra['alarm']
    G = {False: real_graders(False), True: real_graders(True)}
    ids = sorted(G[False])
    recs = []
    for seed, count, first in items:
        rng = random.Random(seed)
        for j in range(count):
            gid = rng.choice(ids)
            cat, inp = make_input(rng, gid, G[False][gid], exprlib)
            if G[False][gid][3]:
                inp = cap_items(inp)
            form, n = form_of(inp)
            expect = None
            if gid.startswith('infer-'):
                r = rng.random()
                expect = rng.choice(['1', 'x+1', '1,2', '1,2;3,4', '[1,2]', 'cat', '(1,2]']) if r < 0.5 else \
                    hostile(rng, exprlib)[1] if r < 0.9 else make_input(rng, gid, G[False][gid], exprlib)[1]
                if not isinstance(expect, str):
                    expect = '1'
                expect = cap_items(expect)
            kw = {}
            if gid in CREDITED:
                kw['attempt'] = rng.choice([1, 2, 2, 3, 4, 7])
                if rng.random() < 0.6:
                    cat, inp = 'credited', rng.choice(CREDITED[gid])
                    form, n = form_of(inp)
            prelude = None
            if gid in PRELUDE:
                # a history: first a submission to the debugging list problem that shares this object
                prelude = cap_items(make_input(rng, PRELUDE[gid], G[False][PRELUDE[gid]], exprlib)[1])
            pair = {}
            for debug in (True, False):
                g, req, boxes, delim = G[debug][gid]
                if prelude is not None:
                    spy_call(G[debug][PRELUDE[gid]][0], None, prelude, limit)
                random.seed(seed * 1000003 + j)
                np.random.seed((seed * 1000003 + j) % (2 ** 32))
                res = spy_call(g, expect, inp, limit, **kw)
                inner, out = outcome_record(res, inp)
                pair[debug] = (res, inner)
                recs.append({'ev': 'escape', 'id': 2 * (first + j) + (1 if debug else 2), 'cls': gid, 'cat': cat,
                             'debug': CONFIGURED_DEBUG.get(gid, debug), 'req': req, 'form': form, 'n': n,
                             'checked': res['entered'], 'inferring': expect is not None, 'expect': expect,
                             'after': prelude if prelude is None or _jsonable(prelude) else repr(prelude),
                             'attempt': kw.get('attempt'),
                             'inner': inner, 'outward': out, 'timed_out': res['k'] == 'timeout',
                             'observable': res['observable'],
                             'input': inp if isinstance(inp, (str, list)) and _jsonable(inp) else repr(inp)})
            # what the debug run learnt about the inner exception must agree with what was captured with debug off
            (rd, innd), (rn, innn) = pair[True], pair[False]
            recs[-1]['debug_run_inner'] = mro_names(type(rd['exc'])) if rd['k'] == 'raise' else []
            recs[-1]['agree'] = (innd['mro'] == innn['mro'])
    return recs


def _jsonable(x):
    if isinstance(x, str):
        try:
            x.encode('utf-8')
            return True
        except UnicodeError:
            return False
    if isinstance(x, list):
        return all(_jsonable(y) for y in x)
    return False


def short(x, n=160):
    s = x if isinstance(x, str) else repr(x)
    return s if len(s) <= n else s[:n] + '...(%d chars)' % len(s)


# ------------------------------------------------------------------------------------------------ run
def run(ctx):
    from engine.main import Machinery
    alarm = 10 if ctx.quick else 60
    # ---- the specification itself: liveness on the small instance, the unguarded-region exhibit
    ctx.tlc('graders/MC_ErrorChannel.tla', 'graders/MC_ErrorChannel_live.cfg', timeout=1800)
    r = ctx.tlc('graders/MC_ErrorChannel.tla', 'graders/MC_ErrorChannel_unguarded.cfg', must_hold=False, timeout=1800)
    if 'EscapeFamily' not in r.violated:
        raise Machinery('the unguarded instance was expected to violate EscapeFamily (model of the region before the '
                        'try block changed?)\n' + r.out[-1500:])
    ctx.extra['design_observation'] = ('TLC counterexample (MC_ErrorChannel_unguarded): an exception raised while the '
                                       'expect value is inferred (author-supplied infer_from_expect) escapes unwrapped; '
                                       'outside the property quantifier (no student text reaches that region)')
    # ---- spec -> code
    d = os.path.join(ctx.scratch, 'cases')
    ctx.tlc('graders/MC_ErrorChannel.tla', 'graders/MC_ErrorChannel_%s.cfg' % ctx.tier, dump=d, timeout=3000)
    res = dump.parallel(d + '.dump', 'engine.adapters.c02', 'replay_states', extra={'alarm': alarm})
    os.remove(d + '.dump')
    replayed = 0
    classes_reached = set()
    for part in res:
        replayed += part['n']
        ctx.traces_validated += part['n']
        ctx.evaluations += part['n']
        for k in part['keys']:
            ctx.nontrivial.add(tuple(k))
            classes_reached.add(k[4])
        if part['sample']:
            ctx.sample(part['sample'])
        for m in part['missing']:
            ctx.note_drift('class %s of Errors.tla does not exist in the code (fault not injected)' % m)
        for x in part['drift']:
            if x.startswith('instrument for'):
                raise Machinery(x)
            ctx.note_drift(x)
        for b in part['bad']:
            if b is None:
                continue
            sig = dict(b)
            what = sig.pop('what')
            ctx.violation(sig, 'fault injection, %s grader, %s input, debug=%s, %s raised at %s: %s' % (
                b['kind'], b['form'], b['debug'], b['raised_inside'], b['at'], what))
    if not replayed:
        raise Machinery('no finished state was replayed')
    # ---- spec -> code, second sentence of the statement: the anticipated class comes from the specification
    d = os.path.join(ctx.scratch, 'anticipated')
    ctx.tlc('graders/MC_AnticipatedText.tla', 'graders/MC_AnticipatedText_%s.cfg' % ctx.tier, dump=d, timeout=3000)
    res = dump.parallel(d + '.dump', 'engine.adapters.c02', 'replay_anticipated',
                        extra={'alarm': alarm, 'hostile_only': ctx.quick})
    os.remove(d + '.dump')
    anticipated = sum(part['n'] for part in res)
    if not anticipated:
        raise Machinery('no anticipated-text case was replayed')
    for part in res:
        ctx.traces_validated += part['n']
        ctx.evaluations += part['n']
        for k in part['keys']:
            ctx.nontrivial.add(('anticipated',) + tuple(k))
        if part['sample']:
            ctx.sample(part['sample'], limit=8)
        for b in part['bad']:
            if b is not None:
                ctx.violation(dict(b), 'anticipated problem %s in %r submitted to %s: the specification gives %s, edX '
                                       'saw %s (check() raised %s)' % (b['problem'], b['input'], b['to'], b['spec_class'],
                                                                       b['observed'], b['left_check']))
    # ---- spec -> code, histories on shared objects
    r = ctx.tlc('graders/MC_ErrorChannelShared.tla', 'graders/MC_ErrorChannelShared_norestore.cfg', must_hold=False,
                timeout=1800)
    if 'SameAsConfigured' not in r.violated:
        raise Machinery('the no-restore design variant was expected to violate SameAsConfigured\n' + r.out[-1500:])
    if not ctx.quick:
        ctx.tlc('graders/MC_ErrorChannelShared.tla', 'graders/MC_ErrorChannelShared_finally.cfg', timeout=1800)
    d = os.path.join(ctx.scratch, 'shared')
    ctx.tlc('graders/MC_ErrorChannelShared.tla', 'graders/MC_ErrorChannelShared_%s.cfg' % ctx.tier, dump=d, timeout=3000)
    res = dump.parallel(d + '.dump', 'engine.adapters.c02', 'replay_shared',
                        extra={'alarm': alarm, 'maxcalls': 2 if ctx.quick else 3})
    os.remove(d + '.dump')
    shared_calls = sum(part['n'] for part in res)
    if not shared_calls:
        raise Machinery('no shared-object history was replayed')
    for part in res:
        ctx.traces_validated += part['hists']
        ctx.evaluations += part['n']
        for k in part['keys']:
            ctx.nontrivial.add(('shared',) + tuple(k))
        for x in part['drift']:
            ctx.note_drift(x)
        for b in part['bad']:
            if b is not None:
                last = b['history'][-1]
                ctx.violation(dict(b), 'shared grader objects with debug flags %s: call %d (object %d, configured debug=%s, '
                                       'input %r) after %s: the specification gives %s, edX saw %s' % (
                                  b['debug_flags'], b['call'], last['object'], last['debug_configured'], last['input'],
                                  [(t['object'], t['input']) for t in b['history'][:-1]], b['spec'], last['observed']))
    # ---- code -> spec
    from engine import repo
    repo.activate()
    n_cases = 2500 if ctx.quick else 75000
    per = 50 if ctx.quick else 250
    items = []
    k = 0
    while k < n_cases:
        items.append((ctx.rng.randrange(1 << 30), min(per, n_cases - k), k))
        k += per
    chunks = dump.pmap('engine.adapters.c02', 'observe_chunk', items, extra={'alarm': alarm})
    recs = [r for ch in chunks for r in ch]
    meta = class_tree_record(ctx.seed, ctx.tier)
    fields = ('ev', 'id', 'cls', 'debug', 'req', 'form', 'n', 'checked', 'inferring', 'inner', 'outward', 'timed_out')
    rej = traces.validate(ctx, 'graders/ErrorChannelTrace.tla', 'graders/ErrorChannelTrace.cfg',
                          [meta] + [{k: r[k] for k in fields} for r in recs], timeout=3000)
    ctx.evaluations += len(recs)
    byid = {r['id']: r for r in recs}
    cats = {}
    inner_seen = set()
    disagree = 0
    unobservable = 0
    for r in recs:
        cats[r['cat']] = cats.get(r['cat'], 0) + 1
        ic = r['inner']['mro'][0] if r['inner']['mro'] else r['inner']['k']
        oc = r['outward']['mro'][0] if r['outward']['mro'] else 'return'
        inner_seen.add(ic)
        ctx.nontrivial.add((r['cls'], r['cat'], r['debug'], ic, oc))
        if r.get('agree') is False:
            disagree += 1
        if not r['observable']:
            unobservable += 1
    for r in recs[:400]:
        if r['inner']['k'] == 'raise' and not r['debug'] and 'MITxError' not in r['inner']['mro']:
            ctx.sample({'trace_record': {k: (short(v) if k == 'input' else v) for k, v in r.items()}})
            break
    if disagree:
        ctx.note_drift('%d cases: the exception seen with debug=True differs from the one captured with debug=False '
                       '(sampling not reproducible?)' % disagree)
    if unobservable:
        ctx.note_drift('%d runs: check() not observable at the instance' % unobservable)
    for i, clause in sorted(rej.items()):
        if i == 0:
            fx = fixtures()
            detail = {'code_tree': meta['class_tree']}
            if clause.startswith('family'):
                ctx.violation({'class': 'class-tree-family', 'clause': clause},
                              'the exception class tree of the code differs from Errors.tla in family membership (%s)'
                              % clause, detail)
            else:
                ctx.note_drift('class tree differs from Errors.tla in shape only (%s)' % clause)
            continue
        r = byid[i]
        if clause in PROPERTY_CLAUSES:
            sig = {'class': PROPERTY_CLAUSES[clause], 'grader': r['cls'], 'input': r['input'], 'debug': r['debug'],
                   'after': r.get('after'), 'attempt': r.get('attempt'),
                   'expect': r['expect'],
                   'category': r['cat'], 'inner': r['inner']['mro'][:1], 'outward': r['outward']['mro'][:1]}
            ctx.violation(sig, '%s on %s (debug=%s): inner %s, escaped %s [%s]' % (
                r['cls'], short(r['input']), r['debug'], r['inner']['mro'][:1] or r['inner']['k'],
                r['outward']['mro'][:1] or r['outward']['k'], clause), {'record': r})
        else:
            ctx.note_drift('%s on %s (debug=%s): %s' % (r['cls'], short(r['input'], 60), r['debug'], clause))
    ctx.extra['inner_exception_classes_seen'] = sorted(inner_seen)
    ctx.extra['hostile_categories'] = cats
    ctx.extra['injected_classes'] = sorted(classes_reached)
    ctx.extra['bounds'] = {'tier': ctx.tier, 'alarm_seconds': alarm, 'fault_injection_cases': replayed,
                           'anticipated_text_calls': anticipated, 'anticipated_token_strings_up_to': 4 if ctx.quick else 5,
                           'shared_history_calls': shared_calls, 'shared_history_length': 2 if ctx.quick else 3,
                           'real_grader_cases': len(recs) // 2, 'runs': len(recs), 'bracket_depth_max': 2000,
                           'grader_configurations': len(real_graders(False))}
    ctx.assumptions += [
        'IntegralGrader is left out (needs scipy, absent here)',
        'SumGrader limit boxes are drawn from small values: the cost of a sum is legitimately proportional to its limits',
        'failures of author-supplied callables outside the grading step (infer_from_expect, attempt_based_credit) are '
        'outside the statement: exhibited by TLC in MC_ErrorChannel_unguarded, not judged',
        'the refusal message of ensure_text_inputs is not constrained (it contains raw line breaks for graders that '
        'accept both one text and a list)',
        'BaseException subclasses (KeyboardInterrupt, SystemExit) are not failures of grading',
        'texts given to delimited-list graders carry at most %d items: SingleListGrader matching is cubic in the number '
        'of items (400 items: about 9 s of processor time), which is slow but terminates' % MAX_ITEMS,
        'the alarm measures the processor time of the call (wall-clock alarm re-armed while the call itself has used '
        'less than 70%% of the budget), because the machine is shared']


REQ = {'item': 'single', 'singlelist': 'single', 'formulafn': 'single', 'formulaop': 'single', 'list': 'multi',
       'nested': 'multi', 'sumfn': 'either', 'either': 'either'}


def statement_check(debug, req, inp, res, inferring=False):
    """the property statement applied to one observed call, without the model (used by --replay only)"""
    fx = fixtures()
    MITx, SFE, Config = fx['MITxError'], fx['classes']['StudentFacingError'], fx['classes']['ConfigError']
    form, _ = form_of(inp)
    gradable = (form == 'text' and req != 'multi') or (form == 'textlist' and req != 'single')
    out = []
    if res['k'] == 'timeout':
        return [] if debug else ['no-termination']
    e, cap = res['exc'], res['inner']
    if not debug and res['k'] == 'raise' and not isinstance(e, MITx):
        out.append('escape-outside-family')
    if not gradable:
        if res['entered'] or res['k'] != 'raise' or not (isinstance(e, Config) or (inferring and isinstance(e, MITx))):
            out.append('not-refused')
    elif not debug and cap is not None:
        texts = inp if isinstance(inp, list) else [inp]
        if res['k'] == 'return':
            out.append('error-swallowed')
        elif isinstance(cap, MITx):
            if type(e) is not type(cap):
                out.append('class-not-kept')
            elif str(e) != str(cap).replace('\n', '<br/>'):
                out.append('message-not-kept-or-br')
        elif isinstance(e, MITx) and not (isinstance(e, SFE) and str(e).startswith(GENERIC_PREFIX)
                                          and names_in_order(str(e), texts)):
            out.append('generic-message')
    return out


def replay(ctx, rec):
    """re-run the concrete failing case of a replay file; True iff the statement holds on it now"""
    from engine import repo
    repo.activate()
    fx = fixtures()
    sig = rec['signature']
    print('signature:', {k: (short(v) if isinstance(v, (str, list)) else v) for k, v in sig.items()})
    if sig.get('class') == 'class-tree-family':
        meta = class_tree_record(0, 'replay')
        rej = traces.validate(ctx, 'graders/ErrorChannelTrace.tla', 'graders/ErrorChannelTrace.cfg', [meta])
        print('class tree verdict:', rej or 'accepted')
        return not any(v.startswith('family') for v in rej.values())
    if sig.get('part') == 'anticipated':
        if sig['tokens'][0] in ('intervalOpen', 'intervalClose', 'sumVariable', 'listBlank', 'listLength',
                                'stringPattern', 'stringShort') or sig['tokens'][0] in AT_ARRAY or sig['tokens'][0] in AT_PADDED:
            g, inp, req = at_other(*sig['tokens'])
            subs = [(sig['to'], g, inp, req)]
        else:
            ids = sig['tokens']
            k = sum((j + 1) * (sorted(AT_TEXT).index(t) + 1) for j, t in enumerate(ids))
            subs = [x for x in at_submissions(ids, sig['spec_class'], True, k) if x[0] == sig['to']] or \
                   [(sig['to'], at_graders()['formula'], sig['input'], 'single')]
        ok = True
        for label, g, inp, req in subs:
            res = spy_call(g, None, inp, 120)
            got = type(res['exc']).__name__ if res['k'] == 'raise' else res['k']
            print('%s <- %r: specification %s, escaped %s' % (label, inp, sig['spec_class'], short(describe(res))))
            kept = got == sig['spec_class'] or (res['k'] == 'raise' and sig['spec_class'] in mro_names(type(res['exc'])))
            ok = ok and kept and not statement_check(False, req, inp, res)
        return ok
    if sig.get('part') == 'shared':
        cfg = sig['debug_flags']
        # the faults of the history are recovered from the observed texts of the replay file
        faults = sig.get('leaf_faults') or [{'cls': 'MissingInput', 'msg': ['w', 'NL', 'w']}, {'cls': 'ValueError', 'msg': ['w']}]
        print('the leaf raises %s for fault0, fault1, ...' % [f['cls'] for f in faults])
        objs, _ = shared_chain(cfg, faults)
        ok = True
        for t in sig['history']:
            res = spy_call(objs[t['object'] - 1], None, t['input'], 120)
            broken = statement_check(cfg[t['object'] - 1], 'single' if isinstance(t['input'], str) else 'multi', t['input'], res)
            print('object %d (configured debug=%s) <- %r: %s %s' % (t['object'], cfg[t['object'] - 1], t['input'],
                                                                    short(describe(res)), broken or ''))
            ok = ok and not broken
        return ok
    if 'grader' in sig:
        if not isinstance(sig['input'], (str, list)) or sig['grader'] not in real_graders(False):
            print('the input object of this case is not reproducible from its printed form')
            return False
        g, req, _, _ = real_graders(sig['debug'])[sig['grader']]
        inp = sig['input']
        res = spy_call(g, sig.get('expect'), inp, 120, **({'attempt': sig['attempt']} if sig.get('attempt') else {}))
        inferring = sig.get('expect') is not None
    else:
        c = {'gk': sig['kind'], 'form': sig['form'], 'debug': sig['debug'], 'n': sig['n'], 'v': sig['variant'],
             'expect': sig['expect'], 'answers': sig['answers'], 'credit': sig['credit'], 'attempt': sig.get('attempt', 2)}
        ex = make_exc(sig['raised_inside'], sig['message']) if sig['raised_inside'] != 'none' and sig['at'] != 'post' else None
        g, expect, inp, kw, _ = build_case(c, None if sig['at'] == 'infer' else ex, ex if sig['at'] == 'infer' else None,
                                           {'cls': sig['raised_inside'], 'src': sig.get('source', 'python')},
                                           {'credited': sig['result'][0], 'rmsg': sig['result'][1]}
                                           if sig.get('result', [None, None])[1] else None)
        req = REQ[sig['kind']]
        res = spy_call(g, expect, inp, 120, **kw)
        inferring = expect is not None
    print('left check():', '%s(%r)' % (type(res['inner']).__name__, short(str(res['inner']))) if res['inner'] is not None
          else ('check not entered' if not res['entered'] else 'returned'))
    print('escaped     :', short(describe(res)))
    broken = statement_check(sig['debug'], req, inp, res, inferring)
    print('statement   :', broken or 'holds')
    return not broken
