"""C06 -- the assignment solver returns a complete minimum-cost matching for any matrix.

spec level : Munkres.tla (steps 1-6 with the code's scan orders) model-checked for every matrix <= 3x3 over {0,1,2}
             (thorough: also 4xk over {0,1}): ResultOK against brute force, DualInv, Certificate, OrigUntouched,
             termination (liveness), reuse.
spec->code : MC_MunkresCases enumerates every matrix with its optimum; Munkres().compute() is run on each.
code->spec : (verdict) results on enumerated and random matrices up to 10x10 are validated by MunkresResultTrace
             (brute force / dual certificate decided by TLC);
             (drift) step states observed through instance-level wrappers are validated by MunkresStepTrace.
"""
import copy
import os
import signal

from engine import dump, traces, tlaval

INF = float('inf')


def hungarian_potentials(a):
    """e-maxx Hungarian on a square integer matrix; returns (u, v, assignment) with u[i]+v[j] <= a[i][j]."""
    n = len(a)
    u = [0] * (n + 1)
    v = [0] * (n + 1)
    p = [0] * (n + 1)
    way = [0] * (n + 1)
    for i in range(1, n + 1):
        p[0] = i
        j0 = 0
        minv = [INF] * (n + 1)
        used = [False] * (n + 1)
        while True:
            used[j0] = True
            i0 = p[j0]
            delta = INF
            j1 = 0
            for j in range(1, n + 1):
                if not used[j]:
                    cur = a[i0 - 1][j - 1] - u[i0] - v[j]
                    if cur < minv[j]:
                        minv[j] = cur
                        way[j] = j0
                    if minv[j] < delta:
                        delta = minv[j]
                        j1 = j
            for j in range(n + 1):
                if used[j]:
                    u[p[j]] += delta
                    v[j] -= delta
                else:
                    minv[j] -= delta
            j0 = j1
            if p[j0] == 0:
                break
        while True:
            j1 = way[j0]
            p[j0] = p[j1]
            j0 = j1
            if j0 == 0:
                break
    return u[1:], v[1:]


def pad(m):
    r, c = len(m), len(m[0])
    n = max(r, c)
    return [[m[i][j] if i < r and j < c else 0 for j in range(n)] for i in range(n)]


class Timeout(Exception):
    pass


def _alarm(signum, frame):
    raise Timeout()


def solve(solver, matrix, limit):
    """run the real solver under a wall-clock alarm; returns (result, raised, timed_out, same_after)"""
    before = copy.deepcopy(matrix)
    signal.signal(signal.SIGALRM, _alarm)
    signal.alarm(limit)
    try:
        res = solver.compute(matrix)
        raised, timed = '', False
    except Timeout:
        res, raised, timed = [], '', True
    except Exception as e:  # noqa
        res, raised, timed = [], type(e).__name__, False
    finally:
        signal.alarm(0)
    return res, raised, timed, matrix == before


def to_record(rid, intm, realm, solver, limit, reused):
    res, raised, timed, same = solve(solver, realm, limit)
    ok_shape = isinstance(res, list) and all(isinstance(p, tuple) and len(p) == 2 for p in res)
    rec = {'id': rid, 'm': intm, 'result': [[p[0] + 1, p[1] + 1] for p in res] if ok_shape else [],
           'raised': raised if ok_shape else 'BadResultShape', 'timed_out': timed, 'same_after': same,
           'reused': reused}
    n = max(len(intm), len(intm[0]))
    if n > 4:
        rec['u'], rec['v'] = hungarian_potentials(pad(intm))
    else:
        rec['u'], rec['v'] = [0] * n, [0] * n
    return rec


def alias_rows(m):
    """the same matrix, but equal rows are ONE list object (as in [[8, 10, 6]] * 2): still a matrix, and the
    caller's rows must neither be modified nor be confused with one another"""
    seen = {}
    return [seen.setdefault(tuple(r), list(r)) for r in m]


def replay_cases(states, extra):
    from engine import repo
    repo.activate()
    from mitxgraders.helpers.munkres import Munkres
    recs, bad, n = [], [], 0
    solver = Munkres()
    for st in states:
        c = st['c']
        if c['kind'] != 'case':
            continue
        m = c['m']
        n += 1
        fresh = (n % 2 == 0)
        s = Munkres() if fresh else solver
        if n % 5 == 1:
            # the same costs in a very small unit (exact: a power of two); the optimum does not depend on the unit
            realm = [[x * TINY for x in r] for r in m]
        elif n % 5 == 3:
            # costs 1 + x * 2^-30: all within a few 1e-9 of each other and ranked exactly as the integer image
            # (adding a constant to every cost shifts every complete matching by the same amount)
            realm = [[1.0 + x * TINY for x in r] for r in m]
        else:
            realm = alias_rows(m) if n % 3 == 0 else [list(r) for r in m]
        rec = to_record(n, m, realm, s, extra['limit'], not fresh)
        # direct comparison with the spec's optimum carried in the dump
        cost = sum(m[i - 1][j - 1] for i, j in rec['result']) if not rec['raised'] else None
        pairs = rec['result']
        complete = (len(pairs) == min(len(m), len(m[0])) and len({p[0] for p in pairs}) == len(pairs)
                    and len({p[1] for p in pairs}) == len(pairs)
                    and all(1 <= p[0] <= len(m) and 1 <= p[1] <= len(m[0]) for p in pairs))
        if rec['timed_out'] or rec['raised'] or not rec['same_after'] or not complete or cost != st['out']:
            bad.append({'m': m, 'opt': st['out'], 'rec': rec})
        recs.append(rec)
    return {'n': n, 'bad': bad[:50], 'recs': recs}


# ---------------------------------------------------------------- random matrices
TINY = 2.0 ** -30          # about 9.3e-10, exactly representable
PALETTE30 = [30, 27, 20, 15, 9, 0]              # 30 * (1 - g) for g in 0, .1, 1/3, .5, .7, 1
PALETTE_G = [0.0, 0.1, 1.0 / 3, 0.5, 0.7, 1.0]


def rand_matrix(rng, big):
    kind = rng.choice(['int', 'ties', 'dyadic', 'grade', 'zeros', 'tiny', 'neartie'])
    hi = 10 if big else 7
    r, c = rng.randint(1, hi), rng.randint(1, hi)
    if rng.random() < 0.5:
        c = r
    if kind == 'int':
        im = [[rng.randint(0, 50) for _ in range(c)] for _ in range(r)]
        return kind, im, [list(map(int, row)) for row in im]
    if kind == 'ties':
        im = [[rng.randint(0, 2) for _ in range(c)] for _ in range(r)]
        return kind, im, [list(row) for row in im]
    if kind == 'zeros':
        im = [[rng.choice([0, 0, 0, 1, 5]) for _ in range(c)] for _ in range(r)]
        return kind, im, [list(row) for row in im]
    if kind == 'tiny':
        im = [[rng.randint(0, 50) for _ in range(c)] for _ in range(r)]
        return kind, im, [[x * TINY for x in row] for row in im]
    if kind == 'neartie':
        im = [[rng.randint(0, 9) for _ in range(c)] for _ in range(r)]
        return kind, im, [[1.0 + x * TINY for x in row] for row in im]
    if kind == 'dyadic':
        im = [[rng.randint(0, 65535) for _ in range(c)] for _ in range(r)]
        return kind, im, [[x / 65536.0 for x in row] for row in im]
    idx = [[rng.randrange(6) for _ in range(c)] for _ in range(r)]
    return kind, [[PALETTE30[k] for k in row] for row in idx], [[1 - PALETTE_G[k] for k in row] for row in idx]


def random_chunk(seeds, extra):
    import random
    from engine import repo
    repo.activate()
    from mitxgraders.helpers.munkres import Munkres
    recs = []
    for seed in seeds:
        rng = random.Random(seed)
        solver = Munkres()
        for k in range(extra['per_seed']):
            kind, im, rm = rand_matrix(rng, extra['big'])
            if rng.random() < 0.25:
                # repeat a row as the same object (and keep the integer image in step)
                i, j = rng.randrange(len(rm)), rng.randrange(len(rm))
                rm[j] = rm[i]
                im[j] = list(im[i])
            reuse = rng.random() < 0.7
            s = solver if reuse else Munkres()
            rec = to_record(seed * 1000 + k, im, rm, s, extra['limit'], reuse)
            rec['kind'] = kind
            recs.append(rec)
    return recs


# ---------------------------------------------------------------- step-level observation (drift monitor)
def observe_steps(matrix, sid):
    from mitxgraders.helpers.munkres import Munkres
    s = Munkres()
    events = [{'sid': sid, 'k': 0, 'orig': [list(r) for r in matrix]}]

    def snap(k):
        return {'sid': sid, 'k': k, 'C': copy.deepcopy(s.C), 'marked': copy.deepcopy(s.marked),
                'rowc': list(s.row_covered), 'colc': list(s.col_covered), 'z0': [s.Z0_r + 1, s.Z0_c + 1]}
    for k in range(1, 7):
        name = '_Munkres__step%d' % k
        inner = getattr(s, name, None)
        if inner is None:
            return None

        def wrapper(inner=inner, k=k):
            events.append(snap(k))
            return inner()
        setattr(s, name, wrapper)
    res = s.compute([list(r) for r in matrix])
    if len(events) == 1:
        return None                      # wrappers were not picked up: not observable
    events.append(snap(7))
    e = snap(8)
    e['result'] = [[i + 1, j + 1] for i, j in res]
    events.append(e)
    return events


def steps_chunk(items, extra):
    from engine import repo
    repo.activate()
    out = []
    for sid, m in items:
        try:
            ev = observe_steps(m, sid)
        except Exception:  # noqa
            ev = None
        out.append(ev)
    return out


def sig_of(rec, clause):
    return {'matrix': rec['m'], 'result_1based': rec['result'], 'clause': clause, 'reused': rec.get('reused'),
            'kind': rec.get('kind', 'enumerated'), 'raised': rec['raised'], 'timed_out': rec['timed_out']}


def run(ctx):
    limit = 10 if ctx.quick else 60
    # 1. the implementation-shaped model and its laws
    ctx.tlc('solver/MC_Munkres.tla', 'solver/MC_Munkres_3x3.cfg', deadlock=False, timeout=3000)
    ctx.tlc('solver/MC_Munkres.tla', 'solver/MC_Munkres_reuse.cfg', deadlock=False)
    if not ctx.quick:
        ctx.tlc('solver/MC_Munkres.tla', 'solver/MC_Munkres_4x4.cfg', deadlock=False, timeout=6000)
    # 2. spec -> code: every enumerated matrix
    all_recs = []
    step_items = []
    for which in (['3x3'] if ctx.quick else ['3x3', '4x4']):
        d = os.path.join(ctx.scratch, 'cases_' + which)
        ctx.tlc('solver/MC_MunkresCases.tla', 'solver/MC_MunkresCases_%s.cfg' % which, dump=d)
        res = dump.parallel(d + '.dump', 'engine.adapters.c06', 'replay_cases', extra={'limit': limit})
        os.remove(d + '.dump')
        for r in res:
            ctx.count(r['n'])
            ctx.traces_validated += r['n']
            for b in r['bad']:
                ctx.violation(sig_of(b['rec'], 'differs from spec optimum %s' % b['opt']),
                              'compute(%s) -> %s; spec optimum %s' % (b['m'], b['rec']['result'], b['opt']))
            all_recs += r['recs']
    for i, r in enumerate(all_recs):
        r['id'] = i
        ctx.nontrivial.add(('enum', len(r['m']), len(r['m'][0]), tuple(map(tuple, r['m']))))
    step_src = [r['m'] for r in all_recs]
    ctx.rng.shuffle(step_src)
    # 3. code -> spec: random matrices, validated by TLC (brute force <= 4, dual certificate above)
    nseeds, per = (32, 40) if ctx.quick else (128, 120)
    seeds = [ctx.seed * 100000 + k for k in range(nseeds)]
    chunks = dump.pmap('engine.adapters.c06', 'random_chunk', seeds,
                       extra={'per_seed': per, 'big': True, 'limit': limit})
    rnd = [r for ch in chunks for r in ch]
    base = len(all_recs)
    for i, r in enumerate(rnd):
        r['id'] = base + i
        ctx.nontrivial.add((r['kind'], len(r['m']), len(r['m'][0]), tuple(map(tuple, r['m']))))
    ctx.count(len(rnd))
    enum_sample = all_recs if not ctx.quick else all_recs[::7]
    recs = enum_sample + rnd
    rej = traces.validate(ctx, 'solver/MunkresResultTrace.tla', 'solver/MunkresResultTrace.cfg', recs,
                          timeout=6000)
    byid = {r['id']: r for r in recs}
    from engine.main import Machinery
    for rid, clause in rej.items():
        if clause == 'BADCERT':
            raise Machinery('adapter produced an infeasible dual certificate for %s' % byid[rid]['m'])
        r = byid[rid]
        ctx.violation(sig_of(r, clause), 'compute(%s) -> %s: %s' % (r['m'], r['result'], clause))
    for r in (rnd[:2] + all_recs[-1:]):
        ctx.sample({'matrix': r['m'], 'result_1based': r['result'], 'kind': r.get('kind', 'enumerated')})
    # 4. drift monitor: step states against the implementation-shaped model
    nsteps = 4000 if ctx.quick else 40000
    items = list(enumerate(step_src[:nsteps]))
    evs = [e for ch in dump.pmap('engine.adapters.c06', 'steps_chunk', items) for e in ch]
    if any(e is None for e in evs):
        ctx.note_drift('solver step functions are not observable any more (wrappers not picked up); step conformance skipped')
    else:
        flat = [x for e in evs for x in e]
        path = os.path.join(ctx.scratch, 'steps.ndjson')
        traces.write(path, flat)
        r = ctx.tlc('solver/MunkresStepTrace.tla', 'solver/MunkresStepTrace.cfg', workers=1,
                    env={'TRACE_FILE': path}, must_hold=False, timeout=6000)
        drifts = [tlaval.parse(l.strip()) for l in r.out.splitlines() if l.strip().startswith('<<"DRIFT"')]
        done = [l for l in r.out.splitlines() if l.strip().startswith('<<"DONE"')]
        if r.violated:
            ctx.note_drift('model invariant %s does not hold on the implementation\'s step states' % r.violated)
        elif not done:
            raise Machinery('step trace not consumed:\n' + r.out[-2000:])
        for d in drifts[:10]:
            ctx.note_drift('solve %s: state before step %s is not a successor of the model state (model step %s)' % (d[1], d[2], d[3]))
        ctx.extra['step_events_validated'] = len(flat)
        ctx.extra['step_solves'] = len(evs)
        ctx.extra['step_drifts'] = len(drifts)
        ctx.traces_validated += len(evs)
    ctx.extra['bounds'] = {'exhaustive': 'all r x c <= 3x3 over {0,1,2}' + ('' if ctx.quick else '; all 4xk, kx4 over {0,1}'),
                           'random': '%d matrices up to 10x10 (int, tie-heavy, zero-heavy, dyadic float, grade-like)' % len(rnd),
                           'per_call_alarm_s': limit}
    ctx.assumptions += ['float matrices are restricted to values whose sums are exact (k/65536) or to the grade palette '
                        '(units of 1/30, gaps >> rounding), so exact-integer optimality equals float optimality',
                        'step-level conformance is drift only; the verdict is on compute() outputs']


def replay(ctx, rec):
    from engine import repo
    repo.activate()
    from mitxgraders.helpers.munkres import Munkres
    m = rec['signature']['matrix']
    res = Munkres().compute([list(r) for r in m])
    print('compute ->', res)
    return False
