"""C01 -- every grader call returns a well-formed, self-consistent edX result.

spec -> code: TLC explores ResultPipeline (one action per stage the library applies to a result) in five parts: item,
              single (SingleListGrader), interval (IntervalGrader), list (ListGrader, grouped / nested) and shared (a
              HISTORY: a ListGrader call, then one of its subgrader objects called on its own).  Every terminal state
              carries the complete vector of environment choices and the result(s) the model returns.  Each vector is
              realised with real graders (scripted comparers inside FormulaGrader / MatrixGrader / NumericalGrader,
              StringGrader, engine/fixtures.TableGrader, real SingleListGrader / IntervalGrader / ListGrader nesting;
              attempt credits reached through author functions and through Linear/Geometric/ReciprocalCredit at late
              attempts) and every value a real call returns is (a) judged by the property-level spec
              (ResultShapeTrace, TLC) against the debug flag the called object was CONFIGURED with and (b) compared
              field by field with the model's result (a mismatch there is DRIFT, not a verdict).
              Two flawed designs of the pipeline are kept as exhibits: TLC must produce their counterexamples.
code -> spec: a seeded random driver builds configurations of every public grader class (String, Formula, Numerical,
              Matrix, SingleList, Interval, Sum, List incl. nested / grouped), runs short histories on the same
              objects (the call, the call again, shared subgraders of a list called on their own) on formulas,
              delimited lists, empty strings and unicode garbage with attempt numbers up to 25000 and all credit
              schedules; every RETURNED value becomes one trace record validated by ResultShapeTrace.
"""
import json
import numbers
import os
import random
import re

from engine import dump, traces

LEVEL = 'model_checking'

# ------------------------------------------------------------------ projection of real results (shared by both bindings)
MSG_RE = re.compile(r'MSG_(A1|A2|A3|CM|WR|TM|LA|EM|B1|B2|OW)@p(\d)')
NOTE_RE = re.compile(r'NOTE(\d+)(?:@p(\d+))?')
SUBSTR_TOKENS = [('MITx Grading Library Version', 'BANNER'), ('Running on edX using python', 'PYVER'),
                 ('Student Response', 'STUDENT_RESPONSE'), ('Comparison Data for All', 'LOGCMP'),
                 ('Data for Sample Number', 'LOGEVAL'), ('Debug Info', 'LOGFUNCS'), ('Attempt number', 'LOGATT'),
                 ('Maximum credit is', 'LOGMAX'), ('Expect value inferred', 'LOGINFER'),
                 ('Using modified defaults', 'LOGDEFAULTS'), ('zqans', 'ANSWER'),
                 ('Maximum credit for attempt #', 'ATT')]
MODEL_VOCAB = {'A1', 'A2', 'A3', 'CM', 'W', 'TM', 'LA', 'EM', 'B1', 'B2', 'OW', 'ATT', 'BANNER', 'LOGCMP', 'LOGATT'}
ITEM_KEYS = ['grade_decimal', 'msg', 'ok']


def scan(msg):
    """message text -> (marker tokens, input position the message can be seen to belong to: 0 unknown, -1 several)"""
    if not isinstance(msg, str):
        return [], 0
    toks = set()
    ps = set()
    for m in MSG_RE.finditer(msg):
        toks.add({'WR': 'W'}.get(m.group(1), m.group(1)))
        if m.group(2) != '0':
            ps.add(int(m.group(2)))
    for m in NOTE_RE.finditer(msg):
        toks.add('NOTE')
        if m.group(2):
            ps.add(int(m.group(2)))
    for sub, tok in SUBSTR_TOKENS:
        if sub in msg:
            toks.add(tok)
    pos = 0 if not ps else (ps.pop() if len(ps) == 1 else -1)
    return sorted(toks), pos


def ok_name(v):
    import numpy as np
    if isinstance(v, (bool, np.bool_)):
        return 'true' if v else 'false'
    if isinstance(v, str) and v == 'partial':
        return 'partial'
    return 'other'


def grade_class(g):
    if not isinstance(g, numbers.Real) or g != g:
        return 'out'
    if g == 0:
        return 'zero'
    if g == 1:
        return 'one'
    return 'mid' if 0 < g < 1 else 'out'


def item_facts(e):
    if not isinstance(e, dict):
        return {'ok': 'other', 'cls': 'out', 'text': False, 'keys': [], 'markers': [], 'pos': 0}
    markers, pos = scan(e.get('msg'))
    return {'ok': ok_name(e.get('ok')), 'cls': grade_class(e.get('grade_decimal')), 'text': isinstance(e.get('msg'), str),
            'keys': sorted(str(k) for k in e), 'markers': markers, 'pos': pos}


def project(result):
    """real return value -> the facts of a ResultShapeTrace record (without id / case description)"""
    rec = {'isdict': isinstance(result, dict), 'listform': False, 'keys': [], 'overall_text': True,
           'overall_markers': [], 'items': []}
    if not rec['isdict']:
        return rec
    rec['keys'] = sorted(str(k) for k in result)
    if 'input_list' in result:
        rec['listform'] = True
        om = result.get('overall_message')
        rec['overall_text'] = isinstance(om, str)
        rec['overall_markers'] = scan(om)[0]
        entries = result['input_list'] if isinstance(result['input_list'], list) else []
        rec['items'] = [item_facts(e) for e in entries]
    else:
        rec['items'] = [item_facts(result)]
    return rec


def brief(result, limit=400):
    s = repr(result)
    return s if len(s) <= limit else s[:limit] + '...'


# ------------------------------------------------------------------ spec -> code: realising a choice vector
CREDIT = {'c0': (0, 1), 'c13': (1, 3), 'c12': (1, 2), 'c1': (1, 1)}
ANS = {'a0': ((0, 1), None), 'a13': ((1, 3), None), 'a12': ((1, 2), None), 'a1': ((1, 1), None),
       'a1f': ((1, 1), False), 'a1p': ((1, 1), 'partial'), 'a1t': ((1, 1), True), 'a12f': ((1, 2), False)}
DICT_GRADE = {'d0': (0, 1), 'd13': (1, 3), 'd12': (1, 2), 'd1': (1, 1), 'd12m': (1, 2), 'd0m': (0, 1)}
GROUPS = {'flat2': [[1], [2]], 'flat3': [[1], [2], [3]], 'g121': [[1, 3], [2]], 'g212': [[2], [1, 3]],
          'g1212': [[1, 3], [2, 4]]}
GROUPING = {'g121': [1, 2, 1], 'g212': [2, 1, 2], 'g1212': [1, 2, 1, 2]}
HOSTS = {'formula': ('FormulaGrader', '1', '1'), 'matrix': ('MatrixGrader', '[1,2]', '[1,2]'),
         'numerical': ('NumericalGrader', '1', '1'), 'string': ('StringGrader', 'hit', 'hit')}
ERR_EVENTS = ('Es', 'Et', 'Ea')
GUARD_CFG = {'suppress': {'suppress_matrix_messages': True}, 'raise': {},
             'message': {'shape_errors': False, 'answer_shape_mismatch': {'is_raised': False, 'msg_detail': 'type'}}}
ATT = {'c1': 1, 'c12': 0.5, 'c0': 0, 'c1e4': 0.0001, 'c7e5': 0.00007, 'c3e5': 0.00003, 'c13': 1 / 3}
# the same rounded credit reached through the built-in schedules (late attempts) and author-defined functions:
# (schedule, keyword arguments, attempt number); None = a plain function returning the value
ATT_VIA = {
    'c1': [(None, {}, 2), ('GeometricCredit', {}, 1), ('LinearCredit', {'decrease_credit_after': 3}, 3), ('ReciprocalCredit', {}, 0),
           ('LinearCredit', {}, 1)],
    'c12': [(None, {}, 2), ('GeometricCredit', {'factor': 0.5}, 2), ('ReciprocalCredit', {}, 2),
            ('LinearCredit', {'minimum_credit': 0.5, 'decrease_credit_steps': 1}, 5),
            ('LinearCredit', {'minimum_credit': 0, 'decrease_credit_steps': 2}, 2)],
    'c0': [(None, {}, 2), ('GeometricCredit', {'factor': 0}, 2), ('LinearCredit', {'minimum_credit': 0, 'decrease_credit_steps': 1}, 2),
           ('GeometricCredit', {}, 60), ('ReciprocalCredit', {}, 30000)],
    'c1e4': [(None, {}, 2), ('GeometricCredit', {}, 33), ('GeometricCredit', {'factor': 0.5}, 14),
             ('LinearCredit', {'minimum_credit': 0.0001}, 9), ('ReciprocalCredit', {}, 10000), ('GeometricCredit', {}, 32)],
    'c7e5': [(None, {}, 7), ('ReciprocalCredit', {}, 14000), ('GeometricCredit', {}, 34)],
    'c3e5': [(None, {}, 3), ('GeometricCredit', {}, 37), ('ReciprocalCredit', {}, 30000)],
    'c13': [(None, {}, 2)],
}


def attempt_realisation(att, k):
    """-> (attempt_based_credit callable, attempt number) whose rounded credit is the model's"""
    import mitxgraders as mg
    val = ATT[att]
    name, kw, n = ATT_VIA[att][k % len(ATT_VIA[att])]
    if name is not None:
        sched = getattr(mg, name)(**kw)
        if round(float(sched(max(n, 1))), 4) == round(val, 4):
            return sched, n
    return (lambda n_, _v=val: _v), n


def fl(q):
    n, d = q
    return n if d == 1 else n / d


def cmp_value(v, pos):
    if v == 'T':
        return True
    if v == 'F':
        return False
    if v == 'P':
        return 'partial'
    if v in ERR_EVENTS:
        from mitxgraders.exceptions import InputTypeError
        from mitxgraders.helpers.calc.exceptions import MathArrayShapeError, ArgumentShapeError
        return {'Es': MathArrayShapeError, 'Et': InputTypeError, 'Ea': ArgumentShapeError}[v]('MSG_EM@p%d' % pos)
    d = {'grade_decimal': fl(DICT_GRADE[v])}
    if v.endswith('m'):
        d['msg'] = 'MSG_CM@p%d' % pos
    return d


class Script(object):
    """scripted comparer: returns the scripted values in call order"""

    def __init__(self, returns):
        self.returns = list(returns)
        self.calls = 0

    def __call__(self, comparer_params_eval, student_eval, utils):
        v = self.returns[self.calls % len(self.returns)]
        self.calls += 1
        if isinstance(v, Exception):
            raise v
        return dict(v) if isinstance(v, dict) else v


_CORR = {}


def correlated_script(returns):
    """scripted CorrelatedComparer (one call for all samples)"""
    if 'cls' not in _CORR:
        from voluptuous import Schema, Required
        from mitxgraders.comparers import CorrelatedComparer

        class ScriptCorr(CorrelatedComparer):
            schema_config = Schema({Required('script'): list})

            def __call__(self, comparer_params_evals, student_evals, utils):
                v = self.config['script'][0]
                if isinstance(v, Exception):
                    raise v
                return dict(v) if isinstance(v, dict) else v
        _CORR['cls'] = ScriptCorr
    return _CORR['cls'](script=list(returns))


def decode(ch):
    head, leaves, tail = {}, [], {}
    cur = None
    for tag, val in ch:
        if tag == 'leaf':
            cur = {'kind': val, 'alts': [], 'table': None, 'wrong': None}
            leaves.append(cur)
        elif tag == 'ans':
            cur['alts'].append({'ans': val, 'cmps': []})
        elif tag == 'cmp':
            cur['alts'][-1]['cmps'].append(val)
        elif tag == 'table':
            cur['table'] = val
        elif tag == 'wrong':
            cur['wrong'] = val
        elif tag in ('owrong', 'attempt', 'debug'):
            tail[tag] = val
        else:
            head[tag] = val
    return head, leaves, tail


def pins_of(ans_ids):
    out = set()
    for a in ans_ids:
        credit, pin = ANS[a]
        if pin is not None and credit == (1, 1):
            out.add(ok_name(pin))
    return out


def leaf_answers(leaf, pos, host, corr=False):
    """answers tuple for a formula-like leaf"""
    param = HOSTS[host][1]
    out = []
    for k, alt in enumerate(leaf['alts']):
        credit, pin = ANS[alt['ans']]
        rets = [cmp_value(v, pos) for v in alt['cmps']]
        comparer = correlated_script(rets) if corr else Script(rets)
        a = {'expect': {'comparer': comparer, 'comparer_params': [param]}, 'grade_decimal': fl(credit),
             'msg': 'MSG_A%d@p%d' % (k + 1, pos)}
        if pin is not None:
            a['ok'] = pin
        out.append(a)
    return tuple(out)


def tail_kwargs(tail, k=0):
    kw = {'debug': bool(tail.get('debug', False))}
    att = tail.get('attempt', 'none')
    attempt = 2
    if att != 'none':
        kw['attempt_based_credit'], attempt = attempt_realisation(att, k)
    return kw, attempt


def realise(part, ch, host, k=0):
    """-> (grader, student_input, pinned set, n_inputs, form, attempt number, leaf objects [(grader, input)] in the
    order the model computes them).  Import mitxgraders only after repo.activate()."""
    g, inp, pins, n, form, extra = _realise(part, ch, host, k)
    return g, inp, pins, n, form, extra[0], extra[1]


HARMLESS_DEFAULTS = [{'suppress_warnings': True}, {'attempt_based_credit_msg': True}, {'suppress_warnings': False}]


def family_classes(cls):
    """the classes of the grader's family on which defaults can be registered: the class itself and its bases"""
    from mitxgraders.baseclasses import ObjectWithSchema
    return [c for c in cls.__mro__ if issubclass(c, ObjectWithSchema) and c is not ObjectWithSchema and c is not object]


def build_other(cls, k):
    """another grader of the family, built by an author who is debugging THAT problem"""
    import mitxgraders as mg
    sibs = [cls, mg.StringGrader, mg.FormulaGrader, mg.NumericalGrader]
    c = sibs[k % len(sibs)]
    kw = dict(debug=True, wrong_msg='MSG_OW@p0', attempt_based_credit=lambda n: 0.5)
    answers = {'StringGrader': 'other', 'MatrixGrader': '[3,4]'}.get(c.__name__, '7')
    g = c(answers={'expect': answers, 'msg': 'MSG_OW@p0'}, **kw)
    try:
        g(None, answers, attempt=3)
    except Exception:  # noqa
        pass
    return g


def with_prehistory(pre, cls, k, construct):
    """construct() after the construction history `pre` of the class family; registered defaults are always cleared"""
    if pre in (None, 'none'):
        return construct()
    fam = family_classes(cls)
    touched = []
    try:
        if pre in ('reg', 'reg_other'):
            levels = [fam[k % len(fam)]] + ([fam[-1]] if k % 3 == 0 else [])
            for j, c in enumerate(levels):
                c.register_defaults(dict(HARMLESS_DEFAULTS[(k + j) % len(HARMLESS_DEFAULTS)]))
                touched.append(c)
        if pre in ('other', 'reg_other'):
            build_other(cls, k // 2)
        return construct()
    finally:
        for c in touched:
            c.clear_registered_defaults()


def _realise(part, ch, host, k):
    import mitxgraders as mg
    from engine.fixtures import TableGrader
    head, leaves, tail = decode(ch)
    kw, attempt = tail_kwargs(tail, k)
    objs = []
    X = (attempt, objs)
    pins = set()
    for lf in leaves:
        pins |= pins_of(a['ans'] for a in lf['alts'])
    if part in ('item', 'family'):
        lf = leaves[0]
        cls = getattr(mg, HOSTS[host][0])
        pre = head.get('pre', 'none')
        wrong = '' if lf['wrong'] is False else 'MSG_WR@p0'
        if host == 'string':
            # comparer True = the cleaned input equals this alternative's text, False = it does not
            answers = []
            for ai, alt in enumerate(lf['alts']):
                credit, pin = ANS[alt['ans']]
                a = {'expect': 'hit' if alt['cmps'] == ['T'] else 'miss%d' % ai, 'grade_decimal': fl(credit),
                     'msg': 'MSG_A%d@p0' % (ai + 1)}
                if pin is not None:
                    a['ok'] = pin
                answers.append(a)
            kw = dict(kw) if (wrong == '' and pre != 'none') else dict(kw, wrong_msg=wrong)   # '' after a history: none passed
            if not kw['debug'] and pre != 'none':
                del kw['debug']
            return with_prehistory(pre, cls, k, lambda: cls(answers=tuple(answers), **kw)), 'hit', pins, 1, 'item', X
        cfg = dict(answers=leaf_answers(lf, 0, host, corr=head['corr']), **kw)
        if wrong != '' or pre == 'none':
            cfg['wrong_msg'] = wrong        # after a construction history: 'no wrong_msg' = the author passes none
        if host != 'numerical':
            cfg.update(samples=head['samples'], failable_evals=head['failable'])
        if host == 'matrix':
            cfg.update(GUARD_CFG[head.get('guard', 'raise')])
        if not cfg['debug'] and pre != 'none':
            del cfg['debug']                # ... and 'debug off' = the author passes no debug option
        return with_prehistory(pre, cls, k, lambda: cls(**cfg)), HOSTS[host][2], pins, 1, 'item', X
    if part == 'single':
        n_e, n_i = head['expected'], head['submitted']
        lw = [lf['wrong'] for lf in leaves if lf['wrong'] is not None]
        sub = getattr(mg, HOSTS[host][0])(wrong_msg='MSG_WR@p0' if (not lw or lw[0]) else '')
        entries = []
        for i in range(n_e):
            if i < len(leaves):
                entries.append(leaf_answers(leaves[i], 0, host))
            else:
                entries.append({'expect': {'comparer': Script([False]), 'comparer_params': [HOSTS[host][1]]}})
        credit, pin = ANS[head['listans']]
        ans = {'expect': entries, 'grade_decimal': fl(credit), 'msg': 'MSG_LA@p0'}
        if pin is not None:
            ans['ok'] = pin
            pins |= pins_of([head['listans']])
        g = mg.SingleListGrader(subgrader=sub, ordered=True, delimiter=';', partial_credit=head['partial_credit'],
                                answers=ans, wrong_msg='' if tail.get('owrong') is False else 'MSG_WR@p0', **kw)
        return g, ';'.join([HOSTS[host][2]] * n_i), pins, 1, 'item', X
    if part == 'interval':
        lw = [lf['wrong'] for lf in leaves if lf['wrong'] is not None]
        sub = getattr(mg, HOSTS[host][0])(wrong_msg='MSG_WR@p0' if (not lw or lw[0]) else '')
        opening = ({'expect': '['}, {'expect': '(', 'grade_decimal': 0.5, 'msg': 'MSG_B1@p0'}, {'expect': '{', 'grade_decimal': 0})
        closing = ({'expect': ']'}, {'expect': ')', 'grade_decimal': 0.5, 'msg': 'MSG_B2@p0'}, {'expect': '}', 'grade_decimal': 0})
        credit, pin = ANS[head['listans']]
        ans = {'expect': [opening, leaf_answers(leaves[0], 0, host), leaf_answers(leaves[1], 0, host), closing],
               'grade_decimal': fl(credit), 'msg': 'MSG_LA@p0'}
        if pin is not None:
            ans['ok'] = pin
            pins |= pins_of([head['listans']])
        g = mg.IntervalGrader(subgrader=sub, opening_brackets='[({<', closing_brackets='])}>',
                              partial_credit=head['partial_credit'], answers=ans,
                              wrong_msg='' if tail.get('owrong') is False else 'MSG_WR@p0', **kw)
        typed = {'b1': '[]', 'b12': '()', 'b0': '{}', 'bnone': '<>'}
        return g, typed[head['open']][0] + '1,1' + typed[head['close']][1], pins, 1, 'item', X
    # list
    layout = head['layout']
    groups = GROUPS[layout]
    n = sum(len(g) for g in groups)
    inputs = [None] * n
    it = iter(leaves)
    hosts = ['formula', 'matrix', 'numerical']
    cd = bool(head.get('child_debug', True))        # the debug flag the subgrader objects are configured with
    subs, answers = [], []
    for grp in groups:
        gsubs, gans = [], []
        for pos in grp:
            lf = next(it, None) or {'kind': 'table', 'table': 'c1', 'wrong': None, 'alts': []}
            wrong = '' if lf['wrong'] is False else 'MSG_WR@p%d' % pos
            if lf['kind'] == 'table':
                g = fl(CREDIT[lf['table']])
                okv = {0: False, 1: True}.get(g, 'partial')
                inp = 'in%d' % pos
                gsubs.append(TableGrader(table={('e', inp): {'ok': okv, 'grade_decimal': g, 'msg': 'MSG_TM@p%d' % pos}},
                                         wrong_msg=wrong, answers='e', debug=cd))
                gans.append('e')
            else:
                h = hosts[(pos + (0 if host == 'formula' else 1)) % 3] if host != 'same' else 'formula'
                inp = HOSTS[h][2]
                # the subgrader object carries the same answers itself, so that it can also be called on its own
                la = leaf_answers(lf, pos, h)
                gsubs.append(getattr(mg, HOSTS[h][0])(wrong_msg=wrong, debug=cd, answers=la))
                gans.append(la)
            inputs[pos - 1] = inp
            objs.append((gsubs[-1], inp, pins_of(a['ans'] for a in lf['alts'])))
        if len(grp) == 1:
            subs.append(gsubs[0])
            answers.append(gans[0])
        else:
            subs.append(mg.ListGrader(subgraders=gsubs, ordered=True, partial_credit=head['inner_partial_credit'],
                                      debug=cd))
            answers.append(gans)
    cfg = dict(subgraders=subs, ordered=True, partial_credit=head['partial_credit'], answers=answers, **kw)
    if layout in GROUPING:
        cfg['grouping'] = GROUPING[layout]
    # the student (or rather the problem's XML) submits too few / too many input boxes
    sub = head.get('submitted', 'exact')
    if sub == 'short':
        inputs = inputs[:-1] if k % 2 else inputs[:-2] or inputs[:-1]
    elif sub == 'long':
        inputs = inputs + [inputs[-1]] * (1 + k % 2)
    return mg.ListGrader(**cfg), inputs, pins, len(inputs), 'list', X


def model_item(m):
    return {'ok': m['ok'], 'g': m['g'], 'm': sorted(m['m'])}


def compare_item(m, e, ignore=frozenset()):
    """model item vs real entry -> list of differing fields"""
    diffs = []
    if ok_name(e.get('ok')) != m['ok']:
        diffs.append('ok %r vs model %s' % (e.get('ok'), m['ok']))
    g = e.get('grade_decimal')
    n, d = m['g']
    if not isinstance(g, numbers.Real) or abs(g - n / d) > 1e-12:
        diffs.append('grade %r vs model %d/%d' % (g, n, d))
    seen = (set(scan(e.get('msg'))[0]) & MODEL_VOCAB) - ignore
    if seen != set(m['m']) - ignore:
        diffs.append('markers %s vs model %s' % (sorted(seen), sorted(m['m'])))
    return diffs


def compare_result(mres, result, ignore=frozenset()):
    if not isinstance(result, dict):
        return ['not a dict']
    if 'items' in mres:
        if 'input_list' not in result:
            return ['model returns the list form']
        entries = result['input_list']
        if len(entries) != len(mres['items']):
            return ['%d entries vs model %d' % (len(entries), len(mres['items']))]
        diffs = []
        for i, (m, e) in enumerate(zip(mres['items'], entries)):
            diffs += ['entry %d: %s' % (i + 1, x) for x in compare_item(m, e)]
        seen = set(scan(result.get('overall_message'))[0]) & MODEL_VOCAB
        if seen != set(mres['overall']):
            diffs.append('overall markers %s vs model %s' % (sorted(seen), sorted(mres['overall'])))
        return diffs
    if 'input_list' in result:
        return ['model returns the single form']
    return compare_item(mres, result, ignore)


def hosts_for(part, ch, head, k, all_hosts=True):
    if part in ('item', 'family'):
        cmps = [v for t, v in ch if t == 'cmp']
        if any(v in ERR_EVENTS for v in cmps):
            return ['matrix']               # only MatrixGrader guards its check_response
        hs = ['formula', 'matrix']
        if head['samples'] == 1 and head['failable'] == 0 and not head['corr']:
            hs.append('numerical')
            if all(v in ('T', 'F') for v in cmps):
                hs.append('string')         # StringGrader.check_response: match -> the answer's ok/grade/msg, else zero
        # thorough: two of the possible hosts per vector (rotating), quick: one
        return [hs[k % len(hs)], hs[(k + 1) % len(hs)]] if all_hosts else [hs[k % len(hs)]]
    if part == 'single':
        return [['formula', 'matrix', 'numerical'][k % 3]]
    if part == 'interval':
        return [['formula', 'numerical'][k % 2]]
    return [['formula', 'matrix'][k % 2]]


def _call(fn):
    try:
        return fn(), None
    except Exception as e:
        return None, '%s: %s' % (type(e).__name__, str(e)[:200])


def run_vector(part, ch, host, k=0):
    """-> list of observations, one per call of the history: (result or None, error text or None, meta)"""
    g, inp, pins, n, form, attempt, objs = realise(part, ch, host, k)
    head, _, tail = decode(ch)
    # debug: what the AUTHOR passed when building the called grader (not what the object says about itself now)
    meta = {'pins': sorted(pins), 'n_inputs': n, 'form': form, 'cls': type(g).__name__, 'debug': bool(tail.get('debug', False)),
            'call': 'list' if part == 'shared' else 'only'}
    result, err = _call(lambda: g(None, inp, attempt=attempt))
    out = [(result, err, meta)]
    if part == 'shared' and 'alone' in head:
        # second call of the history: the subgrader object, configured with its own debug flag, on its own
        child, cinp, cpins = objs[head['alone'] - 1]
        cmeta = {'pins': sorted(cpins), 'n_inputs': 1, 'form': 'item', 'cls': type(child).__name__,
                 'debug': bool(head['child_debug']), 'call': 'alone'}
        result2, err2 = _call(lambda: child(None, cinp))
        out.append((result2, err2, cmeta))
    return out


def replay_states(states, extra):
    from engine import repo
    repo.activate()
    part = extra['part']
    classes = {}          # record text -> [count, example]
    drift = []
    n_term = n_calls = n_pred = n_raised = n_drift = 0
    keys = set()
    k = 0

    def note(host, ch, what, vd=''):
        if len(drift) < 20:
            drift.append({'part': part, 'host': host, 'ch': ch, 'what': what, 'model_verdict': vd})

    for st in states:
        if st.get('st') not in ('returned', 'raised'):
            continue
        if part == 'shared' and st['st'] == 'returned' and st['cf']['phase'] != 2:
            continue                        # the history goes on: the subgrader is called next
        n_term += 1
        ch = st['ch']
        head = decode(ch)[0]
        if st['st'] == 'raised':
            # the model says the call raises (a shape / type error that is not suppressed, or a submission with the
            # wrong number of inputs): nothing is returned, nothing to judge -- but whatever IS returned gets judged
            wrong_len = head.get('submitted', 'exact') != 'exact'
            expected = ('ConfigError',) if wrong_len else ('MathArrayShapeError', 'InputTypeError', 'ArgumentShapeError')
            host = 'matrix' if not wrong_len else ['formula', 'matrix'][k % 2]
            k += 1
            result, err, meta = run_vector(part, ch, host, k)[0]
            n_calls += 1
            n_raised += 1
            wrong_exit = err is None or err.split(':')[0] not in expected
            n_drift += wrong_exit
            if wrong_exit:
                note(host, ch, 'model raises %s, code %s' % ('/'.join(expected), 'returned %s' % brief(result, 120) if err is None else 'raised ' + err))
            if err is None:
                rec = project(result)
                rec.update(cls=meta['cls'], form=meta['form'], n_inputs=meta['n_inputs'], debug=meta['debug'], pinned=meta['pins'])
                text = json.dumps(rec, sort_keys=True)
                ex = {'part': part, 'host': host, 'ch': ch, 'result': brief(result), 'model_verdict': 'raises', 'call': meta['call'], 'k': k}
                if text in classes:
                    classes[text][0] += 1
                else:
                    classes[text] = [1, ex]
            keys.add((part, meta['cls'], 'raised', 'length' if wrong_len else 'shape'))
            continue
        if st['vd'] != '':
            n_pred += 1
        for host in hosts_for(part, ch, head, k, extra.get('all_hosts', True)):
            k += 1
            obs = run_vector(part, ch, host, k)
            models = [(st['cf']['res1'], st['cf']['vd1']), (st['res'], st['vd'])] if part == 'shared' else [(st['res'], st['vd'])]
            for (result, err, meta), (mres, vd) in zip(obs, models):
                n_calls += 1
                if err is not None:
                    n_drift += 1
                    note(host, ch, 'model returns, code raised %s (%s call)' % (err, meta['call']))
                    continue
                ignore = frozenset(['LOGCMP']) if (host == 'string' or meta['call'] == 'alone') else frozenset()
                diffs = compare_result(mres, result, ignore)
                n_drift += bool(diffs)
                if diffs:
                    note(host, ch, '%s call: %s' % (meta['call'], '; '.join(diffs[:3])), vd)
                rec = project(result)
                rec.update(cls=meta['cls'], form=meta['form'], n_inputs=meta['n_inputs'], debug=meta['debug'],
                           pinned=meta['pins'])
                text = json.dumps(rec, sort_keys=True)
                ex = {'part': part, 'host': host, 'ch': ch, 'result': brief(result), 'model_verdict': vd, 'call': meta['call'], 'k': k}
                c = classes.get(text)
                if c is None:
                    classes[text] = [1, ex]
                else:
                    c[0] += 1
                    if len(ch) < len(c[1]['ch']):       # keep the shortest vector as the representative
                        c[1] = ex
                keys.add((part, meta['cls'], meta['call'], vd, tuple(sorted((i['ok'], i['cls']) for i in rec['items']))))
    return {'terminal': n_term, 'calls': n_calls, 'predicted_ill_formed': n_pred, 'raised': n_raised, 'drifting': n_drift,
            'classes': classes, 'drift': drift, 'keys': sorted(keys)}


def vector_text(part, host, ch):
    return '%s/%s %s' % (part, host, ' '.join('%s=%s' % (t, v) for t, v in ch))


# ------------------------------------------------------------------ code -> spec: random driver over all grader classes
VARS = ['x', 'x_1', "y'", 'T_{1}^{2}']
GARBAGE = ['', ' ', 'éü中文', '\U0001f600 + 1', '((', '1+', '][', '∞', 'x y z', '1,,2', '\t\n', '%%%', "'; drop",
           '١٢', '1e999', 'nan', '[1,2', 'a' * 200, '​', '--1', '1/0', 'sqrt(-1)', '[[1,2],[3]]']
CREDITS = [1, 1, 1, 1, 0.5, 0.5, 0, 0, 1 / 3, 0.25, 0.8, 1.0, 0.0]


def T(*xs):
    """a tuple inside a JSON-able descriptor"""
    return {'__tuple__': list(xs)}


def r_meta(rng, k, allow_pin=True):
    """grading meta data of one answer: credit, optional pinned ok, optional message"""
    m = {}
    c = rng.choice(CREDITS)
    if rng.random() < 0.7:
        m['grade_decimal'] = c
    if allow_pin and rng.random() < 0.25:
        m['ok'] = rng.choice([True, False, 'partial', 'computed'])
    if rng.random() < 0.6:
        m['msg'] = 'NOTE%d' % k
    return m


def r_expr(rng, depth_small=True):
    from engine.adapters import exprlib
    for _ in range(20):
        c = exprlib.rand_case(rng, 0, max_tokens=14 if depth_small else 30)
        t = c['text']
        if t.strip():
            return t
    return 'x+1'


SIMPLE_EXPRS = ['x+1', '2*x', 'x^2+x_1', "y'*3", 'x/2', '3', '0', 'x-x', 'T_{1}^{2}+1', 'f(x)', 'g(x,2)', '2k', '50%', 'sin(x)',
                'x*x_1-1']


ATTEMPTS = [1, 1, 2, 2, 3, 4, 6, 0, 11, 14, 15, 16, 20, 31, 32, 33, 34, 35, 36, 40, 60, 200, 6700, 10000, 14000, 19000, 25000]


def r_attempt(rng):
    """attempt-based credit: off, an author-defined function (also tiny values), or one of the three built-in
    schedules with generated parameters"""
    r = rng.random()
    if r < 0.4:
        return None
    if r < 0.55:
        return {'kind': 'const', 'v': rng.choice([1, 0.5, 0, 0.3333, 0.25, 1.0, 0.0, 0.0001, 0.0001, 0.00005, 0.00004, 0.0002,
                                                   1e-9, 0.9999, 0.99996])}
    kind = rng.choice(['linear', 'geometric', 'reciprocal'])
    kw = {}
    if kind == 'linear' and rng.random() < 0.7:
        kw = {'minimum_credit': rng.choice([0.0001, 0.0001, 0.2, 0, 0.0002, 0.5]), 'decrease_credit_steps': rng.choice([1, 2, 4, 10]),
              'decrease_credit_after': rng.choice([1, 1, 3])}
    if kind == 'geometric' and rng.random() < 0.6:
        kw = {'factor': rng.choice([0.5, 0.5, 0.9, 0.25, 0.1, 0, 1])}
    return {'kind': kind, 'kw': kw}


def r_common(rng, d):
    d['debug'] = rng.random() < 0.25
    d['attempt_credit'] = r_attempt(rng)
    if d['attempt_credit'] and rng.random() < 0.3:
        d['attempt_msg'] = False
    d['attempt'] = rng.choice(ATTEMPTS)
    d['again'] = rng.random() < 0.25
    if d['cls'] == 'ListGrader' and rng.random() < 0.3:
        d['debug'] = True                    # debugging lists around shared subgrader objects
    return d


def gen_string(rng, sub=False):
    pool = ['zqans cat', 'zqans Dog', 'zqans  two  words', 'zqans éü', 'zqans 42', 'zqans x+1']
    n = rng.randint(1, 3)
    exps = rng.sample(pool, n)
    answers = [dict(expect=e, **r_meta(rng, i)) if rng.random() < 0.8 else e for i, e in enumerate(exps)]
    d = {'cls': 'StringGrader', 'answers': answers, 'kw': {}}
    for flag in ('case_sensitive', 'strip', 'clean_spaces', 'strip_all'):
        if rng.random() < 0.3:
            d['kw'][flag] = rng.random() < 0.5
    if rng.random() < 0.4:
        d['kw']['wrong_msg'] = 'NOTE90'
    r = rng.random()
    if r < 0.15 and not sub:
        d['kw'].update(accept_any=True, min_length=rng.choice([0, 3, 12]), explain_minimums=rng.choice(['msg', None]))
        if rng.random() < 0.5:
            d['answers'] = None
    elif r < 0.25:
        d['kw'].update(validation_pattern=r'zqans .*', explain_validation=rng.choice(['msg', None]), invalid_msg='NOTE91')
    e = rng.choice(exps)
    d['inputs'] = rng.choice([e, e, e.upper(), '  ' + e + ' ', e.replace(' ', '  '), e[:-1], rng.choice(GARBAGE),
                              rng.choice(pool), ''])
    return d


def formula_answers(rng, n, matrix=False, numerical=False):
    out, texts = [], []
    for i in range(n):
        if matrix:
            t = rng.choice(['[1,2]', '[1,2,3]', '[[1,2],[3,4]]', '[x,2*x]', '[[1,0],[0,1]]', '[0,0]'])
        elif numerical:
            t = rng.choice(['3.5', '2*pi', '10', '0', '1e3', '-2', 'sqrt(2)', '1/3'])
        else:
            t = rng.choice(SIMPLE_EXPRS) if rng.random() < 0.6 else r_expr(rng)
        texts.append(t)
        meta = r_meta(rng, i)
        r = rng.random()
        if r < 0.2 and not matrix:
            a = dict(expect={'comparer': 'scripted', 'returns': [rng.choice(['T', 'P', 'F', 'd13', 'd12m', 'd0', 'd1'])
                                                                 for _ in range(3)], 'comparer_params': [t]}, **meta)
        elif r < 0.3 and not matrix and not numerical:
            a = dict(expect={'comparer': 'linear', 'opts': rng.choice([{}, {'proportional': 0.25}, {'equals': 0.8, 'offset': 0.5},
                                                                        {'linear': 0.1, 'proportional': 0}]),
                             'comparer_params': [t]}, **meta)
        elif r < 0.85 or numerical:
            a = dict(expect=t, **meta)
        else:
            a = t
        out.append(a)
    return out, texts


def mutate_formula(rng, t):
    r = rng.random()
    if r < 0.3:
        return t
    if r < 0.45:
        return '(' + t + ')*1+0'
    if r < 0.55:
        return t + '+1'
    if r < 0.65:
        return '2*(' + t + ')'
    if r < 0.75:
        return r_expr(rng)
    if r < 0.85:
        return rng.choice(SIMPLE_EXPRS)
    return rng.choice(GARBAGE)


def gen_formula(rng, sub=False):
    answers, texts = formula_answers(rng, rng.randint(1, 3))
    d = {'cls': 'FormulaGrader', 'answers': answers,
         'kw': {'variables': VARS, 'samples': rng.choice([1, 2, 3, 5]), 'failable_evals': rng.choice([0, 0, 1, 2]),
                'metric_suffixes': True, 'user_functions': 'fg'}}
    if rng.random() < 0.4:
        d['kw']['wrong_msg'] = 'NOTE90'
    if rng.random() < 0.15:
        d['kw']['tolerance'] = rng.choice(['1%', 0, 0.5])
    if any(isinstance(a, dict) and isinstance(a.get('expect'), dict) and a['expect']['comparer'] == 'linear' for a in answers):
        d['kw']['samples'] = rng.choice([3, 4, 5])
    d['inputs'] = mutate_formula(rng, rng.choice(texts))
    return d


def gen_numerical(rng, sub=False):
    answers, texts = formula_answers(rng, rng.randint(1, 3), numerical=True)
    d = {'cls': 'NumericalGrader', 'answers': answers, 'kw': {}}
    if rng.random() < 0.4:
        d['kw']['wrong_msg'] = 'NOTE90'
    if rng.random() < 0.4:
        d['kw']['tolerance'] = rng.choice(['1%', 0, 0.5, '50%'])
    t = rng.choice(texts)
    d['inputs'] = rng.choice([t, t, t + '*1.001', t + '+0.0001', t + '*2', '(' + t + ')', rng.choice(GARBAGE), '7', '3.5',
                              '3.6', 'x'])
    return d


def gen_matrix(rng, sub=False):
    answers, texts = formula_answers(rng, rng.randint(1, 2), matrix=True)
    kw = {'variables': ['x'], 'samples': rng.choice([1, 2, 3]), 'failable_evals': rng.choice([0, 0, 1])}
    r = rng.random()
    if r < 0.6:
        kw['entry_partial_credit'] = rng.choice(['proportional', 'proportional', 0.5, 0, 1, 0.25])
    if rng.random() < 0.3:
        kw['entry_partial_msg'] = rng.choice(['NOTE92 {error_locations}', 'NOTE93'])
    if rng.random() < 0.5:
        kw['answer_shape_mismatch'] = {'is_raised': rng.random() < 0.3, 'msg_detail': rng.choice([None, 'type', 'shape'])}
    if rng.random() < 0.3:
        kw['shape_errors'] = False
    if rng.random() < 0.2:
        kw['suppress_matrix_messages'] = True
    if rng.random() < 0.3:
        kw['wrong_msg'] = 'NOTE90'
    if any(t.startswith('[[') for t in texts) or rng.random() < 0.2:
        kw['max_array_dim'] = 2
    t = rng.choice(texts)
    variants = {'[1,2]': ['[1,3]', '[2,1]', '[0,0]', '[1,2,3]', '[1,2]+[1,2,3]', '5', '[[1,2]]', '[1,2]*1'],
                '[1,2,3]': ['[1,2,4]', '[1,0,0]', '[3,2,1]', '[9,9,9]', '[1,2]', '[1,2,3]+0*[1,1,1]'],
                '[[1,2],[3,4]]': ['[[1,2],[3,5]]', '[[0,0],[0,0]]', '[[1,2],[3,4]]*[1,2,3]', '[1,2]', '[[1,2,0],[3,4,0]]'],
                '[x,2*x]': ['[x,x]', '[x,2*x]', '[2*x,x]', '[1,2]'],
                '[[1,0],[0,1]]': ['[[1,0],[0,2]]', '[[1,1],[1,1]]', '[[1,0],[0,1]]^2', '[[1,0],[0,1]]^-1'],
                '[0,0]': ['[0,1]', '[1,1]', '[0,0,0]']}
    d = {'cls': 'MatrixGrader', 'answers': answers, 'kw': kw,
         'inputs': rng.choice([t, t, rng.choice(variants[t]), rng.choice(variants[t]), rng.choice(GARBAGE)])}
    return d


def gen_table(rng, sub=True):
    """author-defined item grader (TableGrader): echoes which input it graded"""
    exps = ['e1', 'e2', 'e3', 'e4']
    ins = ['i1', 'i2', 'i3', 'i4', 'i5']
    table = {}
    for e in exps:
        for i in ins:
            if rng.random() < 0.5:
                g = rng.choice([1, 1, 0.5, 0, 1 / 3, 0.75])
                table['%s|%s' % (e, i)] = g
    return {'cls': 'TableGrader', 'table': table, 'kw': {'wrong_msg': rng.choice(['', 'NOTE90'])}, 'exps': exps, 'ins': ins}


def gen_singlelist(rng, sub=False, depth=0):
    kind = rng.choice(['string', 'formula', 'numerical', 'table'] + (['nested'] if depth == 0 else []))
    delim = ';' if depth else rng.choice([',', ',', ';', '|'])
    if kind == 'nested':
        delim = rng.choice([',', '|'])
        inner = gen_singlelist(rng, True, depth + 1)
        subd = inner
        n = rng.randint(1, 3)
        base = [inner['delimiter'].join(rng.sample(inner['pool'], rng.randint(1, 3))) for _ in range(n)]
        pool = base + [inner['delimiter'].join(rng.sample(inner['pool'], 2))]
        answers_plain = base
    else:
        if kind == 'string':
            subd = {'cls': 'StringGrader', 'answers': None, 'kw': {}}
            pool = ['zqans cat', 'zqans dog', 'zqans fish', 'zqans emu', 'zqans ox']
        elif kind == 'formula':
            subd = {'cls': 'FormulaGrader', 'answers': None, 'kw': {'variables': VARS, 'user_functions': 'fg'}}
            pool = ['x+1', '2*x', 'x^2', "y'", '3', 'x_1-x']
        elif kind == 'numerical':
            subd = {'cls': 'NumericalGrader', 'answers': None, 'kw': {}}
            pool = ['1', '2', '3.5', '10', '-4']
        else:
            subd = gen_table(rng)
            pool = list(subd['exps'])
        if rng.random() < 0.3:
            subd['kw']['wrong_msg'] = 'NOTE90'
        n = rng.randint(1, 4)
        answers_plain = rng.sample(pool, n)
    entries = []
    for i, a in enumerate(answers_plain):
        if rng.random() < 0.5 and kind != 'nested':
            entries.append(dict(expect=a, **r_meta(rng, 10 + i)))
        else:
            entries.append(a)
    r = rng.random()
    if r < 0.5:
        answers = entries
    elif r < 0.8:
        answers = dict(expect=entries, **r_meta(rng, 20))
    else:
        other = list(reversed(answers_plain))
        answers = [dict(expect=entries, **r_meta(rng, 20)), dict(expect=other, **r_meta(rng, 21))]
    d = {'cls': 'SingleListGrader', 'sub': subd, 'answers': answers, 'delimiter': delim, 'pool': pool,
         'kw': {'ordered': rng.random() < 0.4, 'partial_credit': rng.random() < 0.7, 'length_error': rng.random() < 0.15,
                'missing_error': rng.random() < 0.7}}
    if rng.random() < 0.3:
        d['kw']['wrong_msg'] = 'NOTE94'
    # submission
    if kind == 'table':
        items = [rng.choice(subd['ins']) for _ in range(rng.randint(1, 5))]
    else:
        items = list(answers_plain)
        rng.shuffle(items) if rng.random() < 0.5 else None
        for _ in range(rng.randint(0, 2)):
            op = rng.random()
            if op < 0.3 and items:
                items.pop(rng.randrange(len(items)))
            elif op < 0.6:
                items.insert(rng.randrange(len(items) + 1), rng.choice(pool))
            elif op < 0.8 and items:
                items[rng.randrange(len(items))] = rng.choice(['', ' ', 'zzz', '7', rng.choice(GARBAGE)])
            elif items:
                items.append(items[0])
    d['inputs'] = (delim + rng.choice(['', ' '])).join(items) if rng.random() < 0.93 else rng.choice(GARBAGE)
    return d


def gen_interval(rng, sub=False):
    def one(k):
        lo, hi = rng.choice([('1', '2'), ('0', 'infty'), ('-1', '1+pi'), ('x', 'x+1'), ('2', '5')])
        ob, cb = rng.choice('[('), rng.choice('])')
        if rng.random() < 0.5:
            return '%s%s,%s%s' % (ob, lo, hi, cb), (ob, lo, hi, cb)
        form = [ob if rng.random() < 0.5 else T({'expect': ob, 'msg': 'NOTE%d' % (30 + k)},
                                                 {'expect': '(' if ob == '[' else '[', 'grade_decimal': rng.choice([0.5, 0, 0.25]),
                                                  'msg': 'NOTE%d' % (32 + k)}),
                dict(expect=lo, **r_meta(rng, 34 + k)) if rng.random() < 0.4 else lo,
                hi,
                cb if rng.random() < 0.5 else T({'expect': cb}, {'expect': ']' if cb == ')' else ')',
                                                                 'grade_decimal': rng.choice([0.5, 0])})]
        return form, (ob, lo, hi, cb)
    n = rng.randint(1, 2)
    made = [one(k) for k in range(n)]
    answers = []
    for k, (a, _) in enumerate(made):
        answers.append(dict(expect=a, **r_meta(rng, 40 + k)) if rng.random() < 0.6 else a)
    kw = {'partial_credit': rng.random() < 0.7}
    if any('x' in m[1][1] for m in made):
        kw['sub'] = 'formula'
    if rng.random() < 0.3:
        kw['wrong_msg'] = 'NOTE90'
    ob, lo, hi, cb = rng.choice(made)[1]
    flip = {'[': '(', '(': '[', ']': ')', ')': ']'}
    inp = rng.choice(['%s%s,%s%s' % (ob, lo, hi, cb), '%s%s,%s%s' % (flip[ob], lo, hi, cb), '%s%s,%s%s' % (ob, lo, hi, flip[cb]),
                      '%s%s , 99%s' % (ob, lo, cb), '%s98,%s%s' % (ob, hi, cb), '%s%s,%s%s' % (ob, hi, lo, cb), ' %s%s,%s%s ' % (ob, lo, hi, cb),
                      '%s97, 96%s' % (flip[ob], flip[cb]), rng.choice(GARBAGE), '{1,2}', '[1,2,3]', '[1;2]'])
    return {'cls': 'IntervalGrader', 'answers': answers, 'kw': kw, 'inputs': inp}


def gen_sum(rng, sub=False):
    author = rng.choice([{'lower': '1', 'upper': '5', 'summand': 'n^2', 'summation_variable': 'n'},
                         {'lower': '0', 'upper': '4', 'summand': '2*k+x', 'summation_variable': 'k'},
                         {'lower': '1', 'upper': 'infty', 'summand': '1/2^n', 'summation_variable': 'n'},
                         {'lower': '0', 'upper': '6', 'summand': 'x^n/(n+1)', 'summation_variable': 'n'}])
    positions = rng.choice([None, {'lower': 1, 'upper': 2, 'summand': 3}, {'summand': 1}, {'summand': 2, 'lower': 1},
                            {'summation_variable': 1, 'lower': 2, 'upper': 3, 'summand': 4}])
    pos = positions or {'lower': 1, 'upper': 2, 'summand': 3, 'summation_variable': 4}
    order = sorted(pos, key=lambda k: pos[k])
    student = dict(author)
    r = rng.random()
    v = author['summation_variable']
    if r < 0.2:
        student['summand'] = author['summand'] + '+0'
    elif r < 0.35 and 'summation_variable' in pos:
        student['summation_variable'] = 'j'
        student['summand'] = re.sub(r'\b%s\b' % v, 'j', author['summand'])
    elif r < 0.5:
        student['summand'] = author['summand'] + '+1'
    elif r < 0.6:
        student['upper'] = '7'
    elif r < 0.7:
        student[rng.choice(order)] = rng.choice(GARBAGE)
    elif r < 0.75 and 'lower' in pos:
        student['lower'] = '2'
    inputs = [student[k] for k in order]
    if rng.random() < 0.05:
        inputs = inputs[:-1] or ['1']
    kw = {'variables': ['x'], 'samples': rng.choice([1, 2, 3]), 'failable_evals': rng.choice([0, 0, 1])}
    if positions:
        kw['input_positions'] = positions
    if rng.random() < 0.3:
        kw['tolerance'] = '1%'
    return {'cls': 'SumGrader', 'answers': author, 'kw': kw, 'inputs': inputs if (len(inputs) > 1 or rng.random() < 0.5) else inputs[0]}


def list_leaf(rng, kind):
    """-> (subgrader descriptor, pool of (answer, matching input)), answers carry NOTE<k>@p? only via echo graders"""
    if kind == 'string':
        return {'cls': 'StringGrader', 'answers': None, 'kw': {'wrong_msg': rng.choice(['', 'NOTE90'])}}, \
               [(e, e) for e in ['zqans cat', 'zqans dog', 'zqans fish', 'zqans emu', 'zqans ox']]
    if kind == 'formula':
        return {'cls': 'FormulaGrader', 'answers': None, 'kw': {'variables': VARS, 'user_functions': 'fg',
                                                                 'wrong_msg': rng.choice(['', 'NOTE90'])}}, \
               [(e, e) for e in ['x+1', '2*x', 'x^2', "y'", '3', 'x_1-x']]
    if kind == 'numerical':
        return {'cls': 'NumericalGrader', 'answers': None, 'kw': {}}, [(e, e) for e in ['1', '2', '3.5', '10', '-4']]
    if kind == 'matrix':
        return {'cls': 'MatrixGrader', 'answers': None, 'kw': {'entry_partial_credit': 'proportional'}}, \
               [('[1,2]', '[1,2]'), ('[1,2]', '[1,3]'), ('[3,4]', '[3,4]'), ('[5,6]', '[5,0]'), ('[7,8]', '[7,8]')]
    if kind == 'table':
        t = gen_table(rng)
        return t, [(e, i) for e, i in zip(t['exps'], t['ins'])]
    if kind == 'singlelist':
        return {'cls': 'SingleListGrader', 'answers': None, 'delimiter': ',', 'kw': {'partial_credit': rng.random() < 0.7},
                'sub': {'cls': 'StringGrader', 'answers': None, 'kw': {}}}, \
               [('a,b', 'a,b'), ('a,b', 'b,a'), ('c,d', 'c,x'), ('e', 'e,f'), ('g,h,i', 'g')]
    raise ValueError(kind)


def gen_list(rng, sub=False):
    shape = rng.choice(['flat', 'flat', 'flat', 'sublist', 'grouped_unordered', 'grouped_ordered', 'grouped_ordered'])
    d = {'cls': 'ListGrader', 'kw': {'partial_credit': rng.random() < 0.7}}
    child_debug = rng.random() < 0.15
    if shape in ('flat', 'sublist'):
        n = rng.randint(2, 4)
        if shape == 'flat':
            kind = rng.choice(['string', 'formula', 'numerical', 'matrix', 'table', 'singlelist'])
            subd, pool = list_leaf(rng, kind)
            if child_debug:
                subd['kw']['debug'] = True
            pairs = rng.sample(pool, min(n, len(pool)))
            n = len(pairs)
            if kind != 'singlelist' and rng.random() < 0.7:
                subd['answers'] = [pairs[0][0]]     # the shared object can also grade on its own
            d['subgraders'] = subd
            d['kw']['ordered'] = rng.random() < 0.4
        else:
            kinds = [rng.choice(['string', 'formula', 'numerical', 'table', 'matrix']) for _ in range(n)]
            leaves = [list_leaf(rng, k) for k in kinds]
            pairs = [rng.choice(p) for _, p in leaves]
            for (sd, _), (a, _i) in zip(leaves, pairs):
                if rng.random() < 0.7:
                    sd['answers'] = [a]
            d['subgraders'] = [s for s, _ in leaves]
            if child_debug:
                d['subgraders'][0]['kw']['debug'] = True
            d['kw']['ordered'] = True
        answers = [dict(expect=a, **r_meta(rng, 50 + i)) if rng.random() < 0.6 else a for i, (a, _) in enumerate(pairs)]
        inputs = [i for _, i in pairs]
        if not d['kw']['ordered'] and rng.random() < 0.6:
            rng.shuffle(inputs)
        if rng.random() < 0.3 and shape == 'flat':
            alt = [a for a, _ in pairs]
            alt.reverse()
            answers = T(answers, alt)
        d['answers'] = answers
    else:
        subd, pool = list_leaf(rng, rng.choice(['string', 'formula', 'table']))
        if child_debug:
            subd['kw']['debug'] = True
        if shape == 'grouped_unordered':
            gsize = rng.choice([2, 2, 3])
            ngroups = rng.choice([2, 2, 3]) if gsize == 2 else 2
            grouping = []
            for gi in range(ngroups):
                grouping += [gi + 1] * gsize
            if rng.random() < 0.5:
                rng.shuffle(grouping)
                # group numbers must be contiguous from 1: they are
            inner = {'cls': 'ListGrader', 'subgraders': subd, 'answers': None,
                     'kw': {'ordered': rng.random() < 0.5, 'partial_credit': rng.random() < 0.7}}
            d['subgraders'] = inner
            d['kw']['ordered'] = rng.random() < 0.4
            group_answers, group_inputs = [], []
            for gi in range(ngroups):
                pairs = rng.sample(pool, gsize)
                group_answers.append([a for a, _ in pairs])
                group_inputs.append([i for _, i in pairs])
            d['answers'] = group_answers
        else:
            sizes = rng.choice([[1, 2], [2, 1], [2, 2], [1, 3], [1, 1, 2]])
            grouping = []
            for gi, sz in enumerate(sizes):
                grouping += [gi + 1] * sz
            if rng.random() < 0.6:
                rng.shuffle(grouping)
            subs, group_answers, group_inputs = [], [], []
            for sz in sizes:
                pairs = rng.sample(pool, sz)
                if sz == 1:
                    subs.append(dict(subd))
                    group_answers.append(pairs[0][0])
                    group_inputs.append([pairs[0][1]])
                else:
                    subs.append({'cls': 'ListGrader', 'subgraders': subd, 'answers': None,
                                 'kw': {'ordered': rng.random() < 0.5, 'partial_credit': rng.random() < 0.7}})
                    group_answers.append([a for a, _ in pairs])
                    group_inputs.append([i for _, i in pairs])
            d['subgraders'] = subs
            d['kw']['ordered'] = True
            d['answers'] = group_answers
        d['kw']['grouping'] = grouping
        # lay the grouped inputs out in box order
        inputs = [None] * len(grouping)
        counters = {}
        order = list(range(len(group_inputs)))
        if not d['kw']['ordered'] and rng.random() < 0.5:
            rng.shuffle(order)
        for box, gnum in enumerate(grouping):
            src = group_inputs[order[gnum - 1]]
            j = counters.get(gnum, 0)
            counters[gnum] = j + 1
            inputs[box] = src[j]
    for _ in range(rng.choice([0, 0, 1, 2])):
        inputs[rng.randrange(len(inputs))] = rng.choice(['zzz', '', '7', 'i5', rng.choice(GARBAGE)])
    # the problem submits more or fewer input boxes than the grader was configured for (flat, grouped, nested alike)
    r = rng.random()
    if r < 0.12:
        inputs = inputs + [rng.choice(inputs + ['zzz', ''])] * rng.choice([1, 1, 2])
    elif r < 0.2:
        inputs = inputs[:-1]
    d['inputs'] = inputs
    return d


GENERATORS = [('StringGrader', gen_string), ('FormulaGrader', gen_formula), ('NumericalGrader', gen_numerical),
              ('MatrixGrader', gen_matrix), ('SingleListGrader', gen_singlelist), ('IntervalGrader', gen_interval),
              ('SumGrader', gen_sum), ('ListGrader', gen_list), ('ListGrader', gen_list), ('MatrixGrader', gen_matrix)]


def collect_pins(obj, out):
    """ok values pinned explicitly on full-credit answers anywhere in a descriptor"""
    if isinstance(obj, dict):
        if 'expect' in obj and obj.get('ok', 'computed') != 'computed' and obj.get('grade_decimal', 1) == 1:
            out.add(ok_name(obj['ok']))
        for v in obj.values():
            collect_pins(v, out)
    elif isinstance(obj, (list, tuple)):
        for v in obj:
            collect_pins(v, out)
    return out


def build_answers(a):
    """descriptor answers -> library answers (scripted / configured comparers instantiated)"""
    if isinstance(a, dict):
        if '__tuple__' in a:
            return tuple(build_answers(x) for x in a['__tuple__'])
        out = {}
        for k, v in a.items():
            if k == 'expect' and isinstance(v, dict) and 'comparer' in v:
                if v['comparer'] == 'scripted':
                    cmp_ = Script([cmp_value(x, 0) if x != 'd12m' else {'grade_decimal': 0.5, 'msg': 'NOTE95'} for x in v['returns']])
                else:
                    from mitxgraders.comparers import LinearComparer
                    cmp_ = LinearComparer(**v['opts'])
                out[k] = {'comparer': cmp_, 'comparer_params': list(v['comparer_params'])}
            else:
                out[k] = build_answers(v)
        return out
    if isinstance(a, list):
        return [build_answers(x) for x in a]
    if isinstance(a, tuple):
        return tuple(build_answers(x) for x in a)
    return a


def build(d, top=True, omit_debug_off=False):
    import mitxgraders as mg
    from engine.fixtures import TableGrader
    kw = dict(d.get('kw', {}))
    if kw.get('user_functions') == 'fg':
        kw['user_functions'] = {'f': lambda a: a + 1, 'g': lambda a, b: a - 2 * b}
    cls = d['cls']
    if top and (d.get('debug', False) or not omit_debug_off):
        kw['debug'] = d.get('debug', False)
    if top:
        ac = d.get('attempt_credit')
        if ac:
            if ac['kind'] == 'const':
                kw['attempt_based_credit'] = lambda n, _v=ac['v']: _v
            else:
                kw['attempt_based_credit'] = {'linear': mg.LinearCredit, 'geometric': mg.GeometricCredit,
                                              'reciprocal': mg.ReciprocalCredit}[ac['kind']](**ac.get('kw', {}))
            if d.get('attempt_msg') is False:
                kw['attempt_based_credit_msg'] = False
    answers = d.get('answers')
    if cls == 'TableGrader':
        table = {}
        for key, g in d['table'].items():
            e, i = key.split('|')
            okv = {0: False, 1: True}.get(g, 'partial')
            table[(e, i)] = {'ok': okv, 'grade_decimal': g, 'msg': 'NOTE7@p%s' % i[1:] if g > 0 else ''}
        return TableGrader(table=table, **kw)
    if cls == 'SingleListGrader':
        kw['subgrader'] = build(d['sub'], False)
        kw['delimiter'] = d['delimiter']
    elif cls == 'IntervalGrader':
        if kw.pop('sub', None) == 'formula':
            kw['subgrader'] = mg.FormulaGrader(variables=['x'])
    elif cls == 'ListGrader':
        s = d['subgraders']
        kw['subgraders'] = [build(x, False) for x in s] if isinstance(s, list) else build(s, False)
    if answers is not None:
        if cls in ('SumGrader',):
            kw['answers'] = answers
        elif isinstance(answers, list) and cls not in ('SingleListGrader', 'ListGrader'):
            kw['answers'] = tuple(build_answers(answers))
        elif cls == 'SingleListGrader' and isinstance(answers, list) and answers and isinstance(answers[0], dict) \
                and isinstance(answers[0].get('expect'), list):
            kw['answers'] = tuple(build_answers(answers))
        else:
            kw['answers'] = build_answers(answers)
    return getattr(mg, cls)(**kw)


def table_positions(d, result):
    """TableGrader leaves echo the number of the input token they graded ('NOTE7@p<k>' for input 'i<k>'); translate the
    echoed token number into the box position(s) holding that token so that pos means 'box number'."""
    return None


def build_after_history(d):
    """build the grader of case d after the construction history d['family'] (registered defaults are always cleared).
    What the author passes for d is exactly its descriptor: debug only when True."""
    fam = d.get('family')
    if not fam:
        return build(d)
    import mitxgraders as mg
    from engine.fixtures import TableGrader
    cls = TableGrader if d['cls'] == 'TableGrader' else getattr(mg, d['cls'])
    classes = family_classes(cls)
    touched = []
    try:
        if fam['pre'] in ('reg', 'reg_other'):
            c = classes[fam['level'] % len(classes)]
            c.register_defaults(dict(HARMLESS_DEFAULTS[fam['level'] % len(HARMLESS_DEFAULTS)]))
            touched.append(c)
        if fam['pre'] in ('other', 'reg_other'):
            try:
                o = build(fam['other'])
                o(None, fam['other']['inputs'], attempt=fam['other']['attempt'])
            except Exception:  # noqa -- the other author's problem may well be broken
                pass
        return build(d, omit_debug_off=True)
    finally:
        for c in touched:
            c.clear_registered_defaults()


def _record(d, cls, inputs, result, debug, pins):
    rec = project(result)
    is_list = isinstance(inputs, list)
    form = 'sum' if (cls == 'SumGrader' and is_list) else ('list' if is_list else 'item')
    # echo positions name the input token ('i3' -> 3); turn them into box numbers (or drop them when ambiguous)
    if rec['listform'] and is_list:
        for k, it in enumerate(rec['items']):
            if it['pos'] > 0:
                tok = 'i%d' % it['pos']
                boxes = [b + 1 for b, x in enumerate(inputs) if x == tok]
                it['pos'] = (k + 1) if (k + 1) in boxes else (boxes[0] if boxes else -1)
    else:
        for it in rec['items']:
            it['pos'] = 0
    rec.update(cls=cls, form=form, n_inputs=len(inputs) if is_list else 1, debug=bool(debug), pinned=pins)
    return rec


def observe_case(d):
    """One generated case is a short HISTORY on one set of grader objects: the call itself, optionally the same call
    again, and -- for a ListGrader whose subgrader objects carry answers of their own -- each such subgrader called
    directly afterwards.  Every call that returns is judged against the debug flag its grader was CONFIGURED with.
    -> list of observations {label, rec (None when the call raised), outcome, result}"""
    try:
        g = build_after_history(d)
    except Exception as e:
        return [{'label': 'call', 'rec': None, 'outcome': 'config:%s' % type(e).__name__, 'result': None}]
    pins = sorted(collect_pins({k: v for k, v in d.items() if k != 'family'}, set()))
    kwargs = {'attempt': d['attempt']} if d.get('attempt_credit') or d['attempt'] % 2 else {}
    calls = [('call', g, d['cls'], d['inputs'], kwargs, d.get('debug', False))]
    if d.get('again'):
        calls.append(('again', g, d['cls'], d['inputs'], kwargs, d.get('debug', False)))
    if d['cls'] == 'ListGrader' and 'grouping' not in d.get('kw', {}):
        subs = d['subgraders']
        objs = g.config['subgraders']
        pairs = list(zip(subs, objs, d['inputs'])) if isinstance(subs, list) else [(subs, objs, d['inputs'][0])]
        for n, (sd, obj, inp) in enumerate(pairs[:2]):
            if sd.get('answers') and isinstance(inp, str):
                calls.append(('alone%d' % n, obj, sd['cls'], inp, {}, sd.get('kw', {}).get('debug', False)))
    out = []
    for label, obj, cls, inputs, kw, debug in calls:
        try:
            result = obj(None, inputs, **kw)
        except Exception as e:
            out.append({'label': label, 'rec': None, 'outcome': 'raised:%s' % type(e).__name__, 'result': None})
            continue
        out.append({'label': label, 'rec': _record(d, cls, inputs, result, debug, pins), 'outcome': 'returned', 'result': result})
    return out


def describe(d):
    """JSON-able, readable description of a generated case"""
    def clean(o):
        if isinstance(o, dict):
            return {k: clean(v) for k, v in o.items() if k not in ('pool', 'exps', 'ins')}
        if isinstance(o, (list, tuple)):
            return [clean(x) for x in o]
        return o
    return clean(d)


def observe_chunk(items, extra):
    """items: list of (seed, count, start_id) -> records + outcome statistics"""
    from engine import repo
    repo.activate()
    recs, stats, descs = [], {}, {}
    for seed, count, start in items:
        rng = random.Random(seed)
        for k in range(count):
            name, gen = GENERATORS[rng.randrange(len(GENERATORS))]
            d = r_common(rng, gen(rng))
            if rng.random() < 0.2:
                # construction history of the class family before this grader is built: defaults registered on a
                # class of the family and / or another grader of the same kind built with debug=True
                other = r_common(rng, gen(rng))
                other['debug'] = True
                d['family'] = {'pre': rng.choice(['reg', 'other', 'reg_other', 'reg_other']), 'level': rng.randrange(6),
                               'other': other}
            for j, o in enumerate(observe_case(d)[:HISTORY_MAX]):
                key = '%s:%s' % (d['cls'] if j == 0 else o['label'].rstrip('01'), o['outcome'])
                stats[key] = stats.get(key, 0) + 1
                if j == 0 and 'family' in d:
                    stats['family:' + o['outcome']] = stats.get('family:' + o['outcome'], 0) + 1
                if j == 0 and isinstance(d['inputs'], list) and d['cls'] == 'ListGrader':
                    lk = 'listlen:%s' % o['outcome'].split(':')[0]
                    stats[lk] = stats.get(lk, 0) + 1
                if o['rec'] is None:
                    continue
                rid = start + k * HISTORY_MAX + j
                o['rec']['id'] = rid
                recs.append(o['rec'])
                descs[rid] = {'case': describe(d), 'call': o['label'], 'result': brief(o['result'])}
    return {'recs': recs, 'stats': stats, 'descs': descs}


# ------------------------------------------------------------------ the check
HISTORY_MAX = 4
PARTS = ['item', 'family', 'single', 'interval', 'list', 'shared']
COMMON_ACTIONS = ['Start', 'LeafStart', 'NextAlt', 'Compare', 'Standardize', 'Multiply', 'ConsolidateSamples', 'Best',
                  'StripKeys', 'AttemptCredit', 'DebugAppend', 'FormatMessages']
PART_ACTIONS = {'item': ['MatrixGuard'], 'family': [], 'single': ['Pad', 'SingleConsolidate', 'SingleAward', 'OuterBest'],
                'interval': ['Brackets', 'SingleConsolidate', 'SingleAward', 'OuterBest'],
                'list': ['ValidateSubmission', 'TableReturn', 'NestedCheck', 'UngroupStage', 'ZeroIfImperfect'],
                'shared': ['ValidateSubmission', 'UngroupStage', 'ZeroIfImperfect', 'FollowUp']}


def first_counterexample(out):
    """the choice vector of the last state of a TLC counterexample, as text"""
    ms = re.findall(r'/\\ ch = (<<.*?>> >>)', out, re.S)
    return re.sub(r'\s+', ' ', ms[-1]) if ms else None


def clause_class(clause):
    return clause if clause else 'unclassified'


def run_replay(ctx, variant=''):
    """TLC exploration of every part of the pipeline model + replay of every terminal behaviour.
    -> (classes merged over parts, drift list, statistics)"""
    classes, drift = {}, []
    stats = {'terminal': 0, 'calls': 0, 'predicted_ill_formed': 0, 'raised': 0, 'drifting': 0}
    for part in PARTS:
        d = os.path.join(ctx.scratch, 'cases_%s%s' % (part, variant))
        r = ctx.tlc('graders/MC_ResultPipeline.tla', 'graders/MC_ResultPipeline_%s_%s%s.cfg' % (part, ctx.tier, variant),
                    dump=d, timeout=3000, deadlock=True, coverage=not ctx.quick)
        if not ctx.quick:       # vacuity guard: every stage of this part was exercised
            cov = r.coverage()
            dead = [a for a in COMMON_ACTIONS + PART_ACTIONS[part] if cov.get(a, (0, 0))[0] == 0]
            if dead:
                from engine.main import Machinery
                raise Machinery('ResultPipeline part %s: actions never taken: %s' % (part, dead))
        res = dump.parallel(d + '.dump', 'engine.adapters.c01', 'replay_states',
                            extra={'part': part, 'all_hosts': not ctx.quick})
        os.remove(d + '.dump')
        for r in res:
            for k in stats:
                stats[k] += r[k]
            for key in r['keys']:
                ctx.nontrivial.add(('replay',) + tuple(map(str, key)))
            drift += r['drift']
            for text, (cnt, ex) in r['classes'].items():
                if text in classes:
                    classes[text][0] += cnt
                    if len(ex['ch']) < len(classes[text][1]['ch']):
                        classes[text][1] = ex
                else:
                    classes[text] = [cnt, ex]
    return classes, drift, stats


FLAWS = [('flaw_staleok', 'the comparer\'s ok survives the multiplication by the answer credit (repaired in /repo by 370d190)'),
         ('flaw_childdebug', 'a debugging ListGrader leaves debug switched on in its subgrader objects'),
         ('flaw_aliaseddefaults', 'the registered defaults dictionary of a class is updated with each grader\'s options, so '
                                  'graders built later inherit them')]


def run(ctx):
    from engine.main import Machinery
    # ---- exhibits / vacuity guards: flawed designs of the pipeline MUST violate the property in TLC
    exhibits = {}
    for flaw, what in FLAWS:
        r = ctx.tlc('graders/MC_ResultPipeline.tla', 'graders/MC_ResultPipeline_%s.cfg' % flaw, must_hold=False, timeout=600)
        if 'InvReturnedWellFormed' not in r.violated:
            raise Machinery('vacuity guard: flawed design %s does not violate InvReturnedWellFormed' % flaw)
        exhibits[flaw] = {'design': what, 'InvReturnedWellFormed': 'violated', 'counterexample_choices': first_counterexample(r.out)}
    ctx.extra['flawed_designs_rejected_by_tlc'] = exhibits
    if not ctx.quick:
        # the exact extent of the stale-ok flaw (laws about the flawed design)
        ctx.tlc('graders/MC_ResultPipeline.tla', 'graders/MC_ResultPipeline_flaw_staleok_laws.cfg', timeout=3000, deadlock=True)
    ctx.tlc('graders/MC_ResultPipeline.tla', 'graders/MC_ResultPipeline_live.cfg', timeout=1200, deadlock=True)

    # ---- spec -> code (the model of the code as it is: InvReturnedWellFormed is among the invariants of every part)
    classes, drift, stats = run_replay(ctx, '')
    if stats['raised'] == 0 or stats['terminal'] == stats['raised']:
        raise Machinery('replay is vacuous: %s' % stats)
    ctx.extra['replay'] = stats
    ctx.extra['drifting_vectors'] = stats['drifting']
    ctx.traces_validated += stats['calls']
    ctx.evaluations += stats['calls']
    for x in drift[:10]:
        ctx.note_drift('%s: %s' % (vector_text(x['part'], x['host'], x['ch']), x['what']))

    records, owner = [], {}
    for text, (cnt, ex) in sorted(classes.items()):
        rec = json.loads(text)
        rec['id'] = len(records) + 1
        owner[rec['id']] = ('replay', cnt, ex)
        records.append(rec)
    n_replay_records = len(records)
    for _, _, ex in list(owner.values())[:2]:
        ctx.sample({'replayed_vector': vector_text(ex['part'], ex['host'], ex['ch']), 'returned': ex['result']})

    # ---- code -> spec
    n = 3000 if ctx.quick else 60000
    per = 50
    base = 1000000
    items = [(ctx.seed * 7919 + i, per, base + i * per * HISTORY_MAX) for i in range(n // per)]
    stats_r, descs = {}, {}
    for chunk in dump.pmap('engine.adapters.c01', 'observe_chunk', items):
        records += chunk['recs']
        descs.update(chunk['descs'])
        for k, v in chunk['stats'].items():
            stats_r[k] = stats_r.get(k, 0) + v
    ctx.evaluations += n
    returned = sum(v for k, v in stats_r.items() if k.endswith(':returned'))
    for k in stats_r:
        ctx.nontrivial.add(('random', k))
    ctx.extra['random_outcomes'] = dict(sorted(stats_r.items()))
    vac = [name for name in [g[0] for g in GENERATORS] + ['again', 'alone', 'family'] if stats_r.get('%s:returned' % name, 0) == 0]
    if vac:
        raise Machinery('random driver produced no returned value for %s' % vac)

    rej = traces.validate(ctx, 'graders/ResultShapeTrace.tla', 'graders/ResultShapeTrace.cfg', records, timeout=3000)
    ctx.extra['rejected_records'] = {
        'replay_shapes': sum(1 for i in rej if i in owner), 'replay_calls': sum(owner[i][1] for i in rej if i in owner),
        'random_calls': sum(1 for i in rej if i not in owner)}
    # simplest cases first (they become the replay files), replayed vectors and random cases alternating
    a = sorted((i for i in rej if i in owner), key=lambda i: (len(owner[i][2]['ch']), i))
    b = sorted((i for i in rej if i not in owner), key=lambda i: (len(json.dumps(descs[i]['case'], default=str)), i))
    order = [x for pair in zip(a, b) for x in pair] + a[len(b):] + b[len(a):]
    for rid in order:
        clause = rej[rid]
        if rid in owner:
            _, cnt, ex = owner[rid]
            sig = {'class': clause_class(clause), 'source': 'replay', 'part': ex['part'], 'host': ex['host'],
                   'choices': [list(x) for x in ex['ch']], 'call': ex['call'], 'k': ex['k'], 'returned': ex['result'],
                   'same_shape_count': cnt}
            ctx.violation(sig, 'replayed vector %s, %s call, returned %s: %s (%d calls with this shape; the model returns a '
                          'well-formed value)' % (vector_text(ex['part'], ex['host'], ex['ch']), ex['call'], ex['result'], clause, cnt))
        else:
            dd = descs[rid]
            sig = {'class': clause_class(clause), 'source': 'random', 'case': dd['case'], 'call': dd['call'], 'returned': dd['result']}
            ctx.violation(sig, '%s(%s) on %r attempt=%s, history step %r, returned %s: %s' % (
                dd['case']['cls'], json.dumps({k: v for k, v in dd['case'].items() if k not in ('cls', 'inputs', 'attempt')},
                                              default=str, ensure_ascii=True)[:600],
                dd['case']['inputs'], dd['case']['attempt'], dd['call'], dd['result'], clause))
    for rid in list(descs)[:2]:
        ctx.sample({'random_case': descs[rid]['case'], 'returned': descs[rid]['result']})
    ctx.extra['bounds'] = {'tier': ctx.tier, 'replayed_vectors': stats['terminal'], 'real_calls_in_replay': stats['calls'],
                           'distinct_result_shapes_from_replay': n_replay_records, 'random_calls': n,
                           'random_calls_that_returned': returned,
                           'attempt_credit_palette': 'none, 1, 1/2, 0, 0.0001 (+ 0.00007, 0.00003 thorough) via author functions and '
                                                     'Linear/Geometric/ReciprocalCredit at attempts up to 30000'}
    ctx.assumptions += [
        'IntegralGrader cannot run here (scipy is not installed); SumGrader exercises the shared summation base class',
        'comparers honour their documented contract (True / False / "partial" / dict with grade_decimal in [0, 1])',
        'the pinned-ok exception is granted only to entries carrying the full grade (documentation: ok is ignored when '
        'grade_decimal is not 1)',
        'SumGrader may answer several input boxes with the single-dictionary form (DESIGN C01)',
        'ListGrader stage of the model is ordered=True with one answer list; unordered matching and alternative answer '
        'lists are exercised by the random driver only (and modelled in C05)',
        'calls that raise (shape / type errors not suppressed, invalid inputs) return nothing and are outside C01 (C02)',
        'a call is judged against the debug flag its grader object was configured with at construction, whatever other '
        'graders sharing the object did in earlier calls']


def replay(ctx, rec):
    """re-run one recorded case (the whole history it belongs to) against the current tree and let the trace
    specification judge what the recorded call returns"""
    from engine import repo
    repo.activate()
    sig = rec['signature']
    if sig.get('source') == 'replay':
        ch = [tuple(x) for x in sig['choices']]
        obs = run_vector(sig['part'], ch, sig['host'], sig.get('k', 0))
        print('vector  :', vector_text(sig['part'], sig['host'], ch))
        result, err, meta = [o for o in obs if o[2]['call'] == sig.get('call', 'only')][0]
        print('%s call returned:' % meta['call'], result if err is None else 'raised ' + err)
        if err is not None:
            return True
        facts = project(result)
        facts.update(cls=meta['cls'], form=meta['form'], n_inputs=meta['n_inputs'], debug=meta['debug'], pinned=meta['pins'])
    else:
        d = sig['case']
        obs = [o for o in observe_case(d) if o['label'] == sig.get('call', 'call')]
        print('case    :', json.dumps(d, default=str)[:1000])
        if not obs or obs[0]['rec'] is None:
            print('returned: nothing (%s)' % (obs[0]['outcome'] if obs else 'step not reached'))
            return True
        print('%s returned:' % obs[0]['label'], obs[0]['result'])
        facts = obs[0]['rec']
    facts['id'] = 1
    rej = traces.validate(ctx, 'graders/ResultShapeTrace.tla', 'graders/ResultShapeTrace.cfg', [facts])
    if rej:
        print('verdict : rejected by ResultShapeTrace, clause %s' % rej[1])
    return not rej
