"""C16 -- each built-in comparer accepts exactly its documented equivalence class.

spec -> code: TLC enumerates every case of MC_Comparers (eight parts: congruence, between, eigenvector, span, phase,
              MatrixEntryComparer, LinearComparer, mismatch policy); the dump carries the concrete lattice values and the
              outcome tokens Comparers!Allowed permits; each case is run through a real FormulaGrader /
              NumericalGrader / MatrixGrader configured with the comparer and the observation is matched.
code -> spec: larger random cases (random unimodular eigen-systems, random spanning sets with injected dependencies,
              Pythagorean phases, random a*x+b maps, random entry subsets, random policies, multi-sample cases with
              variables) are run through the real graders, recorded as ndjson and validated by ComparersTrace
              (TLC evaluates Comparers!Allowed / GuardOK on every record).

Single-sample cases are rendered as literal expression strings (the path a student uses); multi-sample cases feed
the exact per-sample values through ScriptedSampler variables, or (LinearComparer, random driver) through the
expression  a*x+b  over a scripted variable x.
"""
import json
import os
import re
from fractions import Fraction

from engine import dump, traces

TOL = {'abs': 0.0001, 'pct': '0.001%', 'zero': 0, 'tiny': 1e-12}
JIT = {'abs': 1e-7, 'pct': 1e-10, 'zero': 1e-7, 'tiny': 1e-7}   # tolerance / 1000 (abs, pct); >= 1000 tolerances (zero, tiny)
JIT_TEXT = {'abs': '0.0000001', 'pct': '0.0000000001', 'zero': '0.0000001', 'tiny': '0.0000001'}
DEFAULT_POLICY = {'raised': True, 'detail': 'type', 'suppress': False, 'shapeErrors': True}
DEFAULT_CFG = {'equals': [1, 1], 'proportional': [1, 2], 'offset': [-1, 1], 'linear': [-1, 1]}
EVALERR_INPUT = '[1,2,3]+[1,2]'
PER_CLASS_REPORTS = 3


# ------------------------------------------------------------------------------------------------ rendering
def frac_text(n, d):
    f = Fraction(n, d)
    if f.denominator == 1:
        return str(f.numerator) if f.numerator >= 0 else '(%d)' % f.numerator
    return '(%d/%d)' % (f.numerator, f.denominator)


def entry_text(z, den, form='plain', jit=0, tol='abs'):
    re, im = z
    if form == 'isq' and im == 0:
        t = 'i^2+' + frac_text(re + den, den)
    elif im == 0:
        t = frac_text(re, den)
        if form == 'cplx0':
            t = t + '+0*i'
    else:
        t = '(%s+%s*i)' % (frac_text(re, den), frac_text(im, den))
    if jit:
        t = t + ('+' if jit > 0 else '-') + JIT_TEXT[tol]
    return t


def value_text(v, form='plain', jit=0, tol='abs'):
    ent, den, shape = v['ent'], v['den'], v['shape']
    parts = [entry_text(z, den, form if k == 0 else ('plain' if form == 'isq' else form), jit if k == 0 else 0, tol)
             for k, z in enumerate(ent)]
    if len(shape) == 0:
        return parts[0]
    if len(shape) == 1:
        return '[' + ','.join(parts) + ']'
    r, c = shape
    return '[' + ','.join('[' + ','.join(parts[i * c:(i + 1) * c]) + ']' for i in range(r)) + ']'


def value_py(v, form='plain', jit=0.0):
    """exact lattice value -> python number / MathArray for a ScriptedSampler"""
    import numpy as np
    from mitxgraders.helpers.calc import MathArray
    ent, den, shape = v['ent'], v['den'], v['shape']
    cplx = any(z[1] != 0 for z in ent) or form == 'cplx0'
    nums = []
    for k, z in enumerate(ent):
        x = (z[0] / den) if den != 1 else z[0]
        if k == 0 and jit:
            x = x + jit
        nums.append(complex(x, z[1] / den) if cplx else x)
    if len(shape) == 0:
        return nums[0]
    return MathArray(np.array(nums).reshape(shape))


def credit_py(q):
    if q[0] == -1:
        return None
    if q[1] == 1:
        return q[0]
    return q[0] / q[1]


# ------------------------------------------------------------------------------------------------ running the code
def message_level(msg):
    if msg == '':
        return 'none'
    if msg.startswith('Expected answer to be'):
        return 'shape' if ('length' in msg or 'rows:' in msg) else 'type'
    if msg.startswith('Cannot add/subtract') or msg.startswith('Cannot multiply') or msg.startswith('Cannot divide'):
        return 'evalmsg'
    return 'other'


def shape_name(shape, detail):
    dim = len(shape)
    if detail == 'type':
        return ['scalar', 'vector', 'matrix'][dim] if dim < 3 else 'tensor'
    if dim == 0:
        return 'scalar'
    if dim == 1:
        return 'vector of length %d' % shape[0]
    return 'matrix of shape (rows: %d, cols: %d)' % tuple(shape)


def expected_message(model):
    """text of Comparers!MessageModel, the documented wording (docs/grading_math/matrix_grader/matrix_grader.md);
    compared as drift only"""
    if model['form'] == 'empty':
        return ''
    e, g = shape_name(model['exp'], model['form']), shape_name(model['got'], model['form'])
    if model['same']:
        return 'Expected answer to be a %s, but input is a %s of incorrect shape' % (e, g)
    return 'Expected answer to be a %s, but input is a %s' % (e, g)


def comparer_for(case, hints):
    from mitxgraders import (congruence_comparer, between_comparer, eigenvector_comparer, vector_span_comparer,
                             vector_phase_comparer, MatrixEntryComparer, LinearComparer)
    kind = case['kind']
    if kind == 'cong':
        return congruence_comparer
    if kind == 'between':
        return between_comparer
    if kind == 'eigen':
        return eigenvector_comparer
    if kind == 'span':
        return vector_span_comparer
    if kind == 'phase':
        return vector_phase_comparer
    if kind == 'entry':
        m = case['mode']
        return MatrixEntryComparer(entry_partial_credit='proportional' if m['k'] == 'prop' else credit_py(m['v']))
    if kind == 'linear':
        return LinearComparer(**{k: credit_py(v) for k, v in case['cfg'].items()})
    return None                                   # 'equal': the grader's default comparer


def build(case, hints, comparer=None):
    """-> (grader, student_input); comparer: an existing comparer OBJECT to be shared instead of a fresh one"""
    from mitxgraders import FormulaGrader, NumericalGrader, MatrixGrader
    from engine.fixtures import ScriptedSampler
    kind = case['kind']
    n = len(case['S'])
    style = hints.get('style', 'lit' if n == 1 else 'script')
    form = hints.get('form', 'plain')
    jit = case['jit']
    comparer = comparer if comparer is not None else comparer_for(case, hints)
    cfg = {'tolerance': TOL[case['tol']]}
    matrix = kind not in ('cong', 'between') and not (
        kind == 'linear' and len(case['S'][0]['shape']) == 0 and len(case['P'][0][0]['shape']) == 0
        and not case['evalerr'] and hints.get('grader', 'formula') == 'formula')
    if matrix:
        p = case['policy']
        cfg.update(max_array_dim=2, shape_errors=p['shapeErrors'], suppress_matrix_messages=p['suppress'],
                   answer_shape_mismatch={'is_raised': p['raised'], 'msg_detail': None if p['detail'] == 'none' else p['detail']})
        cls = MatrixGrader
    else:
        cls = NumericalGrader if hints.get('grader') == 'numerical' else FormulaGrader
    if style == 'lit':
        params = [value_text(v) for v in case['P'][0]]
        student = value_text(case['S'][0], form, jit, case['tol'])
        if cls is not NumericalGrader:
            cfg['samples'] = 2
    elif style == 'script':
        k = len(case['P'][0])
        names = ['p%d' % (i + 1) for i in range(k)]
        params = names
        student = 's'
        sf = {names[i]: ScriptedSampler(script=[value_py(case['P'][s][i]) for s in range(n)]) for i in range(k)}
        sf['s'] = ScriptedSampler(script=[value_py(case['S'][s], form, JIT[case['tol']] * jit if s == 0 else 0.0) for s in range(n)])
        cfg.update(variables=names + ['s'], sample_from=sf, samples=n)
    else:                                         # 'expr': LinearComparer, expected 'x', student 'a*x+b' over scripted x
        params = ['x']
        student = hints['student']
        cfg.update(variables=['x'], samples=n,
                   sample_from={'x': ScriptedSampler(script=[value_py(case['P'][s][0]) for s in range(n)])})
    if case['evalerr']:
        student = EVALERR_INPUT
    if kind == 'equal':
        cfg['answers'] = params[0]
    elif kind == 'entry' and hints.get('via', 'explicit') == 'option':
        m = case['mode']
        cfg['answers'] = params[0]
        cfg['entry_partial_credit'] = 'proportional' if m['k'] == 'prop' else credit_py(m['v'])
    else:
        cfg['answers'] = {'comparer': comparer, 'comparer_params': params}
    return cls(**cfg), student


def scripted_draws_misaligned(grader):
    """instrument self-check: every scripted variable was drawn exactly once per sample, in script order"""
    from engine.fixtures import ScriptedSampler
    n = grader.config['samples']
    for name, sampler in grader.config.get('sample_from', {}).items():
        if isinstance(sampler, ScriptedSampler) and len(sampler.draws) % n != 0:      # (graders are reused: k calls)
            return 'variable %s was drawn %d times for %d samples' % (name, len(sampler.draws), n)
    return None


def config_error(e):
    return {'k': 'config', 'g': [0, 1], 'ok': '-', 'lvl': 'other', 'cls': type(e).__name__, 'sf': False,
            'msg': str(e)[:200], 'input': None}


# graders of literal-style cases are REUSED across cases with the same configuration (same comparer object, same
# grader object, other submissions): the verdict of a call must not depend on what the object graded before
GRADER_CACHE = {}
GRADER_CACHE_MAX = 48


def cache_key(case, hints):
    if len(case['S']) != 1 or hints.get('style', 'lit') != 'lit':
        return None
    return json.dumps([case['kind'], case['tol'], case['policy'], case['mode'], case['cfg'], case['P'],
                       hints.get('grader'), hints.get('via')], sort_keys=True)


def observe(case, hints, comparer=None, reuse=False):
    """run the real grader; returns the observation record of Comparers (plus the raw message).
    reuse: take the grader (and its comparer object) from GRADER_CACHE when the same configuration was built before;
    the observation then carries 'before' = the inputs that object has already graded"""
    key = cache_key(case, hints) if reuse else None
    try:
        if key is not None and key in GRADER_CACHE:
            grader, before = GRADER_CACHE[key]
            student = build_student(case, hints)
        else:
            grader, student = build(case, hints, comparer)
            before = []
            if key is not None:
                if len(GRADER_CACHE) >= GRADER_CACHE_MAX:
                    GRADER_CACHE.pop(next(iter(GRADER_CACHE)))
                GRADER_CACHE[key] = (grader, before)
    except Exception as e:                        # a configuration the real code refuses: machinery, not a verdict
        return config_error(e)
    obs = call_grader(grader, student)
    obs['before'] = list(before[-6:])
    before.append(student)
    return obs


def build_student(case, hints):
    if case['evalerr']:
        return EVALERR_INPUT
    return value_text(case['S'][0], hints.get('form', 'plain'), case['jit'], case['tol'])


def call_grader(grader, student):
    from mitxgraders.exceptions import StudentFacingError, InputTypeError
    from mitxgraders.helpers.calc.exceptions import MathArrayShapeError
    try:
        r = grader(None, student)
    except Exception as e:
        sf = isinstance(e, StudentFacingError)
        if isinstance(e, InputTypeError):
            cls = 'InputTypeError'
        elif isinstance(e, MathArrayShapeError):
            cls = 'ShapeError'
        elif sf and str(e).startswith('Invalid Input: Could not check input'):
            cls = 'generic'
        else:
            cls = type(e).__name__
        return {'k': 'raise', 'g': [0, 1], 'ok': '-', 'lvl': message_level(str(e)), 'cls': cls, 'sf': sf,
                'msg': str(e)[:200], 'input': student}
    bad_draws = scripted_draws_misaligned(grader)
    if bad_draws:
        return {'k': 'config', 'g': [0, 1], 'ok': '-', 'lvl': 'other', 'cls': 'ScriptedSampler', 'sf': False,
                'msg': bad_draws, 'input': student}
    g = r.get('grade_decimal')
    try:
        f = Fraction(g).limit_denominator(1000)
        gq = [f.numerator, f.denominator] if abs(float(f) - float(g)) <= 1e-9 else [-7, 1]
    except Exception:
        gq = [-7, 1]
    ok = {True: 'true', False: 'false'}.get(r.get('ok')) if isinstance(r.get('ok'), bool) else \
        ('partial' if r.get('ok') == 'partial' else 'other')
    msg = r.get('msg', '')
    return {'k': 'result', 'g': gq, 'ok': ok, 'lvl': message_level(msg), 'cls': '-', 'sf': False,
            'msg': msg[:200], 'input': student}


def ok_of(g):
    return 'true' if g == [1, 1] else ('false' if g == [0, 1] else 'partial')


def matches(o, a):
    """python mirror of Comparers!Matches"""
    k = a['k']
    if k == 'grade':
        return o['k'] == 'result' and o['g'] == a['g'] and o['ok'] == ok_of(a['g']) and o['lvl'] in ('none', 'other')
    if k == 'sferror':
        return o['k'] == 'raise' and o['sf']
    want = 'InputTypeError' if k == 'mismatch' else 'ShapeError'
    if a['how'] == 'raise':
        return o['k'] == 'raise' and o['sf'] and o['cls'] == want and o['lvl'] == a['lvl']
    return o['k'] == 'result' and o['g'] == [0, 1] and o['ok'] == 'false' and o['lvl'] == a['lvl']


def exp_shape(case):
    if case['kind'] in ('cong', 'between'):
        return []
    if case['kind'] == 'eigen':
        return [case['P'][0][0]['shape'][0]]
    return case['P'][0][0]['shape']


def finding_class(case, hints, allowed, obs):
    """stable class names for the defect families seen on the unchanged tree"""
    import numpy as np
    kind = case['kind']
    accept = {'k': 'grade', 'g': [1, 1], 'how': '-', 'lvl': '-'}
    real = all(z[1] == 0 for s in case['S'] for z in s['ent'])
    typed = hints.get('form') in ('cplx0', 'isq')
    if kind in ('between', 'cong') and accept in allowed and real and typed and obs['k'] == 'raise':
        return 'between-real-typed-complex' if kind == 'between' else 'congruence-real-typed-complex'
    if kind == 'span' and allowed == [{'k': 'grade', 'g': [0, 1], 'how': '-', 'lvl': '-'}] and obs['k'] == 'result' \
            and obs['g'] == [1, 1]:
        for ps in case['P']:
            m = np.array([[complex(z[0], z[1]) for z in v['ent']] for v in ps])
            if np.linalg.matrix_rank(m) < len(ps) or len(ps) >= len(ps[0]['ent']):
                return 'span-rank-deficient'
    if kind == 'cong' and accept in allowed and real and not typed and obs['k'] == 'result' and obs['g'] == [0, 1] \
            and any(Fraction(ps[0]['ent'][0][0] * ps[1]['den'], ps[0]['den'] * ps[1]['ent'][0][0]).denominator == 1
                    for ps in case['P']):
        return 'congruence-wraparound'
    if kind == 'eigen' and accept in allowed and case['tol'] == 'pct' and obs['k'] == 'result' and obs['g'] == [0, 1] \
            and all(z == [0, 0] for ps in case['P'] for z in ps[1]['ent']):
        return 'eigen-zero-eigenvalue-percent-tolerance'
    if kind == 'linear' and obs['k'] == 'result':
        cplx = any(z[1] != 0 for s in range(len(case['S'])) for z in case['S'][s]['ent'] + case['P'][s][0]['ent'])
        if cplx and all(obs['g'][0] * a['g'][1] > a['g'][0] * obs['g'][1] for a in allowed if a['k'] == 'grade'):
            return 'linear-complex-sum-of-squares'
    return None


def signature(case, hints, allowed, obs, rel=None, why=None):
    sig = {'comparer': case['kind'], 'tolerance': TOL[case['tol']], 'jitter': case['jit'],
           'params': [[value_text(v) for v in ps] for ps in case['P']],
           'submission': [value_text(s, hints.get('form', 'plain')) for s in case['S']],
           'student_input': obs.get('input'), 'relation': rel,
           'allowed': allowed, 'observed': {k: obs[k] for k in ('k', 'g', 'ok', 'lvl', 'cls', 'sf')},
           'observed_msg': obs.get('msg')}
    if case['kind'] == 'entry':
        sig['entry_partial_credit'] = case['mode']
    if case['kind'] == 'linear':
        sig['credits'] = case['cfg']
    if case['policy'] != DEFAULT_POLICY or case['evalerr']:
        sig['policy'] = case['policy']
        sig['evalerr'] = case['evalerr']
    # the class comes from the specification (Comparers!DeviationClass) when the observation is exactly what the
    # implementation-shaped model predicts; the python heuristic is only a fallback
    sig['class'] = why or finding_class(case, hints, allowed, obs)
    return sig


def describe(sig):
    return '%s comparer, params %s, submission %r (tolerance %s): spec allows %s, code gave %s%s' % (
        sig['comparer'], sig['params'][0], sig['student_input'], sig['tolerance'],
        ' or '.join(token_text(a) for a in sig['allowed']), obs_text(sig['observed']),
        (' [' + sig['class'] + ']') if sig['class'] else '')


def token_text(a):
    if a['k'] == 'grade':
        return 'grade %d/%d' % tuple(a['g'])
    if a['k'] == 'sferror':
        return 'student-facing error'
    return '%s %s %s' % (a['k'], a['how'], a['lvl'])


def obs_text(o):
    if o['k'] == 'result':
        return 'grade %d/%d ok=%s msg-level=%s' % (o['g'][0], o['g'][1], o['ok'], o['lvl'])
    return '%s %s (student-facing=%s, msg-level=%s)' % (o['k'], o['cls'], o['sf'], o['lvl'])


# ------------------------------------------------------------------------------------------------ spec -> code
def hints_of(c):
    h = {}
    for k in ('form', 'grader', 'via'):
        if k in c:
            h[k] = c[k]
    return h


def replay_states(states, extra):
    from engine import repo
    repo.activate()
    n = 0
    keys = {}
    bad = []
    drift = []
    config_errors = []
    sample = None
    for st in states:
        c = st['c']
        if c['kind'] == 'seed':
            continue
        if c['kind'] == 'history':
            h = replay_history(c, st['out'])
            n += h['n']
            keys['history:%s/len%d' % (c['obj'], len(c['hist']))] = keys.get('history:%s/len%d' % (c['obj'], len(c['hist'])), 0) + 1
            for k in h['keys']:
                keys[k] = keys.get(k, 0) + 1
            bad += h['bad']
            drift += h['drift'][:max(0, 3 - len(drift))]
            config_errors += h['config_errors']
            if sample is None:
                sample = h['sample']
            continue
        n += 1
        case, allowed, rel = st['out']['case'], st['out']['allowed'], st['out']['rel']
        hints = hints_of(c)
        obs = observe(case, hints, reuse=True)
        key = '%s/%s' % (case['kind'] if c['kind'] != 'shape' else 'shape:' + case['kind'], rel)
        keys[key] = keys.get(key, 0) + 1
        if obs['k'] == 'config':
            if len(config_errors) < 5:
                config_errors.append({'c': c, 'error': obs['msg'], 'cls': obs['cls']})
            continue
        if sample is None or (n % 997 == 0):
            sample = {'comparer': case['kind'], 'params': [value_text(v) for v in case['P'][0]], 'input': obs['input'],
                      'relation': rel, 'allowed': [token_text(a) for a in allowed], 'observed': obs_text(obs)}
        impl = st['out'].get('impl')
        if not any(matches(obs, a) for a in allowed):
            why = st['out'].get('why')
            why = why if (why and why != 'none' and impl and matches(obs, impl)) else None
            bad.append({'sig': signature(case, hints, allowed, obs, rel, why), 'case': case, 'hints': hints,
                        'before': obs.get('before', [])})
        elif impl and not matches(obs, impl) and len(drift) < 3:
            drift.append('implementation-shaped model (Comparers!ImplOutcome) predicts %s for %s %s / %r, code gave %s' % (
                token_text(impl), case['kind'], [value_text(v) for v in case['P'][0]], obs['input'], obs_text(obs)))
        elif rel == 'wrongshape' and len(drift) < 3:
            want = expected_message(st['out']['msg'])
            if obs['msg'] != want:
                drift.append('shape-mismatch message wording: expected %r, code says %r' % (want, obs['msg']))
    return {'n': n, 'keys': keys, 'bad': bad, 'sample': sample, 'drift': drift, 'config_errors': config_errors}


# ------------------------------------------------------------------------------------------------ histories on one object
HIST_EXPECT = {'A': 'x', 'B': '[x,2*x-1]', 'Z': '0*x'}
HIST_SQ = {'A': 'x^2', 'B': '[x^2,(2*x-1)^2]', 'Z': '(0*x)^2'}
HIST_SHIFT = '0.0000001*(x-2)*(x-4)/3'              # 1e-7 at the first sample x = 1, nothing at x = 2, 4
HIST_X = [1, 2, 4]
HIST_FAILABLE = {'B': 1, 'M': 1}                    # documented as ignored by correlated comparers


def hist_student(g, sub):
    e = HIST_EXPECT[g]
    ones = '[1,1]' if g == 'B' else '1'
    if sub == 'eqshift':
        return 'x+' + HIST_SHIFT if g == 'A' else '[x+%s,2*x-1]' % HIST_SHIFT
    return {'zero': '0*(%s)' % e, 'prop': '2*(%s)' % e, 'offset': '(%s)+%s' % (e, ones),
            'linear': '2*(%s)+%s' % (e, ones), 'equal': e, 'sq': HIST_SQ[g], 'shape': '3'}[sub]


def hist_grader(c, g, case, comparer):
    """a grader named g of the history c, configured from its own (tolerance, policy) and sharing `comparer`,
    either explicitly in its answers or through set_default_comparer"""
    from mitxgraders import FormulaGrader, MatrixGrader
    from engine.fixtures import ScriptedSampler
    cfg = {'tolerance': TOL[case['tol']]}
    if g in HIST_FAILABLE:
        cfg['failable_evals'] = HIST_FAILABLE[g]
    if c['obj'] == 'linear':
        cls = MatrixGrader if g == 'B' else FormulaGrader
        expect = HIST_EXPECT[g]
        cfg.update(variables=['x'], samples=len(HIST_X), sample_from={'x': ScriptedSampler(script=list(HIST_X))})
    else:
        cls = MatrixGrader
        expect = value_text(case['P'][0][0])
        cfg['samples'] = 2
    if cls is MatrixGrader:
        p = case['policy']
        cfg.update(max_array_dim=2, shape_errors=p['shapeErrors'], suppress_matrix_messages=p['suppress'],
                   answer_shape_mismatch={'is_raised': p['raised'], 'msg_detail': None if p['detail'] == 'none' else p['detail']})
    if c['share'] == 'default':
        cls.set_default_comparer(comparer)
        try:
            grader = cls(answers=expect, **cfg)
        finally:
            cls.reset_default_comparer()
        expect0 = grader.config['answers'][0]['expect']
        expect0 = expect0[0] if isinstance(expect0, (tuple, list)) else expect0
        if expect0['comparer'] is not comparer:
            raise RuntimeError('set_default_comparer did not install the shared comparer object')
        return grader
    return cls(answers={'comparer': comparer, 'comparer_params': [expect]}, **cfg)


def replay_history(c, out):
    """one comparer OBJECT, one grader object per grader name sharing it (the graders differ in tolerance and mismatch
    policy), the calls of c.hist in order; every call is compared with the outcome the specification allows for that
    call under the calling grader's own configuration"""
    from mitxgraders import LinearComparer, MatrixEntryComparer
    res = {'n': 0, 'keys': [], 'bad': [], 'drift': [], 'config_errors': [], 'sample': None}
    try:
        if c['obj'] == 'linear':
            comparer = LinearComparer(**{k: credit_py(v) for k, v in c['cfg'].items()})
        else:
            m = c['mode']
            comparer = MatrixEntryComparer(entry_partial_credit='proportional' if m['k'] == 'prop' else credit_py(m['v']))
    except Exception as e:
        res['config_errors'].append({'c': c, 'error': str(e), 'cls': type(e).__name__})
        return res
    graders = {}
    done = []
    for call, entry in zip(c['hist'], out['calls']):
        case = entry['case']
        try:
            if call['g'] not in graders:
                graders[call['g']] = hist_grader(c, call['g'], case, comparer)
            if c['obj'] == 'linear':
                student = hist_student(call['g'], call['sub'])
            else:
                student = value_text(case['S'][0], 'plain', case['jit'], case['tol'])
        except Exception as e:
            res['config_errors'].append({'c': c, 'error': str(e), 'cls': type(e).__name__})
            return res
        obs = call_grader(graders[call['g']], student)
        res['n'] += 1
        if obs['k'] == 'config':
            res['config_errors'].append({'c': c, 'error': obs['msg'], 'cls': obs['cls']})
            return res
        obs['before'] = ['%s (tolerance %s): %s' % d for d in done]
        if not any(matches(obs, a) for a in entry['allowed']):
            sig = signature(case, {}, entry['allowed'], obs, 'history')
            sig['history_on_same_comparer_object'] = obs['before']
            sig['grader'] = call['g']
            sig['comparer_shared_through'] = c['share']
            res['bad'].append({'sig': sig, 'case': case, 'hints': {}, 'before': obs['before'],
                               'history': {'c': c, 'upto': len(done) + 1}})
        elif not matches(obs, entry['impl']) and len(res['drift']) < 2:
            res['drift'].append('object model (Comparers!ImplOutcomeOnObject) predicts %s after %s for %r, code gave %s' % (
                token_text(entry['impl']), obs['before'], student, obs_text(obs)))
        done.append((call['g'], TOL[case['tol']], student))
        if res['sample'] is None and len(done) == len(c['hist']) and len(done) > 1:
            res['sample'] = {'history_on_one_%s_comparer_object_shared_%s' % (c['obj'], c['share']):
                             ['%s (tolerance %s): %s' % d for d in done],
                             'last_allowed': [token_text(a) for a in entry['allowed']], 'last_observed': obs_text(obs)}
    return res


EXPECTED_CLASSES = {
    'cong': ['cong/member', 'cong/nonmember', 'cong/silent'],
    'between': ['between/member', 'between/nonmember', 'between/silent'],
    'eigen': ['eigen/member', 'eigen/nonmember'],
    'span': ['span/member', 'span/nonmember'],
    'phase': ['phase/member', 'phase/nonmember'],
    'entry': ['entry/member', 'entry/nonmember', 'entry/partial'],
    'linear': ['linear/member', 'linear/nonmember', 'linear/partial', 'linear/ambiguous'],
    'history': ['history:linear/len3', 'history:entry/len3', 'history:linear/len1'],
    'shape': ['shape:%s/%s' % (k, r) for k in ('equal', 'entry', 'eigen', 'span', 'phase', 'linear')
              for r in ('wrongshape', 'evalerr')],
}
PARTS = ['cong', 'between', 'eigen', 'span', 'phase', 'entry', 'linear', 'shape', 'history']
VARIANTS = [('flaw_ordering_between', 'between-real-typed-complex'), ('flaw_ordering_cong', 'congruence-real-typed-complex'),
            ('flaw_congruence_linear', 'congruence-wraparound'), ('flaw_span_residual', 'span-rank-deficient'),
            ('flaw_linear_squares', 'linear-complex-sum-of-squares'),
            ('flaw_aliased_modes', None),               # object state: a zero submission disables proportional / linear
            ('flaw_sticky_tolerance', None)]            # object state: the first grader's tolerance is kept


class Reporter(object):
    """at most PER_CLASS_REPORTS replay files per finding class; everything is counted"""

    def __init__(self, ctx):
        self.ctx = ctx
        self.per_class = {}

    def report(self, sig, detail):
        cls = sig.get('class') or 'unclassified'
        k = self.per_class.get(cls, 0)
        self.per_class[cls] = k + 1
        if k < (PER_CLASS_REPORTS if sig.get('class') else 20):
            self.ctx.violation(sig, describe(sig), detail)


def run(ctx):
    from engine.main import Machinery
    rep = Reporter(ctx)
    classes = {}
    for part in PARTS:
        d = os.path.join(ctx.scratch, 'cases_' + part)
        ctx.tlc('arrays/MC_Comparers.tla', 'arrays/MC_Comparers_%s_%s.cfg' % (part, ctx.tier), dump=d, timeout=3000)
        res = dump.parallel(d + '.dump', 'engine.adapters.c16', 'replay_states')
        os.remove(d + '.dump')
        for r in res:
            ctx.traces_validated += r['n']
            ctx.evaluations += r['n']
            for k, v in r['keys'].items():
                classes[k] = classes.get(k, 0) + v
                ctx.nontrivial.add(k)
            if r['sample']:
                ctx.sample(r['sample'], limit=10)
            for dmsg in r['drift']:
                ctx.note_drift(dmsg)
            if r['config_errors']:
                raise Machinery('the real code refused a generated configuration: %r' % (r['config_errors'][0],))
            for b in r['bad']:
                rep.report(b['sig'], {'case': b['case'], 'hints': b['hints'], 'before': b.get('before', []),
                                      'history': b.get('history')})
        missing = [k for k in EXPECTED_CLASSES[part] if not classes.get(k)]
        if missing:
            raise Machinery('vacuity: part %s never produced the classes %s' % (part, missing))
    # ---- the implementation-shaped model (Comparers!ImplOutcome) and the property-level one.  For the current code
    #      (Flaws = {}) LawImplDeviatesOnlyThere_ was an invariant of every part above.  Vacuity guard: each model
    #      variant that switches one repaired code block back to its original form MUST violate ImplRefines_ (TLC
    #      exhibits the design-level counterexample); otherwise the refinement check has lost its teeth.
    variants = {}
    for name, want in VARIANTS:
        r = ctx.tlc('arrays/MC_Comparers.tla', 'arrays/MC_Comparers_%s.cfg' % name, must_hold=False, timeout=1500)
        found = re.findall(r'why \|-> "([^"]+)"', r.out)
        if 'ImplRefines_' not in r.violated or (want is not None and (not found or found[-1] != want)):
            raise Machinery('vacuity guard: model variant %s does not violate ImplRefines_ with class %s (violated=%s, '
                            'class=%s)\n%s' % (name, want, r.violated, found[-1:] or None, r.out[-1500:]))
        variants[name] = want or 'history-dependent verdict'
    ctx.extra['model_variants_violating'] = variants
    # the current code still leaves the class for the eigenvalue 0 (known finding): informational, never a failure
    r = ctx.tlc('arrays/MC_Comparers.tla', 'arrays/MC_Comparers_eigen_impl.cfg', must_hold=False, timeout=1500)
    found = re.findall(r'why \|-> "([^"]+)"', r.out)
    ctx.extra['current_model_vs_property'] = (found[-1] if ('ImplRefines_' in r.violated and found) else
                                              ('refines' if r.ok else 'unclear: %s' % r.violated))
    # ---- code -> spec
    n = 4000 if ctx.quick else 48000
    cases = random_cases(ctx.rng, n)
    recs = [r for chunk in dump.pmap('engine.adapters.c16', 'observe_chunk', cases) for r in chunk]
    bad_cfg = [r for r in recs if r['obs']['k'] == 'config']
    if bad_cfg:
        raise Machinery('the real code refused a generated configuration: %r' % (
            {'kind': bad_cfg[0]['kind'], 'hints': bad_cfg[0]['hints'], 'error': bad_cfg[0]['obs_msg']},))
    byid = {r['id']: r for r in recs}
    rej = {}
    step = 6000
    for i in range(0, len(recs), step):
        rej.update(traces.validate(ctx, 'arrays/ComparersTrace.tla', 'arrays/ComparersTrace.cfg',
                                   [trace_record(r) for r in recs[i:i + step]], name='trace%d' % i, timeout=3000))
    ctx.evaluations += len(recs)
    unguarded = 0
    tkinds = {}
    for r in recs:
        if rej.get(r['id']) != 'UNGUARDED':
            tkinds[r['kind']] = tkinds.get(r['kind'], 0) + 1
    for i, clause in rej.items():
        r = byid[i]
        if clause == 'MALFORMED':
            raise Machinery('trace record %s is not a case of the specification: %r' % (i, trace_record(r)))
        if clause == 'UNGUARDED':
            unguarded += 1
            continue
        obs = dict(r['obs'], msg=r['obs_msg'], input=r['obs_input'])
        allowed, why = parse_summary(clause)
        sig = signature(r, r['hints'], allowed, obs, 'trace', why)
        if r.get('obs_before'):
            sig['history_on_same_comparer_object'] = r['obs_before']
        rep.report(sig, {'case': case_of(r), 'hints': r['hints'], 'allowed_text': clause, 'before': r.get('obs_before', [])})
    for r in recs[:2]:
        ctx.sample({'trace_record': {'comparer': r['kind'], 'params': [value_text(v) for v in r['P'][0]],
                                     'input': r['obs_input'], 'observed': obs_text(r['obs'])}}, limit=12)
    ctx.traces_validated -= unguarded
    ctx.extra['classes_reached'] = classes
    ctx.extra['violations_per_class'] = rep.per_class
    ctx.extra['trace_records_per_comparer'] = tkinds
    ctx.extra['trace_records_skipped_unguarded'] = unguarded
    ctx.extra['bounds'] = {
        'tier': ctx.tier, 'tolerances': TOL, 'jitter': JIT,
        'exhaustive': 'targets: scalars, complex numbers, vectors 2-4, matrices up to 3x3; see MC_Comparers.tla',
        'random_records': n, 'random': 'vectors up to 4, matrices up to 4x4, 3-6 samples, numerators up to 90'}
    ctx.assumptions += [
        'numpy primitives (lstsq, norm, %) are trusted; members are exact lattice points, non-members at least 1000 '
        'tolerances from the class (law LawGuard, clause UNGUARDED in the trace spec)',
        'a non-real submission to congruence_comparer / between_comparer may be rejected or raise any student-facing error',
        'LinearComparer relations that hold in one direction only (student constant, expected varying, or the converse) '
        'may or may not earn the linear/offset credit; with no applicable mode (equals=None and a zero side) credit 0 '
        'or a student-facing error',
        'zero targets of vector_phase_comparer, zero moduli, non-vector parameters are outside the generated space',
    ]


# ------------------------------------------------------------------------------------------------ code -> spec
def case_of(r):
    return {k: r[k] for k in ('kind', 'tol', 'jit', 'policy', 'evalerr', 'typed', 'P', 'S', 'mode', 'cfg')}


def trace_record(r):
    rec = case_of(r)
    rec['id'] = r['id']
    rec['obs'] = r['obs']
    return rec


def parse_summary(text):
    """'<token> or <token> | <deviation class>' -> (allowed tokens, class or None)"""
    text, _, why = text.partition(' | ')
    return parse_tokens(text), (why if why and why != 'none' else None)


def parse_tokens(text):
    out = []
    for part in text.split(' or '):
        w = part.split()
        if w[0] == 'grade':
            n, d = w[1].split('/')
            out.append({'k': 'grade', 'g': [int(n), int(d)], 'how': '-', 'lvl': '-'})
        elif w[0] == 'student-facing':
            out.append({'k': 'sferror', 'g': [0, 1], 'how': '-', 'lvl': '-'})
        else:
            out.append({'k': w[0], 'g': [0, 1], 'how': w[1], 'lvl': w[2]})
    return out


def observe_chunk(groups, extra):
    """groups: lists of cases; the cases of one group are graded, in order, with ONE comparer object (LinearComparer /
    MatrixEntryComparer with the group's configuration) shared by their graders; single cases reuse cached graders"""
    from engine import repo
    repo.activate()
    out = []
    for group in groups:
        shared = None
        done = []
        for r in group:
            if len(group) > 1:
                try:
                    shared = shared if shared is not None else comparer_for(case_of(r), r['hints'])
                    obs = observe(case_of(r), r['hints'], comparer=shared)
                except Exception as e:
                    obs = config_error(e)
                    obs['before'] = []
                obs['before'] = list(done)
            else:
                obs = observe(case_of(r), r['hints'], reuse=True)
            done.append(obs.get('input'))
            r = dict(r)
            r['obs_msg'] = obs.pop('msg')
            r['obs_input'] = obs.pop('input')
            r['obs_before'] = obs.pop('before', [])
            r['obs'] = obs
            out.append(r)
    return out


def val(shape, ent, den=1):
    return {'shape': list(shape), 'ent': [[int(a), int(b)] for a, b in ent], 'den': int(den)}


def sc(re, im=0, den=1):
    return val([], [(re, im)], den)


def gmul(z, w):
    return (z[0] * w[0] - z[1] * w[1], z[0] * w[1] + z[1] * w[0])


def gadd(z, w):
    return (z[0] + w[0], z[1] + w[1])


def rand_g(rng, lo, hi, p_complex=0.3):
    return (rng.randint(lo, hi), rng.randint(-1, 1) if rng.random() < p_complex else 0)


def base_case(kind, rng, tols=('abs', 'pct')):
    return {'kind': kind, 'tol': rng.choice(tols), 'jit': 0, 'policy': dict(DEFAULT_POLICY), 'evalerr': False, 'typed': False,
            'mode': {'k': 'flat', 'v': [0, 1]}, 'cfg': dict(DEFAULT_CFG), 'hints': {}}


def gen_cong(rng):
    c = base_case('cong', rng, ('abs', 'pct', 'zero'))
    den = rng.choice([1, 1, 2, 4, 8, 5, 10])      # 5, 10: inexact reductions (judged only off the radius-0 boundaries)
    ns = rng.choice([1, 1, 1, 3])
    form = rng.choice(['plain', 'plain', 'cplx0', 'isq', 'imag'])
    step_at = rng.randrange(ns) if rng.random() < 0.5 else None
    P, S = [], []
    for s in range(ns):
        t, m = rng.randint(-30, 30), rng.choice([-1, 1]) * rng.randint(1, 10)
        x = t + rng.randint(-6, 6) * m + (rng.choice([-2, -1, 1, 2, 3]) if s == step_at else 0)
        P.append([sc(t, 0, den), sc(m, 0, den)])
        S.append(sc(x, 1 if form == 'imag' else 0, den))
    c.update(P=P, S=S)
    c['hints'] = {'form': form, 'grader': rng.choice(['formula', 'numerical']) if ns == 1 else 'formula'}
    if ns > 1 and form == 'isq':
        c['hints']['form'] = 'cplx0'
    c['typed'] = form in ('cplx0', 'isq')
    if step_at is None and form == 'plain' and c['tol'] == 'abs' and rng.random() < 0.3:
        c['jit'] = rng.choice([-1, 1])
    return c


def gen_between(rng):
    c = base_case('between', rng)
    den = rng.choice([1, 1, 2, 4, 8])
    ns = rng.choice([1, 1, 1, 3])
    form = rng.choice(['plain', 'plain', 'cplx0', 'isq', 'imag'])
    P, S = [], []
    for s in range(ns):
        a = rng.randint(-30, 30)
        b = a + rng.randint(-3, 25)
        x = rng.choice([a, b, a - 1, b + 1, a + 1, rng.randint(a - 10, b + 10)])
        P.append([sc(a, 0, den), sc(b, 0, den)])
        S.append(sc(x, 1 if form == 'imag' else 0, den))
    c.update(P=P, S=S)
    c['hints'] = {'form': form, 'grader': rng.choice(['formula', 'numerical']) if ns == 1 else 'formula'}
    if ns > 1 and form == 'isq':
        c['hints']['form'] = 'cplx0'
    c['typed'] = form in ('cplx0', 'isq')
    return c


def unimodular(rng, n, cplx):
    """random unimodular Gaussian-integer matrix and its inverse (products of elementary row additions)"""
    ident = [[(1, 0) if i == j else (0, 0) for j in range(n)] for i in range(n)]
    p = [row[:] for row in ident]
    q = [row[:] for row in ident]
    for _ in range(rng.randint(1, n + 1)):
        i, j = rng.sample(range(n), 2)
        k = rng.choice([(1, 0), (-1, 0), (0, 1), (0, -1)] if cplx else [(1, 0), (-1, 0)])
        # p := p * E(i,j,k)   (column j += k * column i);   q := E(i,j,-k) * q   (row i -= k * row j)
        for r in range(n):
            p[r][j] = gadd(p[r][j], gmul(k, p[r][i]))
        for col in range(n):
            q[i][col] = gadd(q[i][col], gmul((-k[0], -k[1]), q[j][col]))
    return p, q


def matmul(a, b):
    n, m, r = len(a), len(b), len(b[0])
    out = [[(0, 0)] * r for _ in range(n)]
    for i in range(n):
        for j in range(r):
            s = (0, 0)
            for k in range(m):
                s = gadd(s, gmul(a[i][k], b[k][j]))
            out[i][j] = s
    return out


def gen_eigen(rng):
    c = base_case('eigen', rng, ('abs', 'pct', 'zero'))
    n = rng.choice([2, 2, 3, 3, 4])
    cplx = rng.random() < 0.3
    p, q = unimodular(rng, n, cplx)
    pool = [rng.randint(-2, 3) for _ in range(2)] + ([(0, 1)] if cplx else [])
    diag = [rng.choice(pool) for _ in range(n)]
    diag = [(d, 0) if isinstance(d, int) else d for d in diag]
    dm = [[diag[i] if i == j else (0, 0) for j in range(n)] for i in range(n)]
    m = matmul(matmul(p, dm), q)                  # M = P D P^-1, eigenvectors = columns of P
    lam = rng.choice(diag) if rng.random() < 0.9 else (rng.randint(-3, 4), 0)
    cols = [[p[r][j] for r in range(n)] for j in range(n)]
    own = [cols[j] for j in range(n) if diag[j] == lam]
    other = [cols[j] for j in range(n) if diag[j] != lam]
    v = [(0, 0)] * n
    kind = rng.choice(['member', 'member', 'step', 'other', 'mix', 'zero'])
    for u in own:
        co = rand_g(rng, -2, 2, 0.3 if cplx else 0.0)
        v = [gadd(v[i], gmul(co, u[i])) for i in range(n)]
    if kind == 'step':
        j = rng.randrange(n)
        v[j] = gadd(v[j], rng.choice([(1, 0), (-1, 0), (0, 1)]))
    elif kind in ('other', 'mix') and other:
        u = rng.choice(other)
        if kind == 'other':
            v = [(0, 0)] * n
        v = [gadd(v[i], u[i]) for i in range(n)]
    elif kind == 'zero':
        v = [(0, 0)] * n
    z, d = rng.choice([((1, 0), 1), ((-1, 0), 1), ((0, 1), 1), ((2, 0), 1), ((1, 1), 1), ((1, 0), 2), ((3, 4), 5),
                       ((-1, 2), 1), ((1, 0), 4)])
    v = [gmul(z, x) for x in v]
    if c['tol'] == 'zero' and d not in (1, 2, 4):
        d = 1
    ns = 1
    c.update(P=[[val([n, n], [m[i][j] for i in range(n) for j in range(n)]), sc(lam[0], lam[1])]] * ns,
             S=[val([n], v, d)] * ns)
    if kind == 'member' and c['tol'] in ('abs', 'pct') and rng.random() < 0.3 and d in (1, 2, 4):
        c['jit'] = 1
    return c


def gen_span(rng):
    c = base_case('span', rng)
    n = rng.choice([2, 3, 3, 4])
    k = rng.randint(1, 3)
    cplx = rng.random() < 0.4
    ns = rng.choice([1, 1, 1, 2])
    P, S = [], []
    wrong_at = rng.randrange(ns) if rng.random() < 0.45 else None
    den = rng.choice([1, 1, 2])
    for s in range(ns):
        vs = []
        for i in range(k):
            if vs and rng.random() < 0.35:            # inject a dependency
                co = [rand_g(rng, -1, 2, 0.3 if cplx else 0.0) for _ in vs]
                w = [(0, 0)] * n
                for cc, u in zip(co, vs):
                    w = [gadd(w[j], gmul(cc, u[j])) for j in range(n)]
                if all(x == (0, 0) for x in w):
                    w = list(vs[0])
            else:
                w = [rand_g(rng, -2, 2, 0.4 if cplx else 0.0) for _ in range(n)]
                if all(x == (0, 0) for x in w):
                    w[0] = (1, 0)
            vs.append(w)
        v = [(0, 0)] * n
        for u in vs:
            co = rand_g(rng, -2, 2, 0.4 if cplx else 0.0)
            v = [gadd(v[j], gmul(co, u[j])) for j in range(n)]
        if s == wrong_at:
            j = rng.randrange(n)
            v[j] = gadd(v[j], rng.choice([(1, 0), (-1, 0), (0, 1), (2, 0)]))
        P.append([val([n], u) for u in vs])
        S.append(val([n], v, den))
    c.update(P=P, S=S)
    if wrong_at is None and rng.random() < 0.3 and any(x != [0, 0] for x in S[0]['ent']):
        c['jit'] = 1
    return c


PHASES = [((1, 0), 1), ((-1, 0), 1), ((0, 1), 1), ((0, -1), 1), ((3, 4), 5), ((4, -3), 5), ((-3, 4), 5), ((5, 12), 13),
          ((-12, 5), 13), ((8, 15), 17), ((7, 24), 25), ((-24, 7), 25), ((15, -8), 17)]


def gen_phase(rng):
    c = base_case('phase', rng)
    n = rng.choice([2, 2, 3, 4])
    t = [rand_g(rng, -3, 3, 0.5) for _ in range(n)]
    if all(x == (0, 0) for x in t):
        t[rng.randrange(n)] = (1, 1)
    z, d = rng.choice(PHASES)
    v = [gmul(z, x) for x in t]
    var = rng.choice(['none', 'none', 'none', 'step', 'scale', 'conj', 'zero', 'neg', 'perm', 'half'])
    if var == 'step':
        j = rng.randrange(n)
        v[j] = gadd(v[j], rng.choice([(d, 0), (0, d), (-d, 0)]))
    elif var == 'scale':
        k = rng.choice([2, 3, -2])
        v = [gmul((k, 0), x) for x in v]
    elif var == 'conj':
        v = [(x[0], -x[1]) for x in v]
    elif var == 'zero':
        v = [(0, 0)] * n
    elif var == 'neg':
        j = rng.randrange(n)
        v[j] = (-v[j][0], -v[j][1])
    elif var == 'perm':
        v = v[1:] + v[:1]
    elif var == 'half':
        d = 2 * d
    c.update(P=[[val([n], t)]], S=[val([n], v, d)])
    if var == 'none' and rng.random() < 0.3:
        c['jit'] = 1
    return c


def gen_entry(rng):
    c = base_case('entry', rng, ('abs', 'pct', 'zero'))
    shape = rng.choice([[2], [3], [4], [5], [2, 2], [2, 3], [3, 2], [3, 3], [4, 4], [1, 3]])
    size = shape[0] if len(shape) == 1 else shape[0] * shape[1]
    den = rng.choice([1, 1, 2])
    ns = rng.choice([1, 1, 3, 4])
    cplx = rng.random() < 0.2
    wrong = [j for j in range(size) if rng.random() < rng.choice([0.0, 0.2, 0.5, 0.9, 1.0])]
    style = {j: rng.choice(['all', 'some']) for j in wrong}
    P, S = [], []
    for s in range(ns):
        t = [rand_g(rng, -5, 5, 0.5 if cplx else 0.0) for _ in range(size)]
        x = list(t)
        for j in wrong:
            if style[j] == 'all' or s > 0 or ns == 1:
                x[j] = gadd(x[j], rng.choice([(den, 0), (-den, 0), (2 * den, 0), (0, den)] if cplx else
                                             [(den, 0), (-den, 0), (2 * den, 0)]))
        P.append([val(shape, t, den)])
        S.append(val(shape, x, den))
    right = [j for j in range(size) if j not in wrong]
    if right and wrong and rng.random() < 0.4:
        # entries of very different magnitude: a huge entry that is right, next to small or zero entries that are wrong
        j = rng.choice(right)
        big = (rng.choice([100000, 250000, -400000]) * den, 0)
        for s_ in range(ns):
            P[s_][0]['ent'][j] = list(big)
            S[s_]['ent'][j] = list(big)
        for k in wrong:
            if rng.random() < 0.5:                 # an exact zero that is answered with a lattice step
                for s_ in range(ns):
                    d = [S[s_]['ent'][k][0] - P[s_][0]['ent'][k][0], S[s_]['ent'][k][1] - P[s_][0]['ent'][k][1]]
                    P[s_][0]['ent'][k] = [0, 0]
                    S[s_]['ent'][k] = d
    m = rng.choice(['prop', 'prop', 'flat'])
    c['mode'] = {'k': 'prop', 'v': [0, 1]} if m == 'prop' else \
        {'k': 'flat', 'v': list(Fraction(rng.choice([0, 0, 1, 2, 3, 5, 7, 10]), 10).as_integer_ratio())}
    c.update(P=P, S=S)
    c['hints'] = {'via': rng.choice(['option', 'explicit'])}
    if not wrong and c['tol'] == 'abs' and rng.random() < 0.5:
        c['jit'] = 1
    return c


def rand_credit(rng, p_none=0.4):
    if rng.random() < p_none:
        return [-1, 1]
    return list(Fraction(rng.choice([0, 1, 2, 3, 5, 7, 8, 10]), 10).as_integer_ratio())


def coef_text(z, d):
    return entry_text(z, d)


def gen_linear(rng, cfg=None, force=None):
    """cfg: credits shared by a group;  force: 'zero_student' | 'zero_expected' | 'prop' | 'lin' | 'off' | None"""
    c = base_case('linear', rng)
    ns = rng.randint(3, 6)
    cplx = rng.random() < 0.25
    kindx = rng.choice(['distinct', 'distinct', 'distinct', 'const', 'zero', 'free'])
    if force:
        kindx = 'zero' if force == 'zero_expected' else 'distinct'
    if kindx == 'distinct':
        xs = rng.sample(range(-5, 6), ns)
        xs = [(x, rng.randint(-1, 1) if cplx else 0) for x in xs]
    elif kindx == 'const':
        xs = [rand_g(rng, 1, 4, 0.5 if cplx else 0.0)] * ns
    elif kindx == 'zero':
        xs = [(0, 0)] * ns
    else:
        xs = [rand_g(rng, -4, 4, 0.5 if cplx else 0.0) for _ in range(ns)]
    a = (rng.choice([(1, 0), (1, 0), (2, 0), (-1, 0), (3, 0), (-2, 0), (0, 0), (1, 0)]), rng.choice([1, 1, 2, 3]))
    if cplx and rng.random() < 0.3:
        a = (rng.choice([(0, 1), (1, 1), (2, -1)]), 1)
    b = (rng.choice([(0, 0), (0, 0), (1, 0), (-2, 0), (3, 0)]), rng.choice([1, 1, 2]))
    if cplx and rng.random() < 0.2:
        b = ((0, 1), 1)
    nl = rng.random() < 0.2
    if force:
        nl = False
        a = {'zero_student': ((0, 0), 1), 'prop': (rng.choice([(2, 0), (-1, 0), (3, 0)]), rng.choice([1, 2])),
             'lin': (rng.choice([(2, 0), (-1, 0), (3, 0)]), 1), 'off': ((1, 0), 1), 'eqshift': ((1, 0), 1)}.get(force, a)
        b = {'zero_student': ((0, 0), 1), 'prop': ((0, 0), 1), 'lin': (rng.choice([(1, 0), (-2, 0)]), 1),
             'off': (rng.choice([(1, 0), (3, 0)]), 1), 'eqshift': ((0, 0), 1)}.get(force, b)
    equals = [1, 1] if rng.random() < 0.85 else rand_credit(rng, 0.6)
    c['cfg'] = cfg or {'equals': equals, 'proportional': rand_credit(rng), 'offset': rand_credit(rng), 'linear': rand_credit(rng)}
    if nl:
        ss = [gmul(x, x) for x in xs]
        den = 1
        student = 'x^2'
    else:
        den = a[1] * b[1]
        ss = [gadd(gmul((a[0][0] * b[1], a[0][1] * b[1]), x), (b[0][0] * a[1], b[0][1] * a[1])) for x in xs]
        student = '%s*x+%s' % (coef_text(a[0], a[1]), coef_text(b[0], b[1]))
    c.update(P=[[sc(x[0], x[1])] for x in xs], S=[sc(s[0], s[1], den) for s in ss])
    c['hints'] = {'style': rng.choice(['expr', 'expr', 'script']), 'student': student,
                  'grader': rng.choice(['formula', 'matrix'])}
    if c['tol'] == 'abs' and not nl and c['hints']['style'] == 'script' and rng.random() < 0.3 and not force:
        c['jit'] = 1
    return c


def gen_linear_group(rng):
    """several LinearComparer cases graded with one shared comparer object, zero cases mixed with proportional /
    linear / offset ones in random order"""
    cfg = {'equals': [1, 1], 'proportional': rand_credit(rng, 0.15), 'offset': rand_credit(rng, 0.5),
           'linear': rand_credit(rng, 0.3)}
    kinds = [rng.choice(['zero_student', 'zero_expected']), rng.choice(['prop', 'lin']), rng.choice(['prop', 'lin', 'off']),
             rng.choice(['zero_student', 'prop', 'lin', None])]
    rng.shuffle(kinds)
    kinds.insert(rng.randrange(len(kinds) + 1), 'eqshift')
    group = []
    for k in kinds:
        c = gen_linear(rng, cfg=dict(cfg), force=k)
        c['tol'] = rng.choice(['abs', 'pct', 'tiny'])                     # graders sharing the comparer differ in tolerance
        if k == 'eqshift':                         # student = expected with the first sample shifted by 1e-7
            c['tol'] = rng.choice(['abs', 'tiny'])
            c['jit'] = 1
            c['hints']['style'] = 'script'
        group.append(c)
    return group


def gen_entry_group(rng):
    """several MatrixEntryComparer cases (different targets and shapes) graded with one shared comparer object"""
    first = gen_entry(rng)
    group = [first]
    for _ in range(rng.randint(1, 3)):
        c = gen_entry(rng)
        c['mode'] = dict(first['mode'])
        group.append(c)
    for c in group:                                # the graders sharing the comparer differ in tolerance kind and size
        c['hints'] = {'via': 'explicit'}
        c['tol'] = rng.choice(['abs', 'abs', 'zero', 'tiny', 'pct'])
        c['jit'] = 1 if (c['tol'] != 'pct' and rng.random() < 0.6) else 0
        c['policy'] = rng.choice([dict(DEFAULT_POLICY), dict(DEFAULT_POLICY, raised=False, detail='shape')])
    return group


def rand_value(rng, shape, p_zero=0.0):
    size = 1 if not shape else (shape[0] if len(shape) == 1 else shape[0] * shape[1])
    if rng.random() < p_zero:
        return val(shape, [(0, 0)] * size)
    return val(shape, [(rng.randint(-3, 3), 0) for _ in range(size)])


def gen_shape(rng):
    kind = rng.choice(['equal', 'equal', 'entry', 'eigen', 'span', 'phase', 'linear'])
    c = base_case(kind, rng, ('abs',))
    c['policy'] = {'raised': rng.random() < 0.5, 'detail': rng.choice(['none', 'type', 'shape']),
                   'suppress': rng.random() < 0.3, 'shapeErrors': rng.random() < 0.5}
    shapes = [[], [2], [3], [4], [5], [2, 2], [2, 3], [3, 2], [3, 3], [1, 2], [4, 1]]
    ns = 3 if kind == 'linear' else 1
    if kind == 'eigen':
        n = rng.choice([2, 3])
        P = [[rand_value(rng, [n, n]), sc(rng.randint(-2, 2))]]
        exp = [n]
    elif kind in ('span', 'phase'):
        n = rng.choice([2, 3, 4])
        P = [[val([n], [(1, 0)] + [(rng.randint(-2, 2), 0) for _ in range(n - 1)])
              for _ in range(1 if kind == 'phase' else rng.randint(1, 2))]]
        exp = [n]
    else:
        exp = rng.choice(shapes if kind == 'equal' else shapes[1:])
        P = [[rand_value(rng, exp)] for _ in range(ns)]
    got = rng.choice([s for s in shapes if s != exp])
    c['evalerr'] = rng.random() < 0.15
    x = rand_value(rng, got, 0.35)                 # also wrongly shaped zeros
    c.update(P=P * (ns if len(P) == 1 else 1), S=[x] * ns)
    c['mode'] = {'k': 'flat', 'v': [1, 2]}
    return c


GENERATORS = [gen_cong, gen_between, gen_eigen, gen_eigen, gen_span, gen_span, gen_phase, gen_entry, gen_entry,
              gen_linear, gen_linear, gen_shape]


def random_cases(rng, n):
    """-> list of groups (lists of cases); most groups are single cases"""
    out = []
    i = 0
    k = 0
    while i < n:
        k += 1
        if k % 15 == 0:
            group = gen_linear_group(rng)
        elif k % 15 == 7:
            group = gen_entry_group(rng)
        else:
            group = [GENERATORS[k % len(GENERATORS)](rng)]
        for c in group:
            c['id'] = i
            i += 1
        out.append(group)
    return out


# ------------------------------------------------------------------------------------------------ --replay
def replay(ctx, rec):
    from engine import repo
    repo.activate()
    d = rec.get('detail') or {}
    sig = rec['signature']
    print('signature:', {k: sig[k] for k in ('comparer', 'params', 'student_input', 'allowed', 'class')})
    if 'case' not in d:
        return False
    if d.get('history'):
        print('history on one comparer object:', sig.get('history_on_same_comparer_object'))
        print('(re-run with the check itself: the history is part of the TLC-enumerated space, part "history")')
        return False
    hints = d.get('hints', {})
    if d.get('before') and cache_key(d['case'], hints) is not None:
        grader, student = build(d['case'], hints)
        for inp in d['before']:                    # what the same grader object had graded before
            call_grader(grader, inp)
        obs = call_grader(grader, student)
        print('after %r on the same grader object:' % (d['before'],))
    else:
        obs = observe(d['case'], hints)
    print('observed now:', obs_text(obs), repr(obs.get('msg')))
    return any(matches(obs, a) for a in sig['allowed'])
