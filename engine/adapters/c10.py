"""C10 -- reported name usage is exact and parsing is independent of parse history.

spec level : ParserCache.tla (cache, scratch sets, finally-reset as actions) checked by TLC for every call history of
             length <= 3 (quick) / <= 4 (thorough) over 14 strings x {parse, eval}: HistoryIndependent, ScratchEmpty,
             CacheSound, every call ends (liveness); a model mutant without the reset must violate HistoryIndependent.
spec->code : every TLC history is replayed on the module-level PARSER and on a MathParser created for the history;
             each call is compared with the model (= what a fresh parser answers) and with a really fresh parser;
             usage exactness: every token / character string of the C03 models (usage sets of accepted strings).
code->spec : long random interleavings on the shared parser (parse, evaluate, grader calls, sampler construction in
             between), each parse/evaluate observation validated by ExprTrace (clauses class, value, usage).
"""
import itertools
import os
import random

from engine import dump, traces
from engine.adapters import exprlib as X
from engine.adapters import c03

TEXT = {'s01': 'x+2', 's02': ' x  + 2 ', 's03': 'f(x)', 's04': 'x(2)', 's05': 'f', 's06': '2k', 's07': '2u',
        's08': 'u*x', 's09': '(x', 's10': 'x+', 's11': 'f(u,)', 's12': 'g(x,x_1)', 's13': '2^-3', 's14': 'k(2%)/u',
        's15': '23', 's16': '2\t3', 's17': 'xx_1', 's18': 'x\nx_1', 's19': ' x  +'}


def observe_call(parser, text, op, sc, shared):
    """one call on a given parser object -> comparable outcome dict"""
    from mitxgraders.helpers.calc import expressions as E
    v, f, s = sc
    try:
        if op == 'parse':
            m = parser.parse(text)
            return {'c': 'parsed', 'vars': sorted(m.variables_used), 'funcs': sorted(m.functions_used),
                    'sufs': sorted(m.suffixes_used)}, m
        if shared:
            val, usage = E.evaluator(text, v, f, s)
        else:
            val, usage = parser.parse(text.strip()).eval(v, f, s)
        return {'c': 'value', 'value': val, 'vars': sorted(usage.variables_used),
                'funcs': sorted(usage.functions_used), 'sufs': sorted(usage.suffixes_used)}, usage
    except Exception as e:  # noqa
        return {'c': X.classify_exception(e), 'msg': str(e)}, None


def matches_model(model, obs):
    mc = model['c']
    if mc == 'parsed':
        return obs['c'] == 'parsed' and all(sorted(model[k]) == obs[k] for k in ('vars', 'funcs', 'sufs'))
    if mc in ('unbalanced', 'parse'):
        return X.coarse(obs['c']) == 'rejected'
    if mc in ('undefvar', 'undeffunc', 'undefsuf'):
        return X.coarse(obs['c']) == 'undefined'
    if mc == 'value':
        return obs['c'] == 'value' and X.num_eq(obs['value'], model['q'][0], model['q'][1]) and \
            all(sorted(model[k]) == obs[k] for k in ('vars', 'funcs', 'sufs'))
    if mc == 'nopred':
        return X.coarse(obs['c']) not in ('rejected', 'undefined')
    return X.coarse(obs['c']) == 'evalerror'


def same_obs(a, b):
    if a['c'] != b['c']:
        return False
    if a['c'] in ('parsed', 'value'):
        if any(a[k] != b[k] for k in ('vars', 'funcs', 'sufs')):
            return False
    if a['c'] == 'value':
        return X.same_observation(a, b)
    if a.get('msg') != b.get('msg'):
        return False                     # the error raised (class AND text) is part of the outcome
    return True


_FRESH = {}


def replay_history(hist, pure, E, sc):
    """hist: list of (sid, op).  -> list of problems (aspect, text)"""
    probs = []
    own = E.MathParser()
    held = []
    expected_keys = set()
    for step, (sid, op) in enumerate(hist):
        text = TEXT[sid]
        model = pure[(sid, op)]
        o_shared, _ = observe_call(E.PARSER, text, op, sc, True)
        o_own, ret = observe_call(own, text, op, sc, False)
        if (sid, op) not in _FRESH:          # a fresh parser has no history: once per worker process is enough
            _FRESH[(sid, op)] = observe_call(E.MathParser(), text, op, sc, False)[0]
        o_fresh = _FRESH[(sid, op)]
        for label, o in (('shared parser', o_shared), ('parser reused within the history', o_own)):
            if not matches_model(model, o):
                probs.append(('model', 'history %s step %d (%s %r) on %s: model %s, code %s' % (
                    hist, step, op, text, label, model['c'], {k: v for k, v in o.items() if k != 'value'})))
            if not same_obs(o, o_fresh):
                probs.append(('fresh', 'history %s step %d (%s %r) on %s: %s but a fresh parser gives %s' % (
                    hist, step, op, text, label, {k: v for k, v in o.items() if k != 'value'},
                    {k: v for k, v in o_fresh.items() if k != 'value'})))
        if ret is not None:
            held.append((ret, (set(ret.variables_used), set(ret.functions_used), set(ret.suffixes_used)), step))
        # abstract state of the implementation-shaped model (drift only)
        if pure[(sid, 'parse')]['c'] == 'parsed':
            expected_keys.add(text.replace(' ', ''))
        try:
            if set(own.cache.keys()) != expected_keys:
                probs.append(('state', 'cache keys %s, model %s' % (sorted(own.cache.keys()), sorted(expected_keys))))
            if own.variables_used or own.functions_used or own.suffixes_used:
                probs.append(('state', 'scratch sets not empty between calls'))
        except AttributeError:
            probs.append(('state', 'parser internals not observable'))
    for ret, snap, step in held:
        if (set(ret.variables_used), set(ret.functions_used), set(ret.suffixes_used)) != snap:
            probs.append(('fresh', 'history %s: usage sets returned at step %d were changed by a later call' % (hist, step)))
    return probs


def replay_hists(items, extra):
    from engine import repo
    repo.activate()
    from mitxgraders.helpers.calc import expressions as E
    pure = {tuple(k.split('|')): v for k, v in extra['pure'].items()}
    sc = X.scope()
    bad, drift, n = [], 0, 0
    for hist in items:
        n += 1
        for aspect, what in replay_history([tuple(h) for h in hist], pure, E, sc):
            if aspect == 'state':
                drift += 1
            elif len(bad) < 50:
                bad.append({'hist': hist, 'aspect': aspect, 'what': what})
    return {'n': n, 'bad': bad, 'drift': drift}


def collect_states(states, extra):
    """from the ParserCache dump: the Pure table (histories of length 1) and all complete histories"""
    pure, hists = {}, set()
    for st in states:
        if st['phase'] != 'idle' or not st['hist']:
            continue
        h = tuple((c['s'], c['op']) for c in st['hist'])
        if len(h) == 1:
            pure['%s|%s' % h[0]] = st['last']
        if len(h) == extra['maxlen']:
            hists.add(h)
    return {'pure': pure, 'hists': sorted(hists)}


def usage_tokens(states, extra):
    """usage exactness over the C03 token / character models"""
    from engine import repo
    repo.activate()
    from mitxgraders.helpers.calc import expressions as E
    sc = X.scope() if extra['kind'] == 'tokens' else (dict(c03.CHAR_VARS), X.scope()[1], dict(X.SUFFIXES))
    n, bad, acc = 0, [], 0
    for st in states:
        c = st['c']
        if c['kind'] != 'case':
            continue
        out = st['out']
        if 'vars' not in out:
            continue                      # rejected by the grammar: no usage to report
        n += 1
        text = X.render_tab(c['ids']) if extra['kind'] == 'tokens' else c03.char_text(c['chars'])
        want = {k: sorted(out[k]) for k in ('vars', 'funcs', 'sufs')}
        try:
            m = E.parse(text)
            got = {'vars': sorted(m.variables_used), 'funcs': sorted(m.functions_used), 'sufs': sorted(m.suffixes_used)}
        except Exception as e:  # noqa
            got = {'error': X.classify_exception(e)}
        if got != want and len(bad) < 50:
            bad.append({'text': text, 'want': want, 'got': got, 'via': 'parse'})
        if out['c'] in ('value', 'nopred'):
            o = X.observe(text, E.evaluator, sc)
            if o['c'] == 'value':
                acc += 1
                got2 = {k: o[k] for k in ('vars', 'funcs', 'sufs')}
                if got2 != want and len(bad) < 50:
                    bad.append({'text': text, 'want': want, 'got': got2, 'via': 'evaluator'})
    return {'n': n, 'bad': bad, 'evaluated': acc}


def interleave_chunk(items, extra):
    """long random histories on the shared parser with real consumers in between; every parse/eval observation
    becomes a trace record"""
    from engine import repo
    repo.activate()
    from mitxgraders.helpers.calc import expressions as E
    from mitxgraders import FormulaGrader, DependentSampler, SumGrader
    from mitxgraders.helpers.calc.math_array import MathArray
    sc = X.t_scope()
    vec_vars = {k: MathArray([1.0, float(i + 2)]) for i, k in enumerate(sorted(sc[0]))}
    alt_vars = {k: 3 * v + 1 for k, v in sc[0].items()}
    alt_funcs = {k: (lambda g: (lambda *a: g(*a) + 1))(f) for k, f in sc[1].items()}
    alt_sufs = {k: v * 1.024 for k, v in sc[2].items()}

    def fresh_observe(text, scope=None):
        """the same evaluator() call with a brand-new parser swapped in for the shared one"""
        shared = E.PARSER
        E.PARSER = E.MathParser()
        try:
            return X.observe(text, lambda *a: E.evaluator(*a, max_array_dim=1), scope or sc)
        finally:
            E.PARSER = shared
    out = []
    for seed, count, start in items:
        rng = random.Random(seed)
        fg = FormulaGrader(answers='x^2+sin(y)', variables=['x', 'y'])
        sg = SumGrader(answers={'lower': '1', 'upper': '3', 'summand': 'x^n', 'summation_variable': 'n'}, variables=['x'],
                       input_positions={'lower': 1, 'upper': 2, 'summand': 3}, metric_suffixes=True)
        rid = start
        pool = []
        # a few array literals built from names: their value and dimension depend on the scope of each evaluation
        for names in (['x', 'x_1'], ['x', "y'", 'sin'], ['x_1', 'x']):
            toks = [X.tk_op('[')]
            for j, nm in enumerate(names):
                toks += ([X.tk_op(',')] if j else []) + [X.tk_name(nm)]
            toks.append(X.tk_op(']'))
            pool.append({'id': -1, 'kind': 'array', 'toks': [{k: t[k] for k in ('k', 's', 'q', 'a')} for t in toks],
                         'text': X.render_records(toks)})
        # a few constant expressions (no variable, no function): their value still depends on the suffix table of each evaluation
        for spec in ([0, 'k'], [1, '%'], [0, 'k', '+', 1, '%'], [2, 'm', '*', 0, 'k'], [4, '^', 0], [3, 'k', '/', 5, 'm']):
            toks = [X.tk_num(t) if isinstance(t, int) else (X.TK_PCT if t == '%' else X.tk_name(t) if t.isalpha() else X.tk_op(t))
                    for t in spec]
            pool.append({'id': -1, 'kind': 'constant', 'toks': [{k: t[k] for k in ('k', 's', 'q', 'a')} for t in toks],
                         'text': X.render_records(toks)})
        for k in range(count):
            r = rng.random()
            if r < 0.08:
                sub = rng.choice(['x*x+sin(y)', 'x^2+', 'z+1', '(x', 'x^2+sin(y)+0*cos(x)', 'sin(y)+x^2'])
                try:
                    fg(None, sub)
                except Exception:  # noqa
                    pass
                # what the grader did with the parsed expression must not show in a later parse of the same text
                gsc = ({'x': 1.5, 'y': 0.5}, dict(E.DEFAULT_FUNCTIONS), dict(E.DEFAULT_SUFFIXES))
                o = X.observe(sub, lambda *a: E.evaluator(*a, max_array_dim=1), gsc)
                of = fresh_observe(sub, gsc)
                out.append({'id': rid, 'toks': None, 'text': sub, 'obs': X.obs_record(o), 'fresh_class': of['c'],
                            'same_as_fresh': X.same_observation(o, of) and all(o.get(kk) == of.get(kk) for kk in ('vars', 'funcs', 'sufs'))})
                rid += 1
                continue
            if r < 0.10:
                # a summation grader evaluates limits and summand as separate strings and merges what they use:
                # nothing of the limits may stick to the summand's (cached) parse
                summand = rng.choice(['x^n', 'n*x', 'x^n/2', 'n+x*0', '(x)^(n)'])
                limits = rng.choice([('1', 'max(2,3)'), ('abs(-1)', '3'), ('1', 'floor(3.5)'), ('1', '3'), ('min(1,2)', 'abs(-3)+0k')])
                try:
                    sg(None, [limits[0], limits[1], summand])
                except Exception:  # noqa
                    pass
                gsc = ({'x': 1.5, 'n': 2.0}, dict(E.DEFAULT_FUNCTIONS), dict(E.DEFAULT_SUFFIXES, k=1000))
                o = X.observe(summand, lambda *a: E.evaluator(*a, max_array_dim=1), gsc)
                of = fresh_observe(summand, gsc)
                out.append({'id': rid, 'toks': None, 'text': summand, 'obs': X.obs_record(o), 'fresh_class': of['c'],
                            'same_as_fresh': X.same_observation(o, of) and all(o.get(kk) == of.get(kk) for kk in ('vars', 'funcs', 'sufs'))})
                rid += 1
                continue
            if r < 0.12:
                try:
                    DependentSampler(formula=rng.choice(['x+1', 'y*x', 'sqrt(x', 'a+b+']))
                except Exception:  # noqa
                    pass
                continue
            if r < 0.16:
                # a formula that names things and then nests brackets so deeply that the grammar gives up with a
                # non-parse exception; whatever it raises, nothing of it may reach later calls
                try:
                    E.parse('2k*x_1 + f(sin) + ' + '(' * rng.choice([30, 60, 120]) + 'x' + ')' * 120)
                except BaseException:  # noqa
                    pass
                continue
            if pool and r < 0.22:
                # evaluate an earlier string in a scope of a different shape (vector-valued variables)
                try:
                    E.evaluator(rng.choice(pool)['text'], vec_vars, sc[1], sc[2])
                except Exception:  # noqa
                    pass
                continue
            if pool and r < 0.28:
                # evaluate an earlier string in a scope with the SAME names bound to other values: other numbers for
                # the variables, other multipliers for the suffixes (k = 1024 ...), other functions of the same names
                try:
                    E.evaluator(rng.choice(pool)['text'], alt_vars, alt_funcs, alt_sufs)
                except Exception:  # noqa
                    pass
                continue
            if pool and r < 0.44:
                case = dict(rng.choice(pool))           # repeat an earlier string (cache hit), maybe re-spaced
                case['id'] = rid
                if rng.random() < 0.5:
                    case['text'] = case['text'].replace('+', ' + ').replace('*', ' *')
            else:
                case = X.rand_case(rng, rid, max_tokens=30)
                pool.append(case)
            rid += 1
            if not case['text'].strip():
                continue
            if rng.random() < 0.3:
                try:
                    E.parse(case['text'])
                except Exception:  # noqa
                    pass
            o = X.observe(case['text'], lambda *a: E.evaluator(*a, max_array_dim=1), sc)
            rec = {'id': case['id'], 'toks': case['toks'], 'text': case['text'], 'obs': X.obs_record(o)}
            of = fresh_observe(case['text'])
            rec['same_as_fresh'] = X.same_observation(o, of) and all(o.get(k) == of.get(k) for k in ('vars', 'funcs', 'sufs', 'msg'))
            rec['fresh_class'] = of['c']
            out.append(rec)
    return out


def run(ctx):
    from engine.main import Machinery
    # 1. the parser state machine
    d = os.path.join(ctx.scratch, 'pc')
    ctx.tlc('expr/MC_ParserCache.tla', 'expr/MC_ParserCache_quick.cfg', dump=d, timeout=6000)
    ctx.tlc('expr/MC_ParserCache.tla', 'expr/MC_ParserCache_live.cfg', deadlock=False, timeout=3000)
    mut = ctx.tlc('expr/MC_ParserCache.tla', 'expr/MC_ParserCache_mutant.cfg', must_hold=False)
    if 'HistoryIndependent' not in mut.violated and 'CacheSound' not in mut.violated:
        raise Machinery('vacuity guard: the model without reset_storage does not violate HistoryIndependent')
    if not ctx.quick:
        ctx.tlc('expr/MC_ParserCache.tla', 'expr/MC_ParserCache_thorough.cfg', timeout=20000, heap='24g')
    parts = dump.parallel(d + '.dump', 'engine.adapters.c10', 'collect_states', extra={'maxlen': 3})
    os.remove(d + '.dump')
    pure, hists = {}, set()
    for p in parts:
        pure.update(p['pure'])
        hists.update(tuple(tuple(c) for c in h) for h in p['hists'])
    if len(pure) != 2 * len(TEXT):
        raise Machinery('Pure table incomplete: %d entries' % len(pure))
    hists = sorted(hists)
    if not ctx.quick:
        calls = sorted(tuple(k.split('|')) for k in pure)
        hists = hists + [h for h in itertools.product(calls, repeat=4)]
    res = dump.pmap('engine.adapters.c10', 'replay_hists', [list(map(list, h)) for h in hists], extra={'pure': pure})
    drift = 0
    for r in res:
        ctx.count(r['n'])
        ctx.traces_validated += r['n']
        drift += r['drift']
        for b in r['bad']:
            ctx.violation({'history': b['hist'], 'aspect': b['aspect']}, b['what'])
    for h in hists[:: max(1, len(hists) // 3000)]:
        ctx.nontrivial.add(h)
    if drift:
        ctx.note_drift('%d steps: parser cache / scratch state differs from the ParserCache model' % drift)
    ctx.sample({'history': [list(c) for c in hists[len(hists) // 2]], 'texts': TEXT})
    # 2. usage exactness on the exhaustive string spaces of C03
    for kind, module, cfg in (('tokens', 'expr/MC_ExprTokens.tla', 'expr/MC_ExprTokens_%s.cfg' % ctx.tier),
                              ('chars', 'expr/MC_ExprChars.tla', 'expr/MC_ExprChars_name_%s.cfg' % ctx.tier),
                              ('chars', 'expr/MC_ExprChars.tla', 'expr/MC_ExprChars_num_%s.cfg' % ctx.tier)):
        dd = os.path.join(ctx.scratch, 'u')
        ctx.tlc(module, cfg, dump=dd, timeout=6000)
        res = dump.parallel(dd + '.dump', 'engine.adapters.c10', 'usage_tokens', extra={'kind': kind})
        os.remove(dd + '.dump')
        tot = 0
        for r in res:
            tot += r['n']
            ctx.count(r['n'])
            ctx.traces_validated += r['n']
            for b in r['bad']:
                ctx.violation({'text': b['text'], 'aspect': 'usage', 'via': b['via']},
                              '%s(%r) reports %s, exact usage is %s' % (b['via'], b['text'], b['got'], b['want']))
        ctx.nontrivial.add(('usage-space', cfg, tot))
        ctx.extra['accepted_strings_' + cfg.split('/')[-1]] = tot
    # 3. long random interleavings on the shared parser, validated by the trace spec
    nrec = 4000 if ctx.quick else 60000
    per = 250
    items = [(ctx.seed * 104729 + k, per, k * per) for k in range(nrec // per)]
    recs = [r for ch in dump.pmap('engine.adapters.c10', 'interleave_chunk', items) for r in ch]
    rej = traces.validate(ctx, 'expr/ExprTrace.tla', 'expr/ExprTrace.cfg',
                          [{k: r[k] for k in ('id', 'toks', 'obs')} for r in recs if r['toks'] is not None], timeout=6000)
    ctx.count(len(recs))
    byid = {r['id']: r for r in recs}
    ctx.sample({'interleaved_record': {k: recs[0][k] for k in ('text', 'obs')}})
    for r in recs:
        if not r['same_as_fresh']:
            ctx.violation({'text': r['text'], 'aspect': 'interleaving-fresh'},
                          'after a long history evaluator(%r) gives %s, with a freshly constructed parser %s' % (
                              r['text'], r['obs']['c'], r['fresh_class']))
    for rid, clause in rej.items():
        r = byid[rid]
        ctx.violation({'text': r['text'], 'aspect': 'interleaving-' + clause},
                      'after a long history evaluator(%r) gives %s %s: rejected by the trace spec (clause %s)' % (
                          r['text'], r['obs']['c'], [r['obs'][k] for k in ('vars', 'funcs', 'sufs')], clause))
    ctx.extra['bounds'] = {'history_length': 3 if ctx.quick else 4, 'strings': len(TEXT), 'histories_replayed': len(hists),
                           'interleaving_records': len(recs)}
    ctx.assumptions.append('the module-level PARSER is deliberately NOT reset between histories: independence of history is the property')


def replay(ctx, rec):
    print(rec['signature'])
    return False
