"""C09 -- restrictions on student formulas cannot be bypassed to obtain credit.

spec level : spec/expr/Restrictions.tla on top of ExprGrammar / ExprEval: Permitted, forbidden strings (substring of the
             space-stripped text), required functions, Scope (variables + unshadowed constants + numbered instances
             - instructor variables - siblings), suffix table, exact Worth of a submission, MustReject, Outcome (the
             allowed outcome classes) and laws about them.
spec->code : MC_Restrictions enumerates (configuration, cheating formula) for five grader kinds; every dumped state
             carries the submission as token ids, the author's answers and the allowed outcome classes; the real
             FormulaGrader / NumericalGrader / MatrixGrader / SumGrader / ordered ListGrader is built from the
             configuration, run, and its outcome class must be in the allowed set.
code->spec : a seeded random driver builds larger cases (random option combinations, random answer expressions,
             several neutral terms nested at random depths, random blanks), runs the real graders and records one
             ndjson line per call; RestrictionsTrace.tla recomputes Restrictions!Outcome for each line.

The adapter never decides a verdict itself: it renders spec records to text / grader configurations and classifies
what the code did.
"""
import os
import random

from engine import dump, traces

KINDS = ['formula', 'numerical', 'matrix', 'sum', 'list']
SPEC_DEFAULT_FUNCS = ['sin', 'cos', 'sinh', 'abs', 'tan', 'exp', 'sqrt', 'cosh', 'arctan', 'arcsin', 'tanh']
NOT_DEFAULT = ['f', 'g', 'h', 'Sin', 'COS', 'si', 'sinhh', 'foo', 'F', 'x', 'y', 'z', 'k', 'w', 'pi', 'c']
METRIC = ['k', 'M', 'G', 'T', 'm', 'u', 'n', 'p']
ERR_FAMILY = ['invalid', 'undefvar', 'undeffunc', 'student']


# ------------------------------------------------------------------ lexemes
def _alpha(s):
    return s.isalpha()


def lx_num(text, n, d=1):
    return {'tok': {'k': 'num', 's': '#', 'q': [n, d], 'a': False}, 'ch': list(text)}


def lx_name(s):
    return {'tok': {'k': 'name', 's': s, 'q': [0, 1], 'a': _alpha(s)}, 'ch': list(s)}


def lx_op(s):
    return {'tok': {'k': 'op', 's': s, 'q': [0, 1], 'a': False}, 'ch': [s]}


LX_PCT = {'tok': {'k': 'pct', 's': '%', 'q': [0, 1], 'a': True}, 'ch': ['%']}
LX_BLANK = {'tok': {'k': 'ws', 's': ' ', 'q': [0, 1], 'a': False}, 'ch': ['SP']}

# mirror of MC_Restrictions!LxTab (token id -> lexeme)
_NAMES = {'x': 'x', 'y': 'y', 'z': 'z', 'n': 'n', 'w': 'w', 'X': 'X', 'xp': "x'", 'a': 'a', 'a1': 'a_{1}',
          'a01': 'a_{01}', 'am2': 'a_{-2}', 'am0': 'a_{-0}', 'a0': 'a_{0}', 'A1': 'A_{1}', 'as1': 'a_1',
          'ab1': 'ab_{1}', 'sib1': 'sibling_1', 'sib2': 'sibling_2', 'pi': 'pi', 'c': 'c', 'sin': 'sin', 'cos': 'cos',
          'sinh': 'sinh', 'abs': 'abs', 'f': 'f', 'Sin': 'Sin', 'si': 'si', 'k': 'k', 'm': 'm', 'q': 'q', 'u': 'u', 'v': 'v',
          'I': 'I', 'vc': 'vc', 'infty': 'infty', 'a1p': "a_{1}'", 'a1pp': "a_{1}''", 'a1up': 'a_{1}^{2}', 'ap': "a'",
          'ax': 'a_{x}', 'xpp': "x''", 'fp': "f'"}
_OPS = {'lp': '(', 'rp': ')', 'lb': '[', 'rb': ']', 'cm': ',', 'pl': '+', 'mi': '-', 'ti': '*', 'dv': '/', 'pw': '^'}
LXTAB = {'n0': lx_num('0', 0), 'n1': lx_num('1', 1), 'n2': lx_num('2', 2), 'n3': lx_num('3', 3), 'pct': LX_PCT}
LXTAB.update({i: lx_name(s) for i, s in _NAMES.items()})
LXTAB.update({i: lx_op(s) for i, s in _OPS.items()})


def chars_text(chars):
    return ''.join(' ' if ch == 'SP' else ch for ch in chars)


def box_text(box):
    return ''.join(chars_text(lx['ch']) for lx in box)


def ids_box(ids_string, sp='tight'):
    lxs = [LXTAB[i] for i in ids_string.split()]
    if sp != 'spaced':
        return lxs
    out = []
    for j, lx in enumerate(lxs):
        if j:
            out.append(LX_BLANK)
        out.append(lx)
    return out


# ------------------------------------------------------------------ abstract configuration (spec record) from dims
def V(n, d=1):
    return {'k': 'v', 'q': [n, d]}


FIN = {'k': 'fin'}
NP = {'k': 'np'}
VALTAB = {'x': V(2), 'y': V(5), 'z': V(3), 'a': V(7), 'c': V(11), 'pi': FIN, 'e': FIN, 'i': NP, 'j': NP, 'infty': NP,
          'sibling_1': V(12), 'sibling_2': NP, 'I': NP, 'vc': NP}
FORB = {'none': [], 'times0': [['*', '0']], 'plus2': [['+', 'SP', '2']], 'sin': [['s', 'i', 'n']]}


def cfg_from_dims(kind, d, answers):
    """mirror of MC_Restrictions!CfgOf; answers: the 'ans' field of the dumped case (ids strings)"""
    has_vars = kind != 'numerical'
    consts = [c for c in ['pi', 'e', 'i', 'j'] if not (c == 'pi' and d['consts'] == 'delpi')]
    if d['consts'] == 'userc':
        consts.append('c')
    if kind == 'sum' or d['instr'] == 'infty':
        consts.append('infty')
    if kind == 'matrix':
        consts += ['I', 'vc']
    instr_name = {'a1': 'a_{1}'}.get(d['instr'], d['instr'])
    fm = d['fmode']
    route = d.get('route', 'direct')
    sampler = route in ('sampler', 'chain', 'msampler', 'mchain')
    chain = route in ('chain', 'mchain')
    hidden = (['u'] if sampler else []) + (['v'] if chain else [])
    if chain:
        deps = [{'s': 'v', 'box': ids_box('sib1 pl n1')}, {'s': 'u', 'box': ids_box('v mi n1')}]
    elif sampler:
        deps = [{'s': 'u', 'box': ids_box('sib1 ti n1')}]
    else:
        deps = []
    cfg = {
        'kind': kind,
        'vars': (['x', 'y', 'z'] if has_vars else []) + hidden,
        'consts': consts,
        'instr': ([] if d['instr'] == 'none' else [instr_name]) + hidden,
        'sibs': ['sibling_1', 'sibling_2'] if kind == 'list' else [],
        'deps': deps,
        'numbered': [{'s': 'a', 'ch': ['a']}] if d['numb'] else [],
        'defaultFuncs': list(SPEC_DEFAULT_FUNCS),
        'userFuncs': ['f'] if d['userf'] else [],
        'wmode': 'off' if fm in ('off', 'bsin', 'bsincos') else ('nofuncs' if fm == 'wnone' else 'list'),
        'white': {'wcos': ['cos'], 'wsinh': ['sinh']}.get(fm, []),
        'black': {'bsin': ['sin'], 'bsincos': ['sin', 'cos']}.get(fm, []),
        'required': [] if d['req'] == 'none' else [d['req']],
        'forbidden': FORB[d['forb']],
        'metric': d['metric'],
        'entryPartial': kind == 'matrix' and d['ans'] != 'plain',
        'dummy': 'n' if kind == 'sum' else '',
        'val': dict(VALTAB),
        'answers': [{'boxes': [ids_box(b) for b in a['boxes']], 'g': a['g']} for a in answers],
    }
    if kind == 'list':
        cfg['aux'] = {'box1': 'x*y+2', 'box1_answer': 'y*x+2', 'sub': 'matrix' if route.startswith('m') else 'formula'}
    if kind == 'matrix':
        cfg['aux'] = {'identity_dim': 2, 'arrays': {'vc': [1, 2]}}
    if kind in ('formula', 'numerical') and d['instr'] == 'infty':
        cfg['aux'] = {'allow_inf': True}
    return cfg


# ------------------------------------------------------------------ abstract configuration -> real grader
def _num(v):
    n, d = v['q']
    return n if d == 1 else n / d


def user_function(name):
    return {'f': lambda a: a + 1, 'g': lambda a, b: a - 2 * b, 'h': lambda a: a * a}[name]


def math_kwargs(cfg):
    """the restriction-related configuration shared by every math grader"""
    from mitxgraders.helpers.calc import DEFAULT_VARIABLES
    kw = {}
    val = cfg['val']
    from mitxgraders import DependentSampler
    variables = sorted(cfg['vars'])
    dep = {h['s']: box_text(h['box']) for h in cfg.get('deps', [])}
    sample_from = {v: (DependentSampler(formula=dep[v]) if v in dep else _num(val[v])) for v in variables}
    heads = sorted(h['s'] for h in cfg['numbered'])
    for h in heads:
        sample_from[h] = _num(val[h])
    if cfg['kind'] != 'numerical':
        kw['variables'] = variables
        kw['sample_from'] = sample_from
        if heads:
            kw['numbered_vars'] = heads
    uc = {}
    aux = cfg.get('aux', {})
    for nm in cfg['consts']:
        if nm in aux.get('arrays', {}):
            from mitxgraders import MathArray
            uc[nm] = MathArray(aux['arrays'][nm])            # a user constant that is an array
        elif nm == 'I' and aux.get('identity_dim'):
            kw['identity_dim'] = aux['identity_dim']         # MatrixGrader adds the constant I itself
        elif nm == 'infty':
            if aux.get('allow_inf'):
                kw['allow_inf'] = True                       # FormulaGrader adds infty itself; summations always have it
        elif nm not in DEFAULT_VARIABLES:
            uc[nm] = _num(val[nm])
    for nm in DEFAULT_VARIABLES:
        if nm not in cfg['consts']:
            uc[nm] = None
    if uc:
        kw['user_constants'] = uc
    if cfg['userFuncs']:
        kw['user_functions'] = {f: user_function(f) for f in cfg['userFuncs']}
    if cfg['wmode'] == 'off':
        if cfg['black']:
            kw['blacklist'] = sorted(cfg['black'])
    elif cfg['wmode'] == 'nofuncs':
        kw['whitelist'] = [None]
    else:
        assert cfg['white'], 'an empty whitelist means no whitelist'
        kw['whitelist'] = sorted(cfg['white'])
    if cfg['required']:
        kw['required_functions'] = sorted(cfg['required'])
    if cfg['forbidden']:
        kw['forbidden_strings'] = [chars_text(f) for f in cfg['forbidden']]
    if cfg['metric']:
        kw['metric_suffixes'] = True
    if cfg['instr']:
        kw['instructor_vars'] = sorted(cfg['instr'])
    if cfg['kind'] != 'sum':
        kw['tolerance'] = '0.01%'          # NumericalGrader's default is 5%; the model's guard band is 0.1%
    return kw


def item_answers(cfg):
    out = []
    for a in cfg['answers']:
        out.append({'expect': box_text(a['boxes'][0]), 'grade_decimal': 1 if a['g'] == 'full' else 0.5})
    return tuple(out)


def build_grader(cfg):
    """-> function(list of box texts) -> raw result of the real grader"""
    from mitxgraders import FormulaGrader, NumericalGrader, MatrixGrader, SumGrader, ListGrader, DependentSampler
    kw = math_kwargs(cfg)
    kind = cfg['kind']
    if kind in ('formula', 'numerical', 'matrix'):
        cls = {'formula': FormulaGrader, 'numerical': NumericalGrader, 'matrix': MatrixGrader}[kind]
        if kind == 'matrix' and cfg['entryPartial']:
            kw['entry_partial_credit'] = 'proportional'
        if cfg.get('aux', {}).get('wrap') == 'singlelist':
            # the same grader as the subgrader of a one-item SingleListGrader (';' never occurs in a formula)
            from mitxgraders import SingleListGrader
            g = SingleListGrader(answers=[item_answers(cfg)], subgrader=cls(**kw), delimiter=';')
        else:
            g = cls(answers=item_answers(cfg), **kw)
        return lambda boxes: g(None, boxes[0])
    if kind == 'sum':
        a = cfg['answers'][0]['boxes']
        g = SumGrader(answers={'lower': box_text(a[0]), 'upper': box_text(a[1]), 'summand': box_text(a[2]),
                               'summation_variable': cfg['dummy']},
                      input_positions={'lower': 1, 'upper': 2, 'summand': 3}, **kw)
        return lambda boxes: g(None, list(boxes))
    if kind == 'list':
        fv = kw.get('variables', [])
        fv = [v for v in fv if not isinstance(kw['sample_from'][v], DependentSampler)]
        first = FormulaGrader(variables=fv, sample_from={v: kw['sample_from'][v] for v in fv})
        second = (MatrixGrader if cfg['aux'].get('sub') == 'matrix' else FormulaGrader)(**kw)
        g = ListGrader(answers=[cfg['aux']['box1_answer'], item_answers(cfg)], subgraders=[first, second], ordered=True)
        box1 = cfg['aux']['box1']

        def call(boxes):
            r = g(None, [box1, boxes[0]])
            first_res = r['input_list'][0]
            if not (first_res['ok'] is True):
                raise AssertionError('machinery: the first box of the list was not graded correct: %r' % (first_res,))
            return r['input_list'][1]
        return call
    raise ValueError(kind)


def classify(call, boxes):
    """run one grading call -> outcome class"""
    from mitxgraders.exceptions import InvalidInput, ConfigError, StudentFacingError, MITxError
    from mitxgraders.helpers.calc.exceptions import UndefinedVariable, UndefinedFunction
    try:
        r = call(boxes)
    except UndefinedVariable:
        return 'undefvar'
    except UndefinedFunction:
        return 'undeffunc'
    except InvalidInput:
        return 'invalid'
    except StudentFacingError:
        return 'student'
    except ConfigError as e:
        return 'config:' + str(e)[:80]
    except MITxError as e:
        return 'other:' + type(e).__name__
    except AssertionError:
        raise
    except Exception as e:  # noqa
        return 'other:' + type(e).__name__
    try:
        g = float(r['grade_decimal'])
        ok = r['ok']
    except Exception:  # noqa
        return 'other:result'
    if g >= 1 - 1e-9 and ok is True:
        return 'credit'
    if 0 < g < 1 and ok == 'partial':
        return 'partial'
    if g == 0 and ok is False:
        return 'zero'
    return 'other:inconsistent ok=%r grade=%r' % (ok, g)


def check_tables():
    """the spec's function / constant / suffix tables agree with the library's (else the model is not about it)"""
    from engine import repo
    repo.activate()
    from mitxgraders.helpers.calc import DEFAULT_FUNCTIONS, DEFAULT_VARIABLES, DEFAULT_SUFFIXES, METRIC_SUFFIXES
    problems = []
    for f in SPEC_DEFAULT_FUNCS:
        if f not in DEFAULT_FUNCTIONS:
            problems.append('%s is not a default function' % f)
    for f in NOT_DEFAULT:
        if f in DEFAULT_FUNCTIONS:
            problems.append('%s is a default function' % f)
    if sorted(DEFAULT_VARIABLES) != ['e', 'i', 'j', 'pi']:
        problems.append('default constants are %s' % sorted(DEFAULT_VARIABLES))
    if sorted(DEFAULT_SUFFIXES) != ['%'] or sorted(METRIC_SUFFIXES) != sorted(METRIC):
        problems.append('suffix tables differ')
    return problems


def finding_class(why, allowed, obs, must):
    graded = obs in ('credit', 'partial', 'zero')
    if obs in ('credit', 'partial') and why != 'unrestricted' and obs not in allowed:
        return 'restriction-bypassed:' + why
    if why in ('variable-out-of-scope', 'function-undefined', 'suffix-undefined'):
        return 'out-of-scope-name-not-rejected-as-undefined:%s:%s' % (why, 'graded' if graded else obs.split(':')[0])
    if why == 'unrestricted':
        return 'unrestricted-formula-misgraded:%s' % ('refused' if not graded else obs)
    return 'refusal-outside-student-facing-family:%s:%s' % (why, obs.split(':')[0])


def describe(cfg):
    kw = math_kwargs(cfg)
    kw.pop('sample_from', None)
    kw.pop('tolerance', None)
    if cfg.get('deps'):
        kw['dependent_samplers'] = {h['s']: box_text(h['box']) for h in cfg['deps']}
    if cfg.get('aux', {}).get('sub') == 'matrix':
        kw['second_subgrader'] = 'MatrixGrader'
    if cfg.get('aux', {}).get('wrap'):
        kw['inside'] = 'SingleListGrader'
    kw['user_functions'] = sorted(kw.get('user_functions', {}))
    kw['answers'] = [[box_text(b) for b in a['boxes']] + [a['g']] for a in cfg['answers']]
    if cfg['entryPartial']:
        kw['entry_partial_credit'] = 'proportional'
    return kw


# ------------------------------------------------------------------ spec -> code
_GRADERS = {}


def replay_states(states, extra):
    from engine import repo
    repo.activate()
    n = 0
    keys = set()
    bad, drift = [], {}
    sample = None
    for st in states:
        c = st['c']
        if c['kind'] == 'seed':
            continue
        out = st['out']
        n += 1
        kind, d = c['kind'], c['d']
        key = (kind, tuple(sorted(d.items())))
        if key not in _GRADERS:
            cfg = cfg_from_dims(kind, d, c['ans'])
            _GRADERS[key] = (cfg, build_grader(cfg))
        cfg, call = _GRADERS[key]
        texts = [box_text(ids_box(b, c['sp'])) for b in c['boxes']]
        obs = classify(call, texts)
        keys.add((kind, out['why'], out['fine'], c['role'], c['form'], c['pos']))
        if sample is None and out['must'] and c['nm'] != 'none':
            sample = {'kind': kind, 'config': describe(cfg), 'input': texts, 'why': out['why'],
                      'allowed': sorted(out['allowed']), 'observed': obs}
        if obs not in out['allowed']:
            if len(bad) < 60:
                bad.append({'kind': kind, 'config': describe(cfg), 'dims': d, 'input': texts, 'why': out['why'],
                            'must_reject': out['must'], 'allowed': sorted(out['allowed']), 'observed': obs,
                            'template': [c['b'], c['nm'], c['role'], c['form'], c['pos'], c['sp']]})
            else:
                bad.append(None)
        elif out['fine'] != 'any' and obs != out['fine']:
            k = '%s: spec expects %s, code gives %s' % (out['why'], out['fine'], obs)
            drift[k] = drift.get(k, 0) + 1
    return {'n': n, 'keys': sorted(keys), 'bad': bad, 'drift': drift, 'sample': sample}


# ------------------------------------------------------------------ code -> spec: random scenarios
T_VARS = ['x', 'y', 'z', 't']
T_FUNCS_Z0 = ['sin', 'sinh', 'arctan', 'tanh', 'tan', 'arcsin']
T_FUNCS_O0 = ['cos', 'cosh', 'exp']
T_BAD_FUNCS = ['Sin', 'COS', 'sinhh', 'si', 'foo', 'F', "f'", "sin'", "g''"]
T_BAD_VARS = ['X', 'Y', "x'", "y''", 'x_1', 'z2', 'w', 'a', 'a_{007}', 'a_{-0}', 'B_{2}', 'a_1', 'ab_{1}', 'sibling_2',
              'sibling_3', 'Pi', 'C', 'sin', 'f',
              # look-alikes: an allowed name followed by primes / an upper index, other decorations of a numbered head
              "a_{1}'", "a_{12}''", 'a_{3}^{2}', "a_{-3}^{-1}'", "b_{2}'", 'b_{2}^{x}', "a'", 'a_{x}', 'a_{1x}', "c'", "pi'",
              "sibling_1'", "x_{1}", 'x^{2}']
T_SUFS = ['k', 'm', 'M', 'u', 'G', 'q', 'K', '%']
T_FORBIDDEN = ['*0', '+ 2', 'sin', 'x*y', '-z', '^0', '(0)', '0 *', 'y+', ')*', '1+', 'c o s']


class Gen(object):
    """random configuration + answers + cheating submission, as spec-level records"""

    def __init__(self, rng):
        self.rng = rng

    # ---- trees: ('num', text, n, d) ('suf', text, n, d, suffix) ('var', name) ('call', name, [args])
    #             ('bin', op, a, b) ('pow', a, b) ('neg', a) ('arr', [elems])
    def num(self, lo=0, hi=9):
        r = self.rng
        if r.random() < 0.08:
            return r.choice([('num', '0.5', 1, 2), ('num', '1.0', 1, 1), ('num', '2.50', 5, 2), ('num', '10', 10, 1),
                             ('num', '12', 12, 1), ('num', '.5', 1, 2)])
        n = r.randint(lo, hi)
        return ('num', str(n), n, 1)

    def answer_expr(self, depth, names, funcs_ok=True):
        r = self.rng
        p = r.random()
        if depth <= 0 or p < 0.25:
            if names and r.random() < 0.65:
                return ('var', r.choice(names))
            return self.num(1, 6)
        if p < 0.75:
            op = r.choice(['+', '+', '-', '*', '*'])
            return ('bin', op, self.answer_expr(depth - 1, names, funcs_ok), self.answer_expr(depth - 1, names, funcs_ok))
        if p < 0.82:
            return ('pow', self.answer_expr(0, names), ('num', '2', 2, 1))
        if p < 0.88:
            return ('neg', self.answer_expr(depth - 1, names, funcs_ok))
        if funcs_ok and p < 0.96:
            f = r.choice(T_FUNCS_Z0[:4] + T_FUNCS_O0 + ['abs'] + self.user_funcs)
            if f == 'g':
                return ('call', 'g', [self.answer_expr(depth - 1, names, False), self.answer_expr(0, names, False)])
            if f in ('f', 'h', 'abs'):
                return ('call', f, [self.answer_expr(depth - 1, names, False)])
            return ('call', f, [('bin', '*', self.answer_expr(0, names), ('num', '0', 0, 1))])
        return ('bin', '/', self.answer_expr(depth - 1, names, funcs_ok), r.choice([('num', '2', 2, 1), ('num', '4', 4, 1)]))

    def atom(self):
        """a sub-expression built from one (possibly restricted) name"""
        r = self.rng
        p = r.random()
        if p < 0.42:
            f = r.choice(T_FUNCS_Z0 + T_FUNCS_O0 + ['abs', 'sqrt'] + ['f', 'g', 'h'] * 2 + T_BAD_FUNCS[:r.randint(0, len(T_BAD_FUNCS))] + ['x'])
            if f == 'g' or r.random() < 0.03:
                args = [self.small(), self.small()]
            else:
                args = [r.choice([('num', '0', 0, 1), ('num', '0', 0, 1), self.small()])]
            return ('call', f, args)
        if p < 0.9:
            q = r.random()
            if q < 0.5 and self.scope_names:
                return ('var', r.choice(self.scope_names))                  # legitimate: must not be refused
            if q < 0.7:
                return ('var', r.choice(['pi', 'c', 'a_{1}', 'a_{12}', 'a_{-3}', 'a_{0}', 'b_{2}', 'I', 'vc', 'infty']))
            if q < 0.85:
                return ('var', r.choice(list(self.author_only) + ['sibling_1']))
            return ('var', r.choice(T_BAD_VARS))
        return ('suf', '0', 0, 1, r.choice(T_SUFS)) if r.random() < 0.7 else ('suf', '2', 2, 1, r.choice(T_SUFS))

    def small(self):
        r = self.rng
        if self.scope_names and r.random() < 0.5:
            return ('var', r.choice(self.scope_names))
        return self.num(0, 3)

    def zero(self):
        """an expression that is 0 whenever its atom is finite (or, 'bare', when its atom is 0)"""
        r = self.rng
        N = self.atom()
        zero = ('num', '0', 0, 1)
        form = r.choice(['mul0', 'mul0', '0mul', 'cancel', 'pow0', 'bare', 'mulcancel', 'sq0'])
        if form == 'mul0':
            return ('bin', '*', N, zero)
        if form == '0mul':
            return ('bin', '*', zero, N)
        if form == 'cancel':
            return ('bin', '-', N, N)
        if form == 'pow0':
            return ('bin', '-', ('pow', N, zero), ('num', '1', 1, 1))
        if form == 'mulcancel':
            return ('bin', '*', ('bin', '-', N, N), self.num(1, 5))
        if form == 'sq0':
            return ('bin', '*', zero, ('pow', N, ('num', '2', 2, 1)))
        return N

    def neutralise(self, E):
        """E combined with a neutral term"""
        r = self.rng
        Z = self.zero()
        one = ('num', '1', 1, 1)
        how = r.choice(['add', 'add', 'front', 'sub', 'one', 'oneleft', 'den', 'expo', 'arg', 'powone', 'argf'])
        if how == 'add':
            return ('bin', '+', E, Z)
        if how == 'front':
            return ('bin', '+', Z, E)
        if how == 'sub':
            return ('bin', '-', E, Z)
        if how == 'one':
            return ('bin', '*', E, ('bin', '+', one, Z))
        if how == 'oneleft':
            return ('bin', '*', ('bin', '+', one, Z), E)
        if how == 'den':
            return ('bin', '/', E, ('bin', '+', one, Z))
        if how == 'expo':
            return ('bin', '*', E, ('pow', ('num', '2', 2, 1), Z))
        if how == 'powone':
            return ('pow', E, ('bin', '+', one, Z))
        if how == 'argf':
            return ('bin', '+', E, ('call', r.choice(['sin', 'sinh', 'arctan', 'abs']), [Z]))
        return ('bin', '+', E, ('call', 'abs', [Z]))

    def insert(self, tree, depth=0):
        """apply neutralise at a random node of the tree"""
        r = self.rng
        t = tree[0]
        kids = {'bin': [2, 3], 'pow': [1], 'neg': [1], 'call': None, 'arr': None}.get(t, [])
        if t in ('call', 'arr') and tree[-1]:
            if t == 'arr' or r.random() < 0.5:
                args = list(tree[-1])
                j = r.randrange(len(args))
                args[j] = self.insert(args[j], depth + 1)
                return tree[:-1] + (args,)
        if t == 'arr':
            return tree
        if kids and r.random() < 0.6:
            j = r.choice(kids)
            return tree[:j] + (self.insert(tree[j], depth + 1),) + tree[j + 1:]
        return self.neutralise(tree)

    def commute(self, tree):
        r = self.rng
        t = tree[0]
        if t == 'bin':
            a, b = self.commute(tree[2]), self.commute(tree[3])
            if tree[1] in '+*' and r.random() < 0.5:
                a, b = b, a
            return ('bin', tree[1], a, b)
        if t == 'arr':
            return ('arr', [self.commute(e) for e in tree[1]])
        return tree

    # ---- exact value of an author-side tree built from + - * numbers and variables (for sibling values)
    def exact(self, tree, vals):
        from fractions import Fraction
        t = tree[0]
        if t == 'num':
            return Fraction(tree[2], tree[3])
        if t == 'var':
            return Fraction(vals[tree[1]])
        if t == 'bin':
            a, b = self.exact(tree[2], vals), self.exact(tree[3], vals)
            return {'+': a + b, '-': a - b, '*': a * b}[tree[1]]
        raise ValueError(t)

    def simple_expr(self, depth, names):
        r = self.rng
        if depth <= 0 or r.random() < 0.3:
            return ('var', r.choice(names)) if r.random() < 0.7 else self.num(1, 5)
        return ('bin', r.choice('+-*'), self.simple_expr(depth - 1, names), self.simple_expr(depth - 1, names))

    # ---- the scenario
    def scenario(self, rid):
        r = self.rng
        kind = r.choice(KINDS)
        has_vars = kind != 'numerical'
        values = r.sample([2, 3, 4, 5, 6, 7, 8, 9], 8)
        val = {'pi': FIN, 'e': FIN, 'i': NP, 'j': NP}
        variables = []
        if has_vars:
            variables = ['x', 'y'] + [v for v in ['z', 't'] if r.random() < 0.7]
            for v in variables:
                val[v] = V(values.pop())
        consts = ['e', 'i', 'j']
        if r.random() < 0.85:
            consts.append('pi')
        if r.random() < 0.6:
            consts.append('c')
            val['c'] = V(11)
        if kind == 'sum':
            consts.append('infty')
            val['infty'] = NP
        # class-specific names a grader puts into the scope by itself: MatrixGrader's identity I (identity_dim), array
        # valued user constants, the infinity of allow_inf (summations always have it)
        aux = {}
        if kind == 'matrix':
            if r.random() < 0.6:
                aux['identity_dim'] = r.choice([2, 3])
                consts.append('I')
                val['I'] = NP
            if r.random() < 0.4:
                aux['arrays'] = {'vc': [1, 2]}
                consts.append('vc')
                val['vc'] = NP
        if kind in ('formula', 'numerical') and r.random() < 0.25:
            aux['allow_inf'] = True
            consts.append('infty')
            val['infty'] = NP
        instr = [v for v in ['z', 't', 'c', 'pi', 'I', 'vc', 'infty']
                 if (v in variables or v in consts) and r.random() < 0.35]
        numbered = []
        if has_vars:
            for h, inst in (('a', 'a_{1}'), ('b', 'b_{2}')):
                if r.random() < 0.4:
                    numbered.append({'s': h, 'ch': [h]})
                    val[h] = V(values.pop())
                    if r.random() < 0.3:
                        instr.append(inst)                 # an instructor-only instance of a numbered variable
        self.user_funcs = [f for f in ['f', 'g', 'h'] if r.random() < 0.5]
        p = r.random()
        wmode, white, black = 'off', [], []
        if p < 0.3:
            black = r.sample(SPEC_DEFAULT_FUNCS, r.randint(1, 4))
        elif p < 0.55:
            wmode, white = 'list', r.sample(SPEC_DEFAULT_FUNCS, r.randint(1, 4))
        elif p < 0.7:
            wmode = 'nofuncs'
        required = r.sample(['cos', 'f', 'sinh', 'abs', 'sin'], r.randint(1, 2)) if r.random() < 0.25 else []
        forbidden = [['SP' if ch == ' ' else ch for ch in s] for s in r.sample(T_FORBIDDEN, r.randint(1, 2))] \
            if r.random() < 0.3 else []
        dummy = 'n' if kind == 'sum' else ''
        author_names = [v for v in variables] + (['c'] if 'c' in consts else [])
        self.author_only = [v for v in instr]
        self.scope_names = [v for v in author_names if v not in instr]
        cfg = {'kind': kind, 'vars': variables, 'consts': consts, 'instr': instr, 'sibs': [], 'numbered': numbered,
               'defaultFuncs': list(SPEC_DEFAULT_FUNCS), 'userFuncs': list(self.user_funcs), 'wmode': wmode,
               'white': white, 'black': black, 'required': required, 'forbidden': forbidden,
               'metric': r.random() < 0.3, 'entryPartial': False, 'dummy': dummy, 'val': val, 'answers': [],
               'deps': []}
        if kind in ('formula', 'numerical', 'matrix') and r.random() < 0.25:
            aux['wrap'] = 'singlelist'
        if aux:
            cfg['aux'] = aux
        # ---- answers and the base of the submission
        partial_tree = None
        if kind == 'matrix':
            ans = ('arr', [self.answer_expr(r.randint(1, 2), author_names) for _ in range(r.randint(2, 3))])
            cfg['entryPartial'] = r.random() < 0.5
            answers = [([ans], 'full')]
        elif kind == 'sum':
            lo = r.randint(0, 2)
            hi = lo + r.randint(1, 4)
            summand = ('bin', r.choice('+*'), ('var', 'n'), self.answer_expr(r.randint(0, 2), author_names + ['n']))
            answers = [([('num', str(lo), lo, 1), ('num', str(hi), hi, 1), summand], 'full')]
        elif kind == 'list':
            plain = [v for v in variables if v not in instr] or ['x']
            e1 = self.simple_expr(2, plain)
            e2 = self.answer_expr(1, author_names)
            op = r.choice('+*')
            cfg['sibs'] = ['sibling_1', 'sibling_2']
            sv = self.exact(e1, {k: _num(v) for k, v in val.items() if v.get('k') == 'v'})
            if abs(sv.numerator) > 30000 or sv.denominator != 1:
                e1 = ('var', plain[0])
                sv = self.exact(e1, {k: _num(v) for k, v in val.items() if v.get('k') == 'v'})
            val['sibling_1'] = V(int(sv))
            val['sibling_2'] = NP
            cfg['aux'] = {'box1': box_text(self.render(self.commute(e1))), 'box1_answer': box_text(self.render(e1)),
                          'sub': r.choice(['formula', 'formula', 'matrix'])}
            # the route by which the second box reaches the first input: named in the answer, through a dependent
            # sampling set of an instructor variable, or through a chain of two such sets
            route = r.choice(['direct', 'sampler', 'sampler', 'chain'])
            sib = ('var', 'sibling_1')
            if route == 'direct':
                head, head_expanded = sib, e1
            else:
                k1 = self.num(1, 3)
                op1 = r.choice('+*')
                f1 = sib if r.random() < 0.4 else ('bin', op1, sib, k1)
                x1 = e1 if f1 is sib else ('bin', op1, e1, k1)
                if route == 'sampler':
                    deps = [('u', f1)]
                    head_expanded = x1
                else:
                    k2 = self.num(1, 3)
                    op2 = r.choice('+-')
                    deps = [('v', f1), ('u', ('bin', op2, ('var', 'v'), k2))]
                    head_expanded = ('bin', op2, x1, k2)
                    if r.random() < 0.5:
                        deps.reverse()
                head = ('var', 'u')
                for nm, f in deps:
                    cfg['vars'].append(nm)
                    cfg['instr'].append(nm)
                    cfg['deps'].append({'s': nm, 'box': self.render(f)})
                self.author_only = list(cfg['instr'])
            answers = [([('bin', op, head, e2)], 'full')]
            self.expanded = ('bin', op, head_expanded, e2)
        else:
            ans = self.answer_expr(r.randint(1, 3), author_names)
            answers = [([ans], 'full')]
        if kind in ('formula', 'numerical', 'list') and r.random() < 0.35:
            partial_tree = ('bin', '+', answers[0][0][0] if kind != 'list' else self.expanded, self.num(1, 3))
            answers.append(([partial_tree], 'half'))
        cfg['answers'] = [{'boxes': [self.render(t) for t in trees], 'g': g} for trees, g in answers]
        # ---- the submission
        base = list(answers[0][0])
        which = 'correct'
        if kind == 'list' and r.random() < 0.8:
            base = [self.expanded]
        if partial_tree is not None and r.random() < 0.3:
            base = [partial_tree]
            which = 'partial'
        p = r.random()
        if p < 0.2:
            which = 'wrong'
            j = len(base) - 1
            if kind == 'matrix':
                elems = list(base[0][1])
                k = r.randrange(len(elems))
                elems[k] = ('bin', '+', elems[k], self.num(1, 3))
                base[0] = ('arr', elems)
            else:
                base[j] = ('bin', '+', base[j], self.num(1, 3))
        elif p < 0.5:
            base = [self.commute(b) for b in base]
        k = r.choice([0, 0, 1, 1, 1, 2, 3])
        for _ in range(k):
            j = r.randrange(len(base)) if r.random() < 0.25 else len(base) - 1
            base[j] = self.insert(base[j])
        blank_p = r.choice([0, 0, 0.15, 0.5])
        boxes = [self.render(b, blank_p) for b in base]
        return {'id': rid, 'cfg': cfg, 'boxes': boxes, 'base': which, 'inserted': k,
                'texts': [box_text(b) for b in boxes]}

    # ---- rendering with the parentheses the grammar needs (conservative)
    PREC = {'num': 5, 'suf': 5, 'var': 5, 'call': 5, 'arr': 5, 'pow': 4, 'neg': 3}

    def prec(self, t):
        if t[0] == 'bin':
            return 2 if t[1] in '*/' else 1
        return self.PREC[t[0]]

    def render(self, tree, blank_p=0):
        toks = self.toks(tree)
        if not blank_p:
            return toks
        out = []
        for j, lx in enumerate(toks):
            if j and self.rng.random() < blank_p:
                out.append(LX_BLANK)
            out.append(lx)
        return out

    def wrap(self, t, need):
        inner = self.toks(t)
        if self.prec(t) < need:
            return [lx_op('(')] + inner + [lx_op(')')]
        return inner

    def toks(self, t):
        k = t[0]
        if k == 'num':
            return [lx_num(t[1], t[2], t[3])]
        if k == 'suf':
            return [lx_num(t[1], t[2], t[3]), LX_PCT if t[4] == '%' else lx_name(t[4])]
        if k == 'var':
            return [lx_name(t[1])]
        if k == 'call':
            out = [lx_name(t[1]), lx_op('(')]
            for j, a in enumerate(t[2]):
                if j:
                    out.append(lx_op(','))
                out += self.toks(a)
            return out + [lx_op(')')]
        if k == 'arr':
            out = [lx_op('[')]
            for j, a in enumerate(t[1]):
                if j:
                    out.append(lx_op(','))
                out += self.toks(a)
            return out + [lx_op(']')]
        if k == 'neg':
            return [lx_op('-')] + self.wrap(t[1], 4)
        if k == 'pow':
            return self.wrap(t[1], 5) + [lx_op('^')] + self.wrap(t[2], 5)
        op = t[1]
        if op in '+-':
            left = self.wrap(t[2], 1 if t[2][0] != 'neg' else 4)
            return left + [lx_op(op)] + self.wrap(t[3], 2 if t[3][0] != 'neg' else 4)
        return self.wrap(t[2], 2 if t[2][0] != 'neg' else 4) + [lx_op(op)] + self.wrap(t[3], 4)


def trace_chunk(items, extra):
    """items: list of (seed, count, start_id) -> records"""
    from engine import repo
    repo.activate()
    out = []
    for seed, count, start in items:
        rng = random.Random(seed)
        gen = Gen(rng)
        for k in range(count):
            sc = gen.scenario(start + k)
            if sum(len(b) for b in sc['boxes']) > 110 or max(len(b) for b in sc['boxes']) > 90:
                continue
            try:
                call = build_grader(sc['cfg'])
            except Exception as e:  # noqa  (a configuration the library refuses is not a case of this property)
                sc['obs'] = 'unbuildable:%s:%s' % (type(e).__name__, str(e)[:100])
                out.append(sc)
                continue
            sc['obs'] = classify(call, sc['texts'])
            out.append(sc)
    return out


# ------------------------------------------------------------------ run
def _report(ctx, b):
    cls = finding_class(b['why'], b['allowed'], b['observed'], b.get('must_reject'))
    sig = dict(b)
    sig['class'] = cls
    ctx.violation(sig, '%s %s on %r: %s; spec allows %s, code gave %s' % (
        b['kind'], {k: v for k, v in b['config'].items() if k not in ('variables', 'answers')}, b['input'], b['why'],
        b['allowed'], b['observed']))


def run(ctx):
    from engine.main import Machinery
    problems = check_tables()
    if problems:
        raise Machinery('the function / constant / suffix tables of the specification do not describe this library: %s'
                        % '; '.join(problems))
    reached = set()
    drift = {}
    # thorough: the rich template set around the baseline for every kind, plus all pairs of option changes (with the
    # quick template set) for FormulaGrader (whose validation code the other kinds share) and for the second box of ordered lists
    runs = [(part, 'quick') for part in KINDS] if ctx.quick else \
        [(part, 'thorough') for part in KINDS] + [('formula', 'pairs'), ('list', 'pairs')]
    for part, tier in runs:
        d = os.path.join(ctx.scratch, 'cases_%s_%s' % (part, tier))
        ctx.tlc('expr/MC_Restrictions.tla', 'expr/MC_Restrictions_%s_%s.cfg' % (part, tier), dump=d, timeout=5000)
        res = dump.parallel(d + '.dump', 'engine.adapters.c09', 'replay_states')
        os.remove(d + '.dump')
        for r in res:
            ctx.traces_validated += r['n']
            ctx.evaluations += r['n']
            for k in r['keys']:
                ctx.nontrivial.add(tuple(k))
                reached.add((k[0], k[1]))
            if r['sample']:
                ctx.sample(r['sample'])
            for k, v in r['drift'].items():
                drift[k] = drift.get(k, 0) + v
            for b in r['bad']:
                if b is not None:
                    _report(ctx, b)
    # code -> spec
    n = 2500 if ctx.quick else 12000
    per = 50
    items = [(ctx.rng.randrange(2 ** 31), per, i * per) for i in range(n // per)]
    recs = [r for chunk in dump.pmap('engine.adapters.c09', 'trace_chunk', items) for r in chunk]
    unbuildable = [r for r in recs if r['obs'].startswith('unbuildable')]
    recs = [r for r in recs if not r['obs'].startswith('unbuildable')]
    if len(unbuildable) > len(recs) // 20:
        raise Machinery('too many generated configurations were refused by the library: %s' % unbuildable[0]['obs'])
    slim = [{'id': r['id'], 'cfg': {k: v for k, v in r['cfg'].items() if k != 'aux'}, 'boxes': r['boxes'],
             'obs': r['obs']} for r in recs]
    rej = {}
    step = 4000
    for s in range(0, len(slim), step):
        rej.update(traces.validate(ctx, 'expr/RestrictionsTrace.tla', 'expr/RestrictionsTrace.cfg', slim[s:s + step],
                                   name='trace%d' % s, timeout=3000))
    ctx.evaluations += len(recs)
    byid = {r['id']: r for r in recs}
    for r in recs[:2]:
        ctx.sample({'trace_record': {'kind': r['cfg']['kind'], 'config': describe(r['cfg']), 'input': r['texts'],
                                     'observed': r['obs']}})
    obs_hist = {}
    for r in recs:
        o = r['obs'].split(':')[0]
        obs_hist[o] = obs_hist.get(o, 0) + 1
    for i, clause in rej.items():
        r = byid[i]
        why, fine, must = clause[0], clause[1], clause[2]
        b = {'kind': r['cfg']['kind'], 'config': describe(r['cfg']), 'input': r['texts'], 'why': why,
             'must_reject': must, 'allowed': 'see Restrictions!Outcome (expected %s)' % fine, 'observed': r['obs'],
             'instructor_vars': r['cfg']['instr'], 'base': r['base']}
        b['class'] = finding_class(why, [fine], r['obs'], must)
        ctx.violation(b, 'trace: %s %s on %r: %s; spec expects %s, code gave %s' % (
            b['kind'], {k: v for k, v in b['config'].items() if k not in ('variables', 'answers')}, b['input'], why,
            fine, r['obs']))
    for k, v in sorted(drift.items())[:5]:
        ctx.note_drift('%s (%d cases)' % (k, v))
    ctx.extra['reached'] = sorted('%s/%s' % k for k in reached)
    ctx.extra['trace_observations'] = obs_hist
    ctx.extra['bounds'] = {'tier': ctx.tier, 'grader_kinds': KINDS, 'options_changed_from_baseline': '1' if ctx.quick else '1 with the rich template set, 2 with the quick template set',
                           'random_records': len(recs), 'neutral_terms_per_random_formula': '0-3',
                           'max_tokens_random': 110}
    ctx.assumptions += [
        'single-point sampling sets make "would otherwise earn credit" an exact rational comparison; formulas whose '
        'value the model cannot compute exactly (pi - pi, sin(x) - sin(x)) are only required not to bypass a restriction',
        'forbidden strings are compared after deleting U+0020 only (the statement says spaces); TAB / LF between tokens '
        'are outside the generated space',
        'the unicode em-dash alias of "-" is outside the generated space',
        'the specification lists 11 of the default functions; the adapter checks the names it uses against the library tables',
    ]


def replay(ctx, rec):
    sig = rec['signature']
    print('signature:', sig)
    return False
