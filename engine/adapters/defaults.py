"""Growth beyond the listed properties: course-wide registered defaults (spec/graders/DefaultsRegistry.tla).

Called by the C20 check as an extra part.
  spec -> code   every history of register_defaults / clear_registered_defaults operations TLC reaches in
                 MC_DefaultsRegistry (all histories up to MaxOps over five classes and three options) is applied to the real
                 classes; after it, every construction the state carries (class x explicit options) is performed and its
                 outcome compared: configuration error, or the value of each option in the object's config;
                 the registry itself (cls.default_values) is compared as well.
  code -> spec   random longer histories are run on the real classes, every construction observed, and the recorded
                 history validated by TLC against DefaultsRegistryTrace.
A disagreement is reported as DRIFT (documented behaviour outside the twenty listed properties), never as a VIOLATION.
The registries are cleared before and after every history, also on errors.
"""
import json
import os

from engine import dump, traces

CLASSES = ['AbstractGrader', 'ItemGrader', 'StringGrader', 'FormulaGrader', 'NumericalGrader']
VALUE = {'on': True, 'off': False, 'w1': 'registered one', 'w2': 'registered two', 'we': 'explicit', 'empty': '',
         't1': 0.125, 't2': '7%', 'te': 0.5, 'fg_tol': '0.01%', 'ng_tol': '5%'}


def classes():
    import mitxgraders
    from mitxgraders.baseclasses import AbstractGrader, ItemGrader
    return {'AbstractGrader': AbstractGrader, 'ItemGrader': ItemGrader, 'StringGrader': mitxgraders.StringGrader,
            'FormulaGrader': mitxgraders.FormulaGrader, 'NumericalGrader': mitxgraders.NumericalGrader}


def canon(v):
    """percentage strings are stored re-formatted ('5%' -> '5.0%'): compare them as numbers"""
    if isinstance(v, str) and v.endswith('%'):
        try:
            return ('%', float(v[:-1]))
        except ValueError:
            return v
    return v


def name_of(opt, v):
    for n, pv in VALUE.items():
        if type(pv) is type(v) and canon(pv) == canon(v):
            return n
    return 'other:%r' % (v,)


_PRISTINE = {}


def clear_all(K):
    """back to the state right after import (not via clear_registered_defaults: that is one of the operations under test,
    and calling it on every class would give each class its own attribute whatever the metaclass does)"""
    for n, c in K.items():
        if n not in _PRISTINE:
            _PRISTINE[n] = ('own', c.__dict__['default_values']) if 'default_values' in c.__dict__ else ('inherited', None)
            if _PRISTINE[n][1] is not None:
                raise RuntimeError('class %s has registered defaults at import: %r' % (n, _PRISTINE[n][1]))
        kind, v = _PRISTINE[n]
        if kind == 'own':
            c.default_values = v
        elif 'default_values' in c.__dict__:
            del c.default_values


def apply_history(K, h):
    """-> the dictionaries handed to register_defaults, each with a copy of what it held when it was handed over
    (the registry must not keep working on the caller's own dictionary)"""
    given = []
    for e in h:
        if e['op'] == 'clear':
            K[e['c']].clear_registered_defaults()
        else:
            d = {e['k']: VALUE[e['v']]}
            given.append((d, dict(d)))
            K[e['c']].register_defaults(d)
    return given


def construct(K, c, E):
    from mitxgraders.exceptions import ConfigError
    import voluptuous
    kw = {k: VALUE[v] for k, v in (E or {}).items()}
    try:
        g = K[c](answers='1', **kw)
    except (ConfigError, voluptuous.Error):          # "a configuration or validation error"
        return {'k': 'error'}
    except Exception as e:  # noqa
        return {'k': 'crash', 'cls': type(e).__name__, 'text': str(e)[:200]}
    return {'k': 'object', 'config': {o: name_of(o, g.config[o]) for o in ('debug', 'wrong_msg', 'tolerance') if o in g.config}}


def registry(K):
    own = {n: c.__dict__.get('default_values') for n, c in K.items()}        # each class's OWN registrations
    return {n: ({} if d is None else {k: name_of(k, v) for k, v in d.items()}) for n, d in own.items()}


def as_dict(x):
    return x if isinstance(x, dict) else {}


def replay_states(states, extra):
    from engine import repo
    repo.activate()
    K = classes()
    n = 0
    bad, keys = [], set()
    sample = None
    for st in states:
        h = st['h']
        clear_all(K)
        try:
            given = apply_history(K, h)
            got_reg = registry(K)
            want_reg = {c: as_dict(st['reg'][c]) for c in CLASSES}
            probs = []
            if any(d != keep for d, keep in given):
                probs.append({'clause': 'caller-dictionary-changed', 'documented': [k for _, k in given], 'observed': [d for d, _ in given]})
            if got_reg != want_reg:
                probs.append({'clause': 'registry', 'documented': want_reg, 'observed': got_reg})
            for o in st['obs']:
                E = as_dict(o['E'])
                got = construct(K, o['c'], E)
                n += 1
                keys.add((o['c'], o['out']['k'], tuple(sorted(E)), len(h)))
                if got != o['out']:
                    probs.append({'clause': 'construct', 'class': o['c'], 'explicit': E, 'documented': o['out'], 'observed': got})
                elif sample is None and len(h) >= 2 and o['out']['k'] == 'object' and not E:
                    sample = {'history': h, 'constructed': o['c'], 'documented_config': o['out']['config'], 'observed_config': got['config']}
        finally:
            clear_all(K)
        for p in probs[:2]:
            p['history'] = h
            bad.append(p if len(bad) < 20 else None)
    return {'n': n, 'bad': bad, 'keys': sorted(keys), 'sample': sample}


# ------------------------------------------------------------------------------------------------- code -> spec
OPS = [('register', 'debug', 'on'), ('register', 'wrong_msg', 'w1'), ('register', 'wrong_msg', 'w2'),
       ('register', 'tolerance', 't1'), ('register', 'tolerance', 't2'), ('clear', None, None)]


def rand_history(rng, i):
    n = rng.randint(1, 9)
    h = []
    for _ in range(n):
        op, k, v = rng.choice(OPS)
        c = rng.choice(CLASSES)
        h.append({'op': 'clear', 'c': c} if op == 'clear' else {'op': 'register', 'c': c, 'k': k, 'v': v})
    probes = []
    for _ in range(3):
        c = rng.choice(CLASSES[2:])
        E = rng.choice([{}, {}, {'wrong_msg': 'we'}] + ([{'tolerance': 'te'}, {'debug': 'off'}] if c != 'StringGrader' else []))
        probes.append({'c': c, 'E': E})
    return {'id': i, 'h': h, 'probes': probes}


def observe_chunk(cases, extra):
    from engine import repo
    repo.activate()
    K = classes()
    recs = []
    for P in cases:
        clear_all(K)
        try:
            apply_history(K, P['h'])
            obs = []
            for pr in P['probes']:
                got = construct(K, pr['c'], pr['E'])
                cfg = got.get('config', {})
                obs.append({'c': pr['c'], 'E': [[k, v] for k, v in sorted(pr['E'].items())], 'k': got['k'],
                            'config': [[k, v] for k, v in sorted(cfg.items())]})
            recs.append({'id': P['id'], 'h': [[e['op'], e['c'], e.get('k', ''), e.get('v', '')] for e in P['h']], 'obs': obs})
        finally:
            clear_all(K)
    return recs


def run_part(ctx):
    """extra part of the C20 check; every disagreement is drift"""
    from engine.main import Machinery
    r = ctx.tlc('graders/MC_DefaultsRegistry.tla', 'graders/MC_DefaultsRegistry_vacuity.cfg', must_hold=False, extra=['-continue'])
    if not {'NeverRefuses', 'NeverShadows'} <= set(r.violated):
        raise Machinery('DefaultsRegistry: the vacuity guards were not refuted: %s' % sorted(set(r.violated)))
    d = os.path.join(ctx.scratch, 'defaults_cases')
    ctx.tlc('graders/MC_DefaultsRegistry.tla', 'graders/MC_DefaultsRegistry_%s.cfg' % ctx.tier, dump=d, timeout=3000)
    res = dump.parallel(d + '.dump', 'engine.adapters.defaults', 'replay_states')
    os.remove(d + '.dump')
    n = nbad = 0
    reached = set()
    for r in res:
        n += r['n']
        ctx.evaluations += r['n']
        ctx.traces_validated += r['n']
        reached.update(tuple(map(str, k)) for k in r['keys'])
        if r['sample'] and 'defaults_sample' not in ctx.extra:
            ctx.extra['defaults_sample'] = r['sample']
        for b in r['bad']:
            nbad += 1
            if b is not None and nbad <= 5:
                ctx.note_drift('registered defaults (documented in docs/plugins.md, outside the listed properties): after %s: %s' % (
                    json.dumps(b['history']), json.dumps({k: v for k, v in b.items() if k != 'history'})[:500]))
    if n == 0:
        raise Machinery('defaults part: nothing replayed')
    ncases = 1500 if ctx.quick else 20000
    cases = [rand_history(ctx.rng, i + 1) for i in range(ncases)]
    recs = [r for chunk in dump.pmap('engine.adapters.defaults', 'observe_chunk', cases) for r in chunk]
    rejected = {}
    for lo in range(0, len(recs), 5000):
        rejected.update(traces.validate(ctx, 'graders/DefaultsRegistryTrace.tla', 'graders/DefaultsRegistryTrace.cfg',
                                        recs[lo:lo + 5000], name='defaults_trace%d' % lo, timeout=3000))
    ctx.evaluations += 3 * len(recs)
    byid = {r['id']: r for r in recs}
    for i, clause in list(rejected.items())[:5]:
        ctx.note_drift('registered defaults (random history): %s: trace specification rejects %s' % (json.dumps(byid[i])[:600], clause))
    ctx.extra['defaults_growth'] = {
        'spec': 'graders/DefaultsRegistry.tla (from docs/plugins.md and plugins/defaults_sample.py)',
        'constructions_replayed': n, 'disagreements': nbad, 'random_histories_validated': len(recs),
        'random_histories_rejected': len(rejected), 'observation_classes_reached': len(reached),
        'verdict': 'drift only: registration semantics are outside the twenty listed properties'}
    return nbad + len(rejected)
