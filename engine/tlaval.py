"""Parser for TLA+ values as printed by TLC (-dump files, PrintT output, simulate traces).

Supported: integers, strings, TRUE/FALSE, sequences <<..>>, sets {..}, records [a |-> v, ..],
functions (k :> v @@ k :> v), model values / bare identifiers (returned as str), intervals a..b.
Python mapping: sequence -> tuple, set -> frozenset, record/function -> dict.
"""
import re

_TOK = re.compile(r'''\s*(?:
    (?P<str>"(?:[^"\\]|\\.)*") |
    (?P<int>-?\d+) |
    (?P<sym><<|>>|\|->|:>|@@|\.\.|[\[\]{}(),]) |
    (?P<id>[A-Za-z_][A-Za-z0-9_!]*)
)''', re.X)


class Frozen(dict):
    """hashable dict so that sets of records parse"""
    def __hash__(self):
        return hash(frozenset(self.items()))


def tokenize(text):
    pos, out, n = 0, [], len(text)
    while True:
        m = _TOK.match(text, pos)
        if not m:
            if text[pos:].strip():
                raise ValueError("cannot tokenize TLA value at %r" % text[pos:pos + 40])
            return out
        pos = m.end()
        if m.group('str') is not None:
            s = m.group('str')[1:-1]
            s = s.replace('\\"', '"').replace('\\\\', '\\').replace('\\n', '\n').replace('\\t', '\t')
            out.append(('str', s))
        elif m.group('int') is not None:
            out.append(('int', int(m.group('int'))))
        elif m.group('sym') is not None:
            out.append(('sym', m.group('sym')))
        else:
            out.append(('id', m.group('id')))


class _P(object):
    def __init__(self, toks):
        self.t, self.i = toks, 0

    def peek(self):
        return self.t[self.i] if self.i < len(self.t) else (None, None)

    def take(self, kind=None, val=None):
        k, v = self.peek()
        if (kind and k != kind) or (val is not None and v != val):
            raise ValueError("expected %s %s, got %s %s at token %d" % (kind, val, k, v, self.i))
        self.i += 1
        return v

    def value(self):
        v = self.atom()
        # function built from :> and @@
        k, s = self.peek()
        if k == 'sym' and s == ':>':
            d = Frozen()
            self.take()
            d[v] = self.atom()
            while self.peek() == ('sym', '@@'):
                self.take()
                kk = self.atom()
                self.take('sym', ':>')
                d[kk] = self.atom()
            return d
        if k == 'sym' and s == '..':
            self.take()
            hi = self.atom()
            return tuple(range(v, hi + 1))
        return v

    def atom(self):
        k, v = self.peek()
        if k == 'int' or k == 'str':
            self.take()
            return v
        if k == 'id':
            self.take()
            if v == 'TRUE':
                return True
            if v == 'FALSE':
                return False
            return v
        if k == 'sym':
            if v == '<<':
                self.take()
                items = []
                while self.peek() != ('sym', '>>'):
                    items.append(self.value())
                    if self.peek() == ('sym', ','):
                        self.take()
                self.take()
                return tuple(items)
            if v == '{':
                self.take()
                items = []
                while self.peek() != ('sym', '}'):
                    items.append(self.value())
                    if self.peek() == ('sym', ','):
                        self.take()
                self.take()
                return frozenset(items)
            if v == '[':
                self.take()
                d = Frozen()
                while self.peek() != ('sym', ']'):
                    name = self.take('id')
                    self.take('sym', '|->')
                    d[name] = self.value()
                    if self.peek() == ('sym', ','):
                        self.take()
                self.take()
                return d
            if v == '(':
                self.take()
                x = self.value()
                self.take('sym', ')')
                return x
        raise ValueError("unexpected token %s %s" % (k, v))


def parse(text):
    p = _P(tokenize(text))
    v = p.value()
    if p.i != len(p.t):
        raise ValueError("trailing tokens in TLA value: %r" % (p.t[p.i:p.i + 5],))
    return v


def parse_dump(path):
    """Yield dict var->value for every state in a TLC -dump file."""
    cur = None
    name = None
    buf = []

    def flush():
        if name is not None:
            cur[name] = parse(' '.join(buf))

    with open(path) as f:
        for line in f:
            line = line.rstrip('\n')
            if line.startswith('State '):
                if cur is not None:
                    flush()
                    yield cur
                cur, name, buf = {}, None, []
                continue
            if cur is None:
                continue
            m = re.match(r'^(?:/\\ )?([A-Za-z_][A-Za-z0-9_]*) = (.*)$', line)
            if m and (line.startswith('/\\ ') or name is None):
                flush()
                name, buf = m.group(1), [m.group(2)]
            elif line.strip():
                buf.append(line.strip())
    if cur is not None:
        flush()
        yield cur


def to_tla(v):
    """Render a Python value as TLA+ text (for generated cfg/constant modules)."""
    if isinstance(v, bool):
        return 'TRUE' if v else 'FALSE'
    if isinstance(v, int):
        return str(v)
    if isinstance(v, str):
        return '"%s"' % v.replace('\\', '\\\\').replace('"', '\\"')
    if isinstance(v, (tuple, list)):
        return '<<' + ', '.join(to_tla(x) for x in v) + '>>'
    if isinstance(v, (set, frozenset)):
        return '{' + ', '.join(sorted(to_tla(x) for x in v)) + '}'
    if isinstance(v, dict):
        if not v:
            return '<<>>'
        if all(isinstance(k, str) and re.match(r'^[A-Za-z_][A-Za-z0-9_]*$', k) for k in v):
            return '[' + ', '.join('%s |-> %s' % (k, to_tla(x)) for k, x in v.items()) + ']'
        return '(' + ' @@ '.join('%s :> %s' % (to_tla(k), to_tla(x)) for k, x in v.items()) + ')'
    raise TypeError("no TLA rendering for %r" % (v,))
