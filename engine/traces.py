"""ndjson traces recorded from the implementation, validated in batch by a TLC trace specification.

Trace-spec contract (see spec/*/*Trace.tla): the spec reads IOEnv.TRACE_FILE with ndJsonDeserialize, walks an index
variable over the records (one state per record, -workers 1), prints  <<"REJECT", id, clause>>  for each record
its oracle does not allow and  <<"DONE", n>>  once.  Acceptance of the run itself = TLC reports exactly n+1 distinct
states and DONE n; anything else is a machinery failure, never a verdict.
"""
import json
import os
import re

from engine import tlaval


def write(path, records):
    with open(path, 'w') as f:
        for r in records:
            f.write(json.dumps(r, sort_keys=True) + '\n')
    return len(records)


def validate(ctx, module, cfg, records, name='trace', timeout=1800, env=None):
    """returns dict id -> clause for rejected records"""
    from engine.main import Machinery
    if not records:
        return {}
    path = os.path.join(ctx.scratch, '%s.ndjson' % name)
    n = write(path, records)
    e = {'TRACE_FILE': path}
    if env:
        e.update(env)
    r = ctx.tlc(module, cfg, workers=1, env=e, timeout=timeout, must_hold=False)
    rejects = {}
    done = None
    for line in r.out.splitlines():
        line = line.strip()
        if line.startswith('<<"REJECT"'):
            v = tlaval.parse(line)
            rejects[v[1]] = v[2] if len(v) > 2 else ''
        elif line.startswith('<<"DONE"'):
            done = tlaval.parse(line)[1]
    if r.violated or done != n or r.distinct != n + 1:
        raise Machinery('trace validation did not consume the whole trace (%s/%s records, %s states, violated=%s)\n%s'
                        % (done, n, r.distinct, r.violated, r.out[-3000:]))
    ctx.traces_validated += n
    return rejects
