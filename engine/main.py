"""./check <ID> [--tier quick|thorough] [--seed N] [--replay FILE]

Exit 0: property held on everything explored (listed known findings are printed, not alarms)
Exit 1: a violation not listed in known_findings.json  (line: VIOLATION property=<id> replay=<path>)
Exit 2: machinery failure (TLC could not run, spec law broken, unreadable trace ...) -- never a verdict
"""
import argparse
import importlib
import json
import os
import random
import shutil
import sys
import tempfile
import time
import traceback

HERE = os.path.dirname(os.path.abspath(__file__))
VERIF = os.path.dirname(HERE)
sys.path.insert(0, VERIF)

from engine import tlc, repo  # noqa: E402


class Machinery(Exception):
    pass


class Ctx(object):
    def __init__(self, pid, tier, seed):
        self.pid, self.tier, self.seed = pid, tier, seed
        self.quick = tier == 'quick'
        self.rng = random.Random(seed)
        self.scratch = tempfile.mkdtemp(prefix='verif-%s-' % pid)
        self.states = 0
        self.transitions = 0
        self.traces_validated = 0
        self.evaluations = 0
        self.nontrivial = set()
        self.samples = []
        self.violations = []
        self.known = []
        self.drift = []
        self.extra = {}
        self.assumptions = []
        self.tlc_runs = []
        self.findings = load_findings(pid)
        self.by_class = {}
        self.nfiles = 0
        self.last_path = None
        self.t0 = time.time()

    # ---- TLC
    def tlc(self, module, cfg=None, must_hold=True, **kw):
        kw.setdefault('scratch', self.scratch)
        try:
            r = tlc.run(module, cfg, **kw)
        except tlc.TLCError as e:
            raise Machinery(str(e))
        self.states += r.distinct
        self.transitions += r.generated
        self.tlc_runs.append({'module': module, 'cfg': cfg, 'distinct': r.distinct, 'generated': r.generated,
                              'wall_s': round(r.wall, 1), 'violated': r.violated})
        if must_hold and not r.ok:
            raise Machinery('spec-level check failed in %s (%s): %s\n%s' % (module, cfg, r.violated, r.out[-3000:]))
        return r

    # ---- bookkeeping
    def count(self, n=1, key=None):
        self.evaluations += n
        if key is not None:
            self.nontrivial.add(key)

    def sample(self, s, limit=6):
        if len(self.samples) < limit:
            self.samples.append(s)

    def violation(self, signature, what, detail=None):
        """signature: JSON-able dict identifying the concrete failing case"""
        for f in self.findings:
            if f.get('status') == 'known' and all(signature.get(k) == v for k, v in f['signature'].items()):
                if f not in [k[0] for k in self.known]:
                    self.known.append((f, signature))
                return 'known'
        cls = str(signature.get('class') or signature.get('aspect') or 'unclassified')
        self.by_class[cls] = self.by_class.get(cls, 0) + 1
        k = len(self.violations)
        if self.by_class[cls] <= 4 and self.nfiles < 40:
            os.makedirs(os.path.join(VERIF, 'replay'), exist_ok=True)
            path = os.path.join(VERIF, 'replay', '%s-%d.json' % (self.pid, self.nfiles))
            self.nfiles += 1
            self.last_path = path
            with open(path, 'w') as fh:
                json.dump({'property': self.pid, 'signature': signature, 'what': what, 'detail': detail,
                           'tier': self.tier, 'seed': self.seed}, fh, indent=1, default=str, sort_keys=True)
        else:
            path = self.last_path
        self.violations.append((signature, what, path))
        return 'violation'

    def note_drift(self, what):
        if len(self.drift) < 50:
            self.drift.append(what)

    def cleanup(self):
        shutil.rmtree(self.scratch, ignore_errors=True)


def load_findings(pid):
    p = os.path.join(VERIF, 'known_findings.json')
    if not os.path.exists(p):
        return []
    with open(p) as fh:
        return [f for f in json.load(fh).get('findings', []) if f.get('property') == pid]


def write_evidence(ctx, level='model_checking'):
    cov = {
        'states': ctx.states,
        'transitions': ctx.transitions,
        'traces_validated_against_impl': ctx.traces_validated,
        'evaluations': ctx.evaluations,
        'distinct_nontrivial': len(ctx.nontrivial),
        'samples': ctx.samples or ['(none recorded)'],
        'tlc_runs': ctx.tlc_runs,
        'drift': ctx.drift,
        'known_findings_seen': [f['what'] for f, _ in ctx.known],
        'violations_by_class': ctx.by_class,
    }
    cov.update(ctx.extra)
    ev = {
        'property_id': ctx.pid, 'tier': ctx.tier, 'seed': ctx.seed, 'level': level,
        'coverage': cov, 'assumptions': ctx.assumptions,
        'wall_s': round(time.time() - ctx.t0, 2), 'violations': len(ctx.violations),
    }
    # evidence committed under /verif/evidence always describes /repo itself; runs against a scratch copy
    # (mutation experiments, VERIF_REPO=...) write theirs next to the replay files instead
    evdir = os.path.join(VERIF, 'evidence') if os.path.realpath(repo.REPO) == '/repo' else os.path.join(VERIF, 'replay', 'evidence-other-tree')
    os.makedirs(evdir, exist_ok=True)
    with open(os.path.join(evdir, '%s.json' % ctx.pid), 'w') as fh:
        json.dump(ev, fh, indent=1, default=str)


def main(argv=None):
    ap = argparse.ArgumentParser()
    ap.add_argument('pid')
    ap.add_argument('--tier', default=os.environ.get('VERIF_TIER', 'quick'), choices=['quick', 'thorough'])
    ap.add_argument('--seed', type=int, default=int(os.environ.get('VERIF_SEED', '0') or 0))
    ap.add_argument('--replay', default=None)
    a = ap.parse_args(argv)
    pid = a.pid.upper()
    repo.activate()
    ctx = Ctx(pid, a.tier, a.seed)
    rc = 0
    try:
        mod = importlib.import_module('engine.adapters.%s' % pid.lower())
        if a.replay:
            with open(a.replay) as fh:
                rec = json.load(fh)
            ok = mod.replay(ctx, rec)
            print('replay: %s' % ('property holds on this case' if ok else 'violation reproduced'))
            return 0 if ok else 1
        mod.run(ctx)
        write_evidence(ctx, getattr(mod, 'LEVEL', 'model_checking'))
        for f, sig in ctx.known:
            print('KNOWN-FINDING: property=%s %s' % (pid, f['what']))
        for d in ctx.drift[:10]:
            print('DRIFT property=%s %s' % (pid, d))
        seen = set()
        for sig, what, path in ctx.violations:
            if path in seen:
                continue
            seen.add(path)
            print('VIOLATION property=%s replay=%s' % (pid, path))
            print('  ' + what)
        if ctx.violations:
            rc = 1
            print('violations by class: %s' % ctx.by_class)
        print('%s %s: states=%d transitions=%d impl_traces=%d evaluations=%d violations=%d wall=%.1fs' % (
            pid, a.tier, ctx.states, ctx.transitions, ctx.traces_validated, ctx.evaluations,
            len(ctx.violations), time.time() - ctx.t0))
    except Machinery as e:
        print('MACHINERY-FAILURE %s: %s' % (pid, e))
        rc = 2
    except Exception:
        print('MACHINERY-FAILURE %s: unexpected exception' % pid)
        traceback.print_exc()
        rc = 2
    finally:
        ctx.cleanup()
    return rc


if __name__ == '__main__':
    sys.exit(main())
