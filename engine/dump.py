"""Fast, parallel consumption of TLC -dump files.

A dump is a sequence of blocks  'State N:\n/\\ v1 = ...\n/\\ v2 = ...\n\n'.  Each block is converted to JSON text by
string substitution (C speed) and falls back to the general TLA+ value parser (engine.tlaval) when the block
contains function-constructor syntax or strings with bracket characters.
Python mapping on the fast path: sequences and sets -> list, records -> dict, TRUE/FALSE -> bool.
"""
import json
import multiprocessing
import os
import re

from engine import tlaval

_VAR = re.compile(r'^(?:/\\ )?([A-Za-z_][A-Za-z0-9_]*) = ', re.M)
_KEY = re.compile(r'([A-Za-z_][A-Za-z0-9_]*) \|->')
_RISKY = re.compile(r'"[^"]*[\[\]{}<>|][^"]*"')
_BARE = re.compile(r'(?<=[\[,:\s])([A-Za-z_][A-Za-z0-9_]*)(?=\s*[,\]}])')


def _norm(v):
    """general-parser value -> JSON-like python (tuples/frozensets -> lists)"""
    if isinstance(v, (tuple, frozenset, list)):
        return [_norm(x) for x in v]
    if isinstance(v, dict):
        return {k: _norm(x) for k, x in v.items()}
    return v


def value_to_py(text):
    if ':>' in text or '@@' in text or '..' in text or _RISKY.search(text):
        return _norm(tlaval.parse(text))
    t = text.replace('{', '\x01').replace('}', '\x02').replace('[', '{').replace(']', '}')
    t = t.replace('<<', '[').replace('>>', ']').replace('\x01', '[').replace('\x02', ']')
    t = _KEY.sub(r'"\1":', t)
    t = re.sub(r'\bTRUE\b', 'true', t)
    t = re.sub(r'\bFALSE\b', 'false', t)
    try:
        return json.loads(t)
    except ValueError:
        return _norm(tlaval.parse(text))


def parse_block(block):
    """block: text of one state (without the 'State N:' line) -> dict var -> value"""
    out = {}
    ms = list(_VAR.finditer(block))
    for i, m in enumerate(ms):
        end = ms[i + 1].start() if i + 1 < len(ms) else len(block)
        out[m.group(1)] = value_to_py(block[m.end():end].strip())
    return out


def iter_states(path, start=0, end=None):
    """yield states whose 'State' header begins in [start, end)"""
    size = os.path.getsize(path)
    end = size if end is None else end
    with open(path, 'rb') as f:
        f.seek(start)
        if start:
            # align to next header
            buf = b''
            pos = start
            while True:
                line = f.readline()
                if not line:
                    return
                if line.startswith(b'State '):
                    break
                pos += len(line)
            if pos >= end:
                return
            header_pos = pos
        else:
            line = f.readline()
            header_pos = 0
            while line and not line.startswith(b'State '):
                header_pos += len(line)
                line = f.readline()
            if not line:
                return
        cur = []
        pos = header_pos + len(line)
        while True:
            line = f.readline()
            if not line or line.startswith(b'State '):
                if cur:
                    yield parse_block(b''.join(cur).decode('utf-8'))
                if not line or pos >= end:
                    return
                cur = []
            else:
                cur.append(line)
            pos += len(line)


BYSTANDER_EVERY = int(os.environ.get('VERIF_BYSTANDER_EVERY', '250'))


def with_bystanders(states):
    """interleave the replayed cases with calls on unrelated grader objects (engine/bystanders.py): whatever those
    leave behind in process-wide or class-wide state must not change how the next case is graded"""
    if BYSTANDER_EVERY <= 0:
        for st in states:
            yield st
        return
    stress = None
    for k, st in enumerate(states):
        if k % BYSTANDER_EVERY == 0:
            if stress is None:
                try:
                    from engine import repo, bystanders
                    repo.activate()
                    stress = bystanders.stress
                except Exception:  # noqa -- the library cannot even be imported: the adapter will report that
                    stress = False
            if stress:
                try:
                    stress()
                except Exception:  # noqa
                    pass
        yield st


def _worker(args):
    path, start, end, fn_mod, fn_name, extra = args
    import importlib
    fn = getattr(importlib.import_module(fn_mod), fn_name)
    return fn(with_bystanders(iter_states(path, start, end)), extra)


def parallel(path, fn_mod, fn_name, extra=None, procs=16, chunks_per_proc=4):
    """Run module.function(states_iterator, extra) over byte-range chunks of the dump in worker processes.
    Returns the list of per-chunk results."""
    size = os.path.getsize(path)
    n = max(1, procs * chunks_per_proc)
    step = max(1, size // n)
    bounds = [(i * step, size if i == n - 1 else (i + 1) * step) for i in range(n)]
    args = [(path, s, e, fn_mod, fn_name, extra) for s, e in bounds if s < size]
    ctxm = multiprocessing.get_context('fork')
    with ctxm.Pool(procs) as pool:
        return pool.map(_worker, args, chunksize=1)


def pmap(fn_mod, fn_name, items, extra=None, procs=16):
    """Parallel map over a list of JSON-able work items in chunks: module.function(items_chunk, extra)."""
    items = list(items)
    if not items:
        return []
    n = min(len(items), procs * 4)
    step = (len(items) + n - 1) // n
    chunks = [items[i:i + step] for i in range(0, len(items), step)]
    ctxm = multiprocessing.get_context('fork')
    with ctxm.Pool(procs) as pool:
        return pool.map(_pm, [(fn_mod, fn_name, c, extra) for c in chunks], chunksize=1)


def _pm(args):
    fn_mod, fn_name, chunk, extra = args
    import importlib
    return getattr(importlib.import_module(fn_mod), fn_name)(chunk, extra)
